(* C16, blank lines end to end (stop-at-first-error mode): inserting blank lines that the parser reaches in a state which
   handles #Empty by staying put (every state outside descriptions and doc strings) changes only line numbers.
   Composition of: Parser.parse = the queue-free machine (MachineInst), the insertion theorem for the machine
   (MachineInsert), the matcher's blindness to line numbers (matcher_le below) and the builder's blindness to line numbers
   and to the #Empty tokens it stores (LineErase). *)
From Coq Require Import String List Bool Arith NArith Lia.
Import ListNotations.
Require Import Kinds Automaton AutoFacts PyStr Line Matcher MatcherFacts Ast Builder Pipeline PipelineFacts Table TableFacts Dialects
               BuilderErase ColErase LineErase Delivery DeliveryInst Machine MachineEq MachineInst MachineInsert LineEndings.

(* ---- the matcher copies line numbers, it never looks at them ---- *)
Definition mout_le (o : mout) : mout :=
  match o with
  | MNo => MNo
  | MYes t m => MYes (tle t) m
  | MErr e t m => MErr (le_err e) (tle t) m
  end.

Lemma set_matched_le m t ty text kw kt ind items :
  set_matched m (tle t) ty text kw kt ind items = tle (set_matched m t ty text kw kt ind items).
Proof. unfold set_matched, tle. cbn [tk_line tk_loc loc_line]. destruct (tk_line t); reflexivity. Qed.

Lemma ftk_lle l ks : first_title_keyword (lle l) ks = first_title_keyword l ks.
Proof. induction ks as [|k ks IH]; cbn [first_title_keyword]; [reflexivity|]. rewrite IH. reflexivity. Qed.
Lemma fp_lle l ks : first_prefix (lle l) ks = first_prefix l ks.
Proof. induction ks as [|k ks IH]; cbn [first_prefix]; [reflexivity|]. rewrite IH. reflexivity. Qed.
Lemma sw_lle l p : line_startswith (lle l) p = line_startswith l p. Proof. reflexivity. Qed.
Lemma rest_lle l n : get_rest_trimmed (lle l) n = get_rest_trimmed l n. Proof. reflexivity. Qed.
Lemma empty_lle l : line_is_empty (lle l) = line_is_empty l. Proof. reflexivity. Qed.
Lemma tags_lle l : line_tags (lle l) = match line_tags l with TagsOk i => TagsOk i | TagsErr c => TagsErr c end.
Proof. unfold line_tags. cbn [lle l_trimmed l_indent]. destruct (tags_items _ _ _); reflexivity. Qed.
Lemma cells_lle l : table_cells (lle l) = table_cells l. Proof. reflexivity. Qed.
Lemma glt_lle l i : get_line_text (lle l) i = get_line_text l i. Proof. reflexivity. Qed.

Ltac lnorm := rewrite ?ftk_lle, ?fp_lle, ?sw_lle, ?rest_lle, ?empty_lle, ?cells_lle, ?glt_lle.

Lemma matcher_le k m t : matcher dialects k m (tle t) = mout_le (matcher dialects k m t).
Proof.
  unfold matcher. cbn [tk_line tle]. destruct (tk_line t) as [l|] eqn:L; cbn [option_map].
  - destruct k; unfold match_title_line, match_docsep; change (l_text (lle l)) with (l_text l); change (l_indent (lle l)) with (l_indent l);
      repeat (lnorm;
              match goal with
              | |- context [if line_is_empty ?x then _ else _] => destruct (line_is_empty x)
              | |- context [if line_startswith ?x ?p then _ else _] => destruct (line_startswith x p)
              | |- context [match first_title_keyword ?x ?ks with _ => _ end] => destruct (first_title_keyword x ks)
              | |- context [match first_prefix ?x ?ks with _ => _ end] => destruct (first_prefix x ks)
              | |- context [match language_header ?z with _ => _ end] => destruct (language_header z)
              | |- context [match find_dialect ?ds ?n with _ => _ end] => destruct (find_dialect ds n)
              | |- context [match ms_sep ?z with _ => _ end] => destruct (ms_sep z)
              end);
      lnorm; cbn [mout_le]; rewrite ?set_matched_le, ?le_err_pe; try reflexivity.
    rewrite tags_lle. destruct (line_tags l); cbn [mout_le]; rewrite ?set_matched_le, ?le_err_pe; reflexivity.
  - destruct k; cbn [mout_le]; rewrite ?set_matched_le; reflexivity.
Qed.

(* ---- the relations: equal up to line numbers ---- *)
Definition TRn (t t' : token) : Prop := tle t = tle t'.
Definition ERn (e e' : perror) : Prop := le_err e = le_err e'.
Notation rP := (pipeline_params Table.table).

Lemma p_matchf_le k m t :
  p_matchf k m (tle t) = match p_matchf k m t with MR b t1 m1 => MR b (tle t1) m1 | MRaise e t1 m1 => MRaise (le_err e) (tle t1) m1 end.
Proof. unfold p_matchf. rewrite matcher_le. destruct (matcher dialects k m t); reflexivity. Qed.

Lemma I_eof t t' : TRn t t' -> is_eof rP t = is_eof rP t'.
Proof.
  unfold TRn. intros H. cbn [is_eof pipeline_params]. assert (E : forall x, tok_is_eof (tle x) = tok_is_eof x) by (intros x; unfold tok_is_eof, tle; cbn; destruct (tk_line x); reflexivity).
  rewrite <- (E t), <- (E t'), H. reflexivity.
Qed.
Lemma I_match k m t t' : TRn t t' ->
  match matchf rP k m t, matchf rP k m t' with
  | MR b t1 m1, MR b' t1' m1' => b = b' /\ TRn t1 t1' /\ m1 = m1'
  | MRaise e t1 m1, MRaise e' t1' m1' => ERn e e' /\ m1 = m1'
  | _, _ => False
  end.
Proof.
  unfold TRn, ERn. intros R. cbn [matchf pipeline_params]. pose proof (p_matchf_le k m t) as A. pose proof (p_matchf_le k m t') as B.
  rewrite R, B in A.
  assert (X1 : forall (a c : bool) (x y : token) (u v : mstate), @MR token mstate perror a x u = MR c y v -> a = c /\ x = y /\ u = v) by (intros; inversion H; auto).
  assert (X2 : forall (a c : perror) (x y : token) (u v : mstate), @MRaise token mstate perror a x u = MRaise c y v -> a = c /\ x = y /\ u = v) by (intros; inversion H; auto).
  destruct (p_matchf k m t) as [b t1 m1|e t1 m1], (p_matchf k m t') as [b' t1' m1'|e' t1' m1']; try discriminate A.
  - apply X1 in A as (A1 & A2 & A3). auto.
  - apply X2 in A as (A1 & A2 & A3). auto.
Qed.

Lemma lift_nrel o o' : boutn_rel o o' -> bres_rel BRn ERn (lift_bout o) (lift_bout o').
Proof. destruct o, o'; cbn; auto. Qed.
Lemma I_start r b b' : BRn b b' -> bres_rel BRn ERn (b_start rP r b) (b_start rP r b').
Proof. intros H. apply lift_nrel, builder_start_nrel, H. Qed.
Lemma I_end r b b' : BRn b b' -> bres_rel BRn ERn (b_end rP r b) (b_end rP r b').
Proof. intros H. apply lift_nrel, builder_end_nrel, H. Qed.
Lemma I_build t t' b b' : TRn t t' -> BRn b b' -> bres_rel BRn ERn (b_build rP t b) (b_build rP t' b').
Proof. intros Ht H. apply lift_nrel, builder_build_nrel; assumption. Qed.

Lemma unexpected_le t exp : unexpected (tle t) exp = le_err (unexpected t exp).
Proof.
  unfold unexpected, token_value. cbn [tk_line tle]. destruct (tk_line t) as [l|]; cbn [option_map]; rewrite le_err_pe.
  - change (get_line_text (lle l) None) with (get_line_text l None). change (l_indent (lle l)) with (l_indent l). f_equal.
    unfold tle. cbn [tk_loc]. unfold le_loc. cbn [loc_col loc_line]. destruct (loc_col (tk_loc t)) as [[|c]|] eqn:E; cbn [loc_col loc_line]; rewrite ?E; reflexivity.
  - reflexivity.
Qed.
Lemma I_unexp t t' exp : TRn t t' -> ERn (mk_unexpected rP t exp) (mk_unexpected rP t' exp).
Proof. unfold TRn, ERn. intros H. cbn [mk_unexpected pipeline_params]. rewrite <- !unexpected_le, H. reflexivity. Qed.

(* ---- blank lines ---- *)
Require Import TerminatorFacts BlankTail BlankParse AgreeUpTo.

Definition bl (z : token) : Prop := match tk_line z with Some l => line_is_empty l = true | None => False end.

Lemma MIw_MI m : MIw m -> MI m.
Proof.
  intros [W S]. split; [exact W|]. destruct (ms_sep m) as [s|]; [|exact I]. destruct S as [-> | ->]; split; (reflexivity || discriminate).
Qed.

Lemma sw_blank l p : line_is_empty l = true -> p <> [] -> line_startswith l p = false.
Proof. unfold line_is_empty, line_startswith. destruct (l_trimmed l); [|discriminate]. intros _ N. destruct p; [congruence | reflexivity]. Qed.
Lemma ftk_blank l ks : line_is_empty l = true -> first_title_keyword l ks = None.
Proof.
  intros E. induction ks as [|k ks IH]; cbn [first_title_keyword]; [reflexivity|].
  unfold startswith_title_keyword. change (starts_with (k ++ [COLON]) (l_trimmed l)) with (line_startswith l (k ++ [COLON])).
  rewrite (sw_blank l _ E) by (destruct k; discriminate). exact IH.
Qed.
Lemma fp_blank l ks : line_is_empty l = true -> (forall k, In k ks -> k <> []) -> first_prefix l ks = None.
Proof.
  intros E. induction ks as [|k ks IH]; intros H; cbn [first_prefix]; [reflexivity|].
  rewrite (sw_blank l k E (H k (or_introl eq_refl))). apply IH. intros k' Hk'. apply H. now right.
Qed.

(* what the matcher answers about a blank line *)
Lemma blank_matcher k m z l : tk_line z = Some l -> line_is_empty l = true -> MIw m ->
  matcher dialects k m z =
  match k with
  | KEmpty => MYes (set_matched m z KEmpty None None None (Some 0) []) m
  | KOther => MYes (set_matched m z KOther (Some (unescape_docstring m (get_line_text l (Some (ms_indent m))))) None None (Some 0) []) m
  | _ => MNo
  end.
Proof.
  intros L E Hm. pose proof (MIw_MI m Hm) as Hmi. unfold matcher. rewrite L.
  destruct k; unfold match_title_line, match_docsep; rewrite ?E, ?(ftk_blank l _ E), ?(sw_blank l _ E) by discriminate; try reflexivity.
  - (* step *) rewrite (fp_blank l _ E); [reflexivity|]. intros k Hk. apply (kws_plain m k Hmi). do 6 (apply in_or_app; right). exact Hk.
  - (* doc string separator *) destruct Hm as [_ S]. destruct (ms_sep m) as [s|].
    + rewrite (sw_blank l s E); [reflexivity | destruct S as [-> | ->]; discriminate].
    + rewrite ?(sw_blank l _ E) by discriminate. reflexivity.
  - (* language *) cbn [get_line_text]. unfold line_is_empty in E. destruct (l_trimmed l); [reflexivity | discriminate E].
Qed.

Lemma bl_noeof z : bl z -> is_eof rP z = false.
Proof. unfold bl. cbn [is_eof pipeline_params]. unfold tok_is_eof. destruct (tk_line z); [reflexivity | contradiction]. Qed.

Lemma m_match_blank k m z l : tk_line z = Some l -> line_is_empty l = true -> MIw m ->
  m_match rP k z m =
  match k with
  | KEmpty => MrOk (true, set_matched m z KEmpty None None None (Some 0) [], m)
  | KOther => MrOk (true, set_matched m z KOther (Some (unescape_docstring m (get_line_text l (Some (ms_indent m))))) None None (Some 0) [], m)
  | _ => MrOk (false, z, m)
  end.
Proof.
  intros L E Hm. unfold m_match. cbn [is_eof matchf pipeline_params]. unfold tok_is_eof. rewrite L, andb_false_r.
  unfold p_matchf. rewrite (blank_matcher k m z l L E Hm). destruct k; reflexivity.
Qed.

Lemma B_la h m z : In h (Automaton.lookaheads rP) -> bl z -> MIw m ->
  m_any rP (la_expected h) z m = MrOk (false, z, m) /\ exists z', m_any rP (la_skip h) z m = MrOk (true, z', m) /\ bl z'.
Proof.
  intros Hh Bz Hm. unfold bl in Bz. destruct (tk_line z) as [l|] eqn:L; [|contradiction].
  cbn [Automaton.lookaheads pipeline_params] in Hh. destruct Hh as [<- | [<- | []]]; cbn [la_expected la_skip m_any];
    rewrite !(m_match_blank _ m z l L Bz Hm); (split; [reflexivity|]); eexists; (split; [reflexivity|]); unfold bl; cbn [tk_line set_matched]; rewrite L; exact Bz.
Qed.

(* a state that builds an #Empty line and stays where it is *)
Fixpoint empty_loop (s : nat) (tests : list test) : bool :=
  match tests with
  | [] => false
  | y :: r =>
    if kind_beq (t_kind y) KEmpty
    then match t_guard y with None => true | Some _ => false end && list_beq prod_beq (t_prods y) [Kinds.PB] && Nat.eqb (t_tgt y) s
    else if kind_beq (t_kind y) KOther then false else empty_loop s r
  end.
Definition neutral (s : nat) : Prop := exists x, find_state rP s = Some x /\ empty_loop s (s_tests x) = true.
Definition BI (b : bstate) : Prop := b_stack b <> [].

Lemma prods_pb ps : list_beq prod_beq ps [Kinds.PB] = true -> ps = [Kinds.PB].
Proof. destruct ps as [|p [|q r]]; cbn; try discriminate; [|rewrite andb_false_r; discriminate]. destruct p; cbn; try discriminate. reflexivity. Qed.

Lemma m_tests_blank s exp z l ups : forall tests m b b', empty_loop s tests = true -> tk_line z = Some l -> line_is_empty l = true -> MIw m ->
  BI b -> BRn b b' -> exists b1, m_tests rP tests exp z m b ups = MoOk (s, ups) m b1 /\ BRn b1 b'.
Proof.
  induction tests as [|y r IH]; intros m b b' El L E Hm Hb Rb; cbn [empty_loop] in El; [discriminate|]. cbn [m_tests].
  rewrite (m_match_blank (t_kind y) m z l L E Hm).
  destruct (kind_beq (t_kind y) KEmpty) eqn:Ke.
  - apply kind_beq_eq in Ke. rewrite Ke. apply andb_prop in El as [El Et]. apply andb_prop in El as [Eg Ep].
    destruct (t_guard y); [discriminate Eg|]. rewrite (prods_pb _ Ep). apply Nat.eqb_eq in Et. rewrite Et.
    cbn [m_exec b_build pipeline_params]. unfold p_bbuild, builder_build. cbn [m_type set_matched].
    unfold BI in Hb. destruct (b_stack b) as [|cur stk] eqn:Sb; [congruence|]. cbn [lift_bout].
    eexists. split; [reflexivity|]. unfold BRn in *. rewrite <- Rb. unfold ble. cbn [b_stack b_comments b_idc]. rewrite Sb. cbn [map].
    rewrite node_add_le. reflexivity.
  - destruct (kind_beq (t_kind y) KOther) eqn:Ko; [discriminate El|].
    assert (G : match t_kind y with
                | KEmpty => MrOk (true, set_matched m z KEmpty None None None (Some 0) [], m)
                | KOther => MrOk (true, set_matched m z KOther (Some (unescape_docstring m (get_line_text l (Some (ms_indent m))))) None None (Some 0) [], m)
                | _ => MrOk (false, z, m)
                end = @MrOk mstate perror _ (false, z, m)) by (destruct (t_kind y); try reflexivity; discriminate).
    rewrite G. apply IH; assumption.
Qed.

Lemma B_step s z m b b' ups : neutral s -> bl z -> MIw m -> BI b -> BRn b b' ->
  exists b1, m_step rP s z m b ups = MoOk (s, ups) m b1 /\ BRn b1 b'.
Proof.
  intros (x & Fs & El) Bz Hm Hb Rb. unfold bl in Bz. destruct (tk_line z) as [l|] eqn:L; [|contradiction].
  unfold m_step. rewrite Fs. exact (m_tests_blank s (s_expected x) z l ups (s_tests x) m b b' El L Bz Hm Hb Rb).
Qed.

Lemma BI_start r b b1 : BI b -> b_start rP r b = BOk b1 -> BI b1.
Proof. intros _ H. cbn in H. inversion H. unfold BI. cbn. discriminate. Qed.
Lemma BI_end r b b1 : BI b -> b_end rP r b = BOk b1 -> BI b1.
Proof.
  intros _. cbn [b_end pipeline_params]. unfold p_bend, builder_end. destruct (b_stack b) as [|n stk]; [discriminate|].
  destruct (transform_node n (b_comments b) (b_idc b)); try discriminate. destruct stk; [discriminate|]. cbn. intros H. inversion H. unfold BI. cbn. discriminate.
Qed.
Lemma BI_build t b b1 : BI b -> b_build rP t b = BOk b1 -> BI b1.
Proof.
  intros Hb. cbn [b_build pipeline_params]. unfold p_bbuild, builder_build. destruct (m_type t) as [k|]; [|discriminate].
  assert (G : lift_bout match b_stack b with [] => BoCrash | cur :: stk => BoOk (mk_bstate (node_add cur (KT k) (VTok t) :: stk) (b_comments b) (b_idc b)) end = BOk b1 -> BI b1).
  { destruct (b_stack b); [discriminate|]. cbn. intros H. inversion H. unfold BI. cbn. discriminate. }
  destruct k; try exact G. destruct (m_text t); [|discriminate]. cbn. intros H. inversion H. unfold BI in *. cbn. exact Hb.
Qed.

Lemma MQ_match k m t : MIw m -> MIw (match matchf rP k m t with MR _ _ m' | MRaise _ _ m' => m' end).
Proof. intros H. exact (p_matchf_MIw k m t H). Qed.

(* ---- the machine with and without inserted blank tokens ---- *)
Theorem machine_blank_tokens toks toks' fl m b b' : MIw m -> BI b -> BRn b b' -> aligned TRn bl fl toks toks' ->
  safe_run rP neutral toks fl m b ->
  ex_out_rel BRn ERn (m_parse rP toks m b) (m_parse rP toks' m b').
Proof.
  intros Hm Hb Rb Al Sf.
  exact (m_parse_ins rP TRn BRn ERn bl neutral I_eof I_match I_start I_end I_build I_unexp MIw MQ_match bl_noeof B_la BI BI_start BI_end BI_build B_step
                     toks toks' fl m b b' Hm Hb Rb Al eq_refl Sf).
Qed.

(* ---- sources ---- *)
Definition blank_str (a : str) : bool := forallb is_space a.
Lemma raw_blank a n : blank_str a = true -> bl (raw_token a n).
Proof.
  intros H. unfold bl, raw_token. cbn [tk_line]. unfold line_is_empty, make_line. cbn [l_trimmed]. unfold lstrip. now rewrite (drop_while_all _ _ H).
Qed.
Fixpoint flagged_blank (fl : list bool) (ls : list str) : Prop :=
  match fl, ls with
  | f :: fl', a :: r => (f = true -> blank_str a = true) /\ flagged_blank fl' r
  | _, _ => True
  end.

Lemma number_aligned : forall fl ls' n' ls n, length fl = length ls' -> flagged_blank fl ls' -> del fl ls' = ls ->
  aligned TRn bl fl (number_lines ls' n') (number_lines ls n).
Proof.
  induction fl as [|f fl IH]; intros ls' n' ls n L F D; destruct ls' as [|a r]; try discriminate L.
  - cbn [del] in D. subst ls. repeat split; constructor.
  - cbn [length] in L. cbn [flagged_blank] in F. destruct F as [Fa F]. cbn [del] in D. cbn [number_lines]. destruct f.
    + destruct (IH r (S n') ls n ltac:(lia) F D) as (L1 & F1 & A1). split; [cbn [length]; lia|].
      split; [cbn [flagged_bl]; split; [intros _; apply raw_blank, Fa; reflexivity | exact F1] | cbn [del]; exact A1].
    + subst ls. cbn [number_lines]. destruct (IH r (S n') (del fl r) (S n) ltac:(lia) F eq_refl) as (L1 & F1 & A1). split; [cbn [length]; lia|].
      split; [cbn [flagged_bl]; split; [discriminate | exact F1] | cbn [del]; constructor; [reflexivity | exact A1]].
Qed.

(* what the caller observes, up to line numbers *)
Definition psimn (r r' : presult) : Prop :=
  match r, r' with
  | POk d m1 _ _, POk d' m1' _ _ => le_doc d = le_doc d' /\ m1 = m1'
  | PErr1 e m1 _ _, PErr1 e' m1' _ _ => le_err e = le_err e' /\ m1 = m1'
  | PCrash, PCrash => True
  | _, _ => False
  end.

Lemma machine_presult toks m b : Forall (fun t => tok_is_eof t = false) toks -> wf_ms m ->
  match presult_of (parse_tokens true toks m b), machine_tokens toks m b with
  | POk d m1 b1 _, MoOk _ m' b' => builder_result b' = Some d /\ m1 = m' /\ b1 = b'
  | PCrash, MoOk _ m' b' => builder_result b' = None
  | PErr1 e m1 b1 _, MoRaise e' m' b' => e = e' /\ m1 = m' /\ b1 = b'
  | PCrash, MoCrash => True
  | _, _ => False
  end.
Proof.
  intros Hne W. pose proof (pipeline_machine toks m b Hne W) as R.
  destruct (parse_tokens true toks m b) as [[] c|e c|es c|c|], (machine_tokens toks m b) as [[] m' b'|e' m' b'|]; cbn [pm_rel presult_of] in *; try contradiction; auto.
  destruct R as (<- & <- & _). destruct (builder_result (bs c)); auto.
Qed.

Theorem blank_lines_neutral m b src src' fl : wf_ms m ->
  length fl = length (py_lines src') -> flagged_blank fl (py_lines src') -> del fl (py_lines src') = py_lines src ->
  safe_run rP neutral (scan src') fl (reset_matcher dialects m) (reset_builder b) ->
  psimn (parse_source true m b src') (parse_source true m b src).
Proof.
  intros W L F D Sf. rewrite !parse_source_of.
  pose proof (machine_presult (scan src') m b (scan_noeof_from _ 1) W) as E'. pose proof (machine_presult (scan src) m b (scan_noeof_from _ 1) W) as E.
  pose proof (machine_blank_tokens (scan src') (scan src) fl (reset_matcher dialects m) (reset_builder b) (reset_builder b)
                (reset_MIw m W) ltac:(unfold BI; cbn; discriminate) eq_refl (number_aligned fl _ 1 _ 1 L F D) Sf) as X.
  unfold machine_tokens in *.
  destruct (presult_of (parse_tokens true (scan src') m b)) as [d' m1' b1' n'|es' m1' b1' n'|e' m1' b1' n'| |];
    destruct (m_parse rP (scan src') (reset_matcher dialects m) (reset_builder b)) as [[] mm' bb'|ee' mm' bb'|]; try contradiction;
    destruct (presult_of (parse_tokens true (scan src) m b)) as [d m1 b1 n|es m1 b1 n|e m1 b1 n| |];
    destruct (m_parse rP (scan src) (reset_matcher dialects m) (reset_builder b)) as [[] mm bb|ee mm bb|]; try contradiction;
    cbn [ex_out_rel psimn] in *; try contradiction; auto.
  all: repeat match goal with H : _ /\ _ |- _ => destruct H end; subst.
  all: try match goal with Rb : BRn _ _ |- _ => pose proof (builder_result_nrel _ _ Rb) as G end.
  all: try match goal with A : builder_result ?x = _, B : builder_result ?y = _, G : option_map le_doc (builder_result ?x) = option_map le_doc (builder_result ?y) |- _ =>
             rewrite A, B in G; cbn [option_map] in G end.
  all: try discriminate.
  all: split; congruence.
Qed.

(* ---- the side condition, executable ---- *)
Definition neutralb (s : nat) : bool :=
  match find_state rP s with Some x => empty_loop s (s_tests x) | None => false end.
Lemma neutralb_ok s : neutralb s = true -> neutral s.
Proof. unfold neutralb, neutral. destruct (find_state rP s) as [x|]; [|discriminate]. intros H. exists x. auto. Qed.

Fixpoint safeb (n : nat) (s : nat) (m : mstate) (b : bstate) (fl : list bool) (ups : list token) : bool :=
  match n with
  | 0 => true
  | S n' =>
    match fl, ups with
    | f :: fl', t :: r =>
      (negb f || neutralb s) &&
      match m_step rP s t m b r with
      | MoOk (s', r') m' b' => if tok_is_eof t then true else safeb n' s' m' b' fl' r'
      | _ => true
      end
    | _, _ => true
    end
  end.
Lemma safeb_ok : forall n s m b fl ups, safeb n s m b fl ups = true -> safe rP neutral n s m b fl ups.
Proof.
  induction n as [|n IH]; intros s m b fl ups H; cbn [safe safeb] in *; [exact I|].
  destruct fl as [|f fl]; [exact I|]. destruct ups as [|t r]; [exact I|]. apply andb_prop in H as [H1 H2]. split.
  - intros ->. cbn in H1. apply neutralb_ok, H1.
  - destruct (m_step rP s t m b r) as [[s' r'] m' b'| |]; try exact I. cbn [is_eof pipeline_params]. destruct (tok_is_eof t); [exact I | apply IH, H2].
Qed.
Definition safe_runb (toks : list token) (fl : list bool) (m : mstate) (b : bstate) : bool :=
  match b_start rP RGherkinDocument b with
  | BOk b1 => safeb (S (S (length toks))) (Automaton.start_state rP) m b1 (fl ++ [false]) (toks ++ [mk_eof rP (S (length toks))])
  | _ => true
  end.
Lemma safe_runb_ok toks fl m b : safe_runb toks fl m b = true -> safe_run rP neutral toks fl m b.
Proof. unfold safe_runb, safe_run. intros H b1 E. rewrite E in H. apply safeb_ok, H. Qed.

(* every state outside descriptions and doc strings is neutral *)
Lemma neutral_states : forallb (fun x => neutralb (s_id x) || existsb (Nat.eqb (s_id x)) (description_states Table.table)
                                         || existsb (Nat.eqb (s_id x)) (docstring_states Table.table)) Table.table = true.
Proof. vm_compute. reflexivity. Qed.

Fixpoint flagged_blankb (fl : list bool) (ls : list str) : bool :=
  match fl, ls with
  | f :: fl', a :: r => (negb f || blank_str a) && flagged_blankb fl' r
  | _, _ => true
  end.
Lemma flagged_blankb_ok : forall fl ls, flagged_blankb fl ls = true -> flagged_blank fl ls.
Proof.
  induction fl as [|f fl IH]; intros ls H; destruct ls as [|a r]; cbn [flagged_blank flagged_blankb] in *; auto.
  apply andb_prop in H as [H1 H2]. split; [intros ->; exact H1 | apply IH, H2].
Qed.
