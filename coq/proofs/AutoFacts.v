(* General facts about the generic interpreter (Automaton.v), for every
   instance: a small Hoare-style layer over the result monad, and frame lemmas
   saying which parts of the context each function can touch. *)
From Coq Require Import List Bool Arith Lia.
Import ListNotations.
Require Import Kinds Automaton.

Section Facts.
  Context {Tok MS BS Err : Type}.
  Variable P : params Tok MS BS Err.
  Notation ctx := (ctx Tok MS BS Err).
  Notation res := (res Tok MS BS Err).

  (* Q on normal return, E on any exception, F if fuel runs out *)
  Definition sat {A} (r : res A) (Q : A -> ctx -> Prop) (E : ctx -> Prop) (F : Prop) : Prop :=
    match r with
    | Ok a c => Q a c
    | Raise1 _ c | RaiseC _ c | Crash c => E c
    | OutOfFuel => F
    end.

  Lemma sat_bind {A B} (r : res A) (f : A -> ctx -> res B) Q1 Q2 E F :
    sat r Q1 E F -> (forall a c, Q1 a c -> sat (f a c) Q2 E F) -> sat (bind r f) Q2 E F.
  Proof. destruct r; simpl; auto. Qed.

  Lemma sat_weaken {A} (r : res A) (Q Q' : A -> ctx -> Prop) (E E' : ctx -> Prop) (F F' : Prop) :
    sat r Q E F -> (forall a c, Q a c -> Q' a c) -> (forall c, E c -> E' c) -> (F -> F') -> sat r Q' E' F'.
  Proof. destruct r; simpl; auto. Qed.

  Lemma sat_okonly {A} (r : res A) Q E F : sat r Q E F -> sat r Q (fun _ => True) True.
  Proof. destruct r; simpl; auto. Qed.

  (* frame: the log is untouched and a non-empty error list stays non-empty *)
  Definition fr (c c' : ctx) : Prop := log c' = log c /\ (errs c <> [] -> errs c' <> []).
  Lemma fr_refl c : fr c c. Proof. split; auto. Qed.
  Lemma fr_trans a b c : fr a b -> fr b c -> fr a c.
  Proof. intros [H1 H2] [H3 H4]. split; [congruence | auto]. Qed.

  Lemma fr_same c0 c c' : fr c0 c -> log c' = log c -> errs c' = errs c -> fr c0 c'.
  Proof. intros [H1 H2] L E. split; [congruence | rewrite E; auto]. Qed.
  Ltac frs := cbv beta in *; match goal with H : fr _ _ |- fr _ _ => solve [eapply fr_same; [exact H | reflexivity | reflexivity]] end.

  Lemma existsb_nonempty {A} (f : A -> bool) l : existsb f l = true -> l <> [].
  Proof. destruct l; simpl; [discriminate | intros _ H; discriminate]. Qed.

  Lemma add_error_fr c0 e c : fr c0 c ->
    sat (add_error P e c) (fun _ c' => fr c0 c' /\ errs c' <> []) (fr c0) True.
  Proof.
    intros H. unfold add_error. destruct (existsb _ _) eqn:E; simpl.
    - split; [exact H | eapply existsb_nonempty; eauto].
    - assert (N : errs c ++ [e] <> []) by (destruct (errs c); discriminate).
      assert (G : fr c0 (set_errs (errs c ++ [e]) c)) by (destruct H as [H1 H2]; split; simpl; auto).
      destruct (_ <? _); simpl; auto.
  Qed.

  Lemma read_fr c0 c : fr c0 c -> fr c0 (snd (read P c)).
  Proof. intros H. unfold read. destruct (queue c); [destruct (rest c)|]; simpl; frs. Qed.

  Lemma match_k_fr c0 stop k t c : fr c0 c ->
    sat (match_k P stop k t c) (fun _ c' => fr c0 c') (fr c0) True.
  Proof.
    intros H. unfold match_k. destruct (_ && _); simpl; [exact H|].
    destruct (matchf P k _ t) as [b t' m'|e t' m']; simpl; [frs|].
    destruct stop; simpl; [frs|].
    eapply sat_bind; [apply (add_error_fr c0); frs|]. intros [] c' [G _]. simpl. exact G.
  Qed.

  Lemma any_match_fr c0 stop ks : forall t c, fr c0 c ->
    sat (any_match P stop ks t c) (fun _ c' => fr c0 c') (fr c0) True.
  Proof.
    induction ks as [|k ks IH]; intros t c H; simpl; [exact H|].
    eapply sat_bind; [apply match_k_fr; exact H|]. intros [b t'] c' G. simpl.
    destruct b; simpl; [exact G|]. apply IH. exact G.
  Qed.

  Lemma la_loop_fr c0 stop h : forall fuel c acc, fr c0 c ->
    sat (la_loop P fuel stop h c acc) (fun _ c' => fr c0 c') (fr c0) True.
  Proof.
    induction fuel as [|f IH]; intros c acc H; simpl; [exact I|].
    pose proof (read_fr c0 c H) as R. destruct (read P c) as [t c1]. simpl in R.
    eapply sat_bind; [apply any_match_fr; exact R|].
    intros [b t'] c2 H2. simpl. destruct b; simpl; [exact H2|].
    eapply sat_bind; [apply any_match_fr; exact H2|].
    intros [b' t''] c3 H3. simpl. destruct b'; simpl; [|exact H3].
    apply IH. exact H3.
  Qed.

  Lemma lookahead_fr c0 stop h c : fr c0 c ->
    sat (lookahead P stop h c) (fun _ c' => fr c0 c') (fr c0) True.
  Proof.
    intros H. unfold lookahead. destruct (find_la P h); [|exact H].
    eapply sat_bind; [apply la_loop_fr; exact H|]. intros r c1 G. simpl. frs.
  Qed.

  Lemma b_call_fr c0 stop f c : fr c0 c ->
    sat (b_call P stop f c) (fun _ c' => fr c0 c') (fr c0) True.
  Proof.
    intros H. unfold b_call. destruct (f (bs c)); simpl; [frs | | exact H].
    destruct stop; simpl; [frs|].
    eapply sat_weaken; [apply (add_error_fr c0 e (set_bs b c)); frs | | | auto]; simpl; intros; tauto.
  Qed.

  (* ---- what exec appends to the log ---- *)
  Definition ev_of_prod (t : Tok) (k : kind) (p : prod) : ev Tok :=
    match p with PS r => EvS r | PE r => EvE r | PB => EvB t k end.

  Lemma exec_log stop t k : forall ps c,
    sat (exec P stop t k ps c)
        (fun _ c' => log c' = rev (map (ev_of_prod t k) ps) ++ log c /\ (errs c <> [] -> errs c' <> []))
        (fun _ => True) True.
  Proof.
    induction ps as [|p ps IH]; intros c; simpl; [auto|].
    eapply sat_bind with (Q1 := fun _ c' => log c' = ev_of_prod t k p :: log c /\ (errs c <> [] -> errs c' <> [])).
    - destruct p; simpl;
        (eapply sat_weaken; [eapply b_call_fr; apply fr_refl | | | auto]; simpl; auto).
    - intros _ c' [H1 H2].
      eapply sat_weaken; [apply IH | | | auto]; simpl; auto.
      intros _ c'' [H3 H4]. split; [|auto].
      rewrite H3, H1. rewrite <- app_assoc. reflexivity.
  Qed.
End Facts.
