(* C12: the three escapes and every other backslash pair, read off the implementation's character loop directly (not
   through the token reading of CellsSpec.v): in a cell made of plain text, one backslash pair, plain text, the pair is
   decoded when its second character is 'n', '|' or '\' and kept as written -- backslash and character -- otherwise. *)
From Coq Require Import List Bool Arith NArith Lia.
Import ListNotations.
Require Import PyStr Line.

Local Open Scope N_scope.

(* text without pipe and backslash *)
Definition plain (s : str) : bool := forallb (fun c => negb (c =? PIPE) && negb (c =? BSL)) s.

Lemma split_cells_plain a : plain a = true -> forall r col start cell first,
  split_cells (a ++ r) col start cell first = split_cells r (col + length a)%nat start (rev a ++ cell) first.
Proof.
  induction a as [|c a IH]; intros Pa r col start cell first.
  - cbn [app length rev]. rewrite Nat.add_0_r. reflexivity.
  - cbn [plain forallb] in Pa. apply andb_prop in Pa as [Pc Pa]. apply andb_prop in Pc as [P1 P2].
    apply negb_true_iff in P1. apply negb_true_iff in P2.
    cbn [app split_cells]. rewrite P1, P2. rewrite (IH Pa). cbn [length rev]. rewrite <- app_assoc. cbn [app].
    f_equal. lia.
Qed.

(* what a pair stands for *)
Definition pair_value (d : N) : str :=
  if d =? CH_n then [LF] else if (d =? PIPE) || (d =? BSL) then [d] else [BSL; d].

Theorem one_pair_cell a d b : plain a = true -> plain b = true ->
  split_table_cells (PIPE :: a ++ BSL :: d :: b ++ [PIPE]) = [(a ++ pair_value d ++ b, 2%nat)].
Proof.
  intros Pa Pb. unfold split_table_cells. cbn [split_cells]. rewrite N.eqb_refl.
  rewrite (split_cells_plain a Pa). cbn [split_cells].
  assert (E1 : (BSL =? PIPE) = false) by reflexivity. rewrite E1, N.eqb_refl. unfold pair_value.
  destruct (d =? CH_n) eqn:Dn; [|destruct ((d =? PIPE) || (d =? BSL)) eqn:Dp];
    rewrite (split_cells_plain b Pb); cbn [split_cells]; rewrite N.eqb_refl; cbn [rev app];
    rewrite ?app_nil_r, ?rev_app_distr, ?rev_involutive; cbn [rev app]; rewrite ?rev_involutive, <- ?app_assoc; cbn [app]; reflexivity.
Qed.

(* every pair other than the three is kept as written *)
Corollary other_pair_kept a d b : plain a = true -> plain b = true -> d <> CH_n -> d <> PIPE -> d <> BSL ->
  split_table_cells (PIPE :: a ++ BSL :: d :: b ++ [PIPE]) = [(a ++ BSL :: d :: b, 2%nat)].
Proof.
  intros Pa Pb H1 H2 H3. rewrite (one_pair_cell a d b Pa Pb). unfold pair_value.
  apply N.eqb_neq in H1, H2, H3. rewrite H1, H2, H3. reflexivity.
Qed.
