(* C11 (density): the builder's stack under the abstract stacks of DenseDefs. *)
From Coq Require Import List Bool Arith Lia.
Import ListNotations.
Require Import Kinds PyStr Line Matcher Ast Builder BuilderSafe AstIds DenseDefs DenseFacts.

Lemma pindex_tok r k : pindex (pat r) (KT k) = None.
Proof. destruct r; reflexivity. Qed.
Lemma pat_nodup r : pnodup (pat r) = true.
Proof. destruct r; reflexivity. Qed.
Lemma pat_idfree r : idfree_rule r = true -> pat r = [].
Proof. destruct r; try discriminate; reflexivity. Qed.

Lemma kfilter_snoc q items k v : kfilter q (items ++ [(k, v)]) = kfilter q items ++ (if key_beq k q then [(k, v)] else []).
Proof. rewrite kfilter_app. reflexivity. Qed.

Lemma get_single_snoc_some n k v q x : get_single n q = Some x -> get_single (node_add n k v) q = Some x.
Proof.
  unfold get_single, get_items. destruct n as [rt items]. cbn [node_add node_items]. rewrite filter_app, map_app.
  destruct (map snd (filter _ items)); [discriminate|]. auto.
Qed.
Lemma has_line_snoc n k v q : has_line n q -> has_line (node_add n k v) q.
Proof. intros [t H]. exists t. apply get_single_snoc_some, H. Qed.

Lemma node_items_add n k v : node_items (node_add n k v) = node_items n ++ [(k, v)].
Proof. destruct n. reflexivity. Qed.
Lemma node_rt_add' n k v : node_rt (node_add n k v) = node_rt n.
Proof. destruct n. reflexivity. Qed.

(* ---- weakening along the order of the certificate ---- *)
Lemma ps_le_spec a b : ps_le a b = true -> fst a < fst b \/ (fst a = fst b /\ (snd a = true -> snd b = true)).
Proof.
  unfold ps_le. intros H. apply orb_prop in H as [H|H]; [left; now apply Nat.ltb_lt|].
  apply andb_prop in H as [H1 H2]. apply Nat.eqb_eq in H1. right. split; [exact H1|]. intros E. rewrite E in H2. exact H2.
Qed.

Lemma nrel_weaken a b n : af_le a b = true -> nrel a n -> nrel b n.
Proof.
  unfold af_le. intros H (Rt & A & S & F & Hl & Hh).
  apply andb_prop in H as [H H4]. apply andb_prop in H as [H H3]. apply andb_prop in H as [H1 H2].
  apply rule_beq_eq in H1. apply ps_le_spec in H2.
  unfold nrel. rewrite <- H1. split; [exact Rt|]. split; [exact A|]. split; [|split; [exact F|split]].
  - intros k pos many Hp. destruct (S k pos many Hp) as [S1 S2]. split; [|exact S2].
    intros C. apply S1. destruct (af_st a) as [ja sa], (af_st b) as [jb sb]. cbn [fst snd] in *.
    destruct H2 as [H2|[H2 H2']]; [lia|]. destruct C as [C|[C C']]; [lia|].
    right. split; [lia|]. destruct sa; [|reflexivity]. rewrite (H2' eq_refl) in C'. discriminate.
  - intros E. apply Hl. rewrite E in H3. exact H3.
  - intros E. apply Hh. rewrite E in H4. exact H4.
Qed.

Definition srel (stk : dstk) (bstack : list node) : Prop :=
  exists nodes root, bstack = nodes ++ [root] /\ Forall2 nrel stk nodes /\ node_items root = [].

Lemma srel_weaken a : forall b bstack, dstk_le a b = true -> srel a bstack -> srel b bstack.
Proof.
  intros b bstack H (nodes & root & E & F & R). exists nodes, root. split; [exact E|]. split; [|exact R]. clear E.
  revert b H. induction F as [|x n a' nodes' Hx F IH]; intros b H; destruct b as [|y b']; try discriminate; [constructor|].
  cbn in H. apply andb_prop in H as [H1 H2]. constructor; [eapply nrel_weaken; eauto | apply IH, H2].
Qed.

Definition stack_ids (bstack : list node) : list nat := flat_map nids (rev bstack).
Definition dense (lo : nat) (b : bstate) : Prop :=
  lo <= b_idc b /\ stack_ids (b_stack b) = seq lo (b_idc b - lo).

Lemma stack_ids_cons n r : stack_ids (n :: r) = stack_ids r ++ nids n.
Proof. unfold stack_ids. cbn [rev]. rewrite flat_map_app. cbn. now rewrite app_nil_r. Qed.

(* ---- start ---- *)
Lemma nrel_fresh x : nrel (mk_aframe x (0, false) false false) (Node (KR x) []).
Proof.
  unfold nrel. cbn [af_rule af_st af_line af_hdr node_rt node_items].
  split; [reflexivity|]. split; [|split; [|split; [constructor | split; discriminate]]].
  - unfold iids. cbn. symmetry. apply groups_empty. reflexivity.
  - intros k pos many Hp. split; [reflexivity | cbn; lia].
Qed.

Lemma d_start k x stk stk' b lo : d_prod k (PS x) stk = Some stk' -> srel stk (b_stack b) -> dense lo b ->
  exists b', builder_start x b = BoOk b' /\ srel stk' (b_stack b') /\ dense lo b'.
Proof.
  intros D (nodes & root & E & F & R) [L Dn]. cbn in D. destruct stk as [|f tl]; [discriminate|]. inversion D; subst stk'.
  unfold builder_start. eexists. split; [reflexivity|]. cbn [b_stack b_idc]. split.
  - exists (Node (KR x) [] :: nodes), root. rewrite E. split; [reflexivity|]. split; [|exact R]. constructor; [apply nrel_fresh | exact F].
  - unfold dense. cbn [b_stack b_idc]. split; [exact L|]. rewrite stack_ids_cons, nids_eq. cbn. rewrite app_nil_r. exact Dn.
Qed.

(* ---- build ---- *)
Lemma nrel_tok af n k t : nrel af n ->
  nrel (mk_aframe (af_rule af) (af_st af) (af_line af || is_hdr_line (af_rule af) k) (af_hdr af)) (node_add n (KT k) (VTok t)).
Proof.
  intros (Rt & A & S & F & Hl & Hh). unfold nrel. cbn [af_rule af_st af_line af_hdr]. rewrite node_rt_add', node_items_add.
  split; [exact Rt|]. split; [|split; [|split; [|split]]].
  - rewrite iids_snoc, groups_snoc_notin by apply pindex_tok. cbn. now rewrite app_nil_r.
  - intros q pos many Hp. rewrite kfilter_snoc.
    assert (E : key_beq (KT k) q = false).
    { destruct (key_beq (KT k) q) eqn:E; [|reflexivity]. apply key_beq_eq in E. subst q. rewrite pindex_tok in Hp. discriminate. }
    rewrite E, app_nil_r. apply (S q pos many Hp).
  - apply Forall_app. split; [exact F|]. constructor; [|constructor]. cbn. eauto.
  - intros E. unfold is_hdr_line in E. destruct (hdr_line (af_rule af)) as [k'|] eqn:Hk; [|exact I].
    apply orb_prop in E as [E|E]; [apply has_line_snoc, Hl, E|].
    apply kind_beq_eq in E. subst k'.
    (* the first item under this key is a token: either an older one or this one *)
    unfold has_line, get_single, get_items. rewrite node_items_add, filter_app, map_app.
    destruct (filter (fun kv => key_beq (fst kv) (KT k)) (node_items n)) as [|[k0 v0] r] eqn:Fl.
    + cbn. rewrite kind_beq_refl. cbn. eauto.
    + assert (In (k0, v0) (filter (fun kv => key_beq (fst kv) (KT k)) (node_items n))) by (rewrite Fl; now left).
      apply filter_In in H as [Hin Hk0]. cbn in Hk0. apply key_beq_eq in Hk0. subst k0.
      rewrite Forall_forall in F. specialize (F _ Hin). cbn in F. destruct F as [t0 ->]. cbn. eauto.
  - intros E. specialize (Hh E). destruct (hdr_of (af_rule af)); [|exact I]. rewrite kfilter_snoc. intros X. apply app_eq_nil in X as [X _]. auto.
Qed.

Lemma d_build k t stk stk' b b' lo : d_prod k PB stk = Some stk' -> m_type t = Some k -> builder_build t b = BoOk b' ->
  srel stk (b_stack b) -> dense lo b -> srel stk' (b_stack b') /\ dense lo b'.
Proof.
  intros D Mt Bb (nodes & root & E & F & R) [L Dn]. cbn in D. destruct stk as [|f tl]; [discriminate|].
  unfold builder_build in Bb. rewrite Mt in Bb.
  destruct (kind_beq k KComment) eqn:Kc.
  - apply kind_beq_eq in Kc. subst k. inversion D; subst stk'. destruct (m_text t); [|discriminate]. inversion Bb; subst b'. cbn [b_stack b_idc].
    split; [exists nodes, root; auto | split; auto].
  - inversion D; subst stk'. clear D.
    assert (Bb' : match b_stack b with [] => BoCrash | cur :: stk0 => BoOk (mk_bstate (node_add cur (KT k) (VTok t) :: stk0) (b_comments b) (b_idc b)) end = BoOk b').
    { destruct k; try exact Bb. discriminate Kc. }
    clear Bb. inversion F as [|f0 n tl0 nodes' Hn F' E1 E2]; subst. rewrite E in Bb'. cbn [app] in Bb'. inversion Bb'; subst b'. cbn [b_stack b_idc].
    split.
    + exists (node_add n (KT k) (VTok t) :: nodes'), root. split; [reflexivity|]. split; [|exact R]. constructor; [apply nrel_tok, Hn | exact F'].
    + unfold dense. cbn [b_stack b_idc]. split; [exact L|]. rewrite E in Dn. cbn [app] in Dn. rewrite stack_ids_cons in *. rewrite nids_add. cbn [vids]. rewrite app_nil_r. exact Dn.
Qed.

(* ---- end ---- *)
Lemma pstep_spec p st q pos many st' : pindex p q = Some (pos, many) -> pstep p st q = Some st' ->
  st' = (pos, true) /\ fst st <= pos /\ (many = false -> fst st < pos \/ (pos = fst st /\ snd st = false)).
Proof.
  unfold pstep. intros ->. destruct (pos <? fst st) eqn:L; [discriminate|]. apply Nat.ltb_ge in L.
  destruct (pos =? fst st) eqn:E.
  - apply Nat.eqb_eq in E. destruct many.
    + intros H. inversion H. split; [reflexivity|]. split; [lia | discriminate].
    + destruct (snd st) eqn:Sn; [discriminate|]. intros H. inversion H. split; [reflexivity|]. split; [lia|]. intros _. right. split; auto.
  - apply Nat.eqb_neq in E. intros H. inversion H. split; [reflexivity|]. split; [lia|]. intros _. left. lia.
Qed.

Lemma pindex_inj p : pnodup p = true -> forall k1 k2 pos m1 m2, pindex p k1 = Some (pos, m1) -> pindex p k2 = Some (pos, m2) -> k1 = k2.
Proof.
  induction p as [|[k0 m0] r IH]; intros N k1 k2 pos m1 m2 H1 H2; [discriminate|]. cbn in *.
  destruct (pindex r k0) eqn:N0; [discriminate|].
  destruct (key_beq k0 k1) eqn:E1, (key_beq k0 k2) eqn:E2.
  - apply key_beq_eq in E1, E2. congruence.
  - destruct (pindex r k2) as [[j m]|]; inversion H1; inversion H2; lia.
  - destruct (pindex r k1) as [[j m]|]; inversion H1; inversion H2; lia.
  - destruct (pindex r k1) as [[j1 m1']|] eqn:P1; [|discriminate]. destruct (pindex r k2) as [[j2 m2']|] eqn:P2; [|discriminate].
    inversion H1; inversion H2; subst. assert (j1 = j2) by lia. subst. eapply IH; eauto.
Qed.

(* a finished child is added to its parent *)
Lemma nrel_child pf cur x v st' :
  nrel pf cur -> item_ok (KR x, v) ->
  match pindex (pat (af_rule pf)) (KR x) with
  | Some _ => pstep (pat (af_rule pf)) (af_st pf) (KR x) = Some st'
  | None => vids v = [] /\ st' = af_st pf
  end ->
  nrel (mk_aframe (af_rule pf) st' (af_line pf) (af_hdr pf || is_hdr_of (af_rule pf) x)) (node_add cur (KR x) v).
Proof.
  intros (Rt & A & S & F & Hl & Hh) Iv Hs. unfold nrel. cbn [af_rule af_st af_line af_hdr]. rewrite node_rt_add', node_items_add.
  split; [exact Rt|].
  assert (Rest : Forall item_ok (node_items cur ++ [(KR x, v)])
                 /\ (af_line pf = true -> match hdr_line (af_rule pf) with Some k => has_line (node_add cur (KR x) v) k | None => True end)
                 /\ (af_hdr pf || is_hdr_of (af_rule pf) x = true ->
                     match hdr_of (af_rule pf) with Some h => kfilter (KR h) (node_items cur ++ [(KR x, v)]) <> [] | None => True end)).
  { split; [apply Forall_app; split; [exact F | constructor; [exact Iv | constructor]]|]. split.
    - intros E. specialize (Hl E). destruct (hdr_line (af_rule pf)); [apply has_line_snoc, Hl | exact I].
    - intros E. unfold is_hdr_of in E. destruct (hdr_of (af_rule pf)) as [h|]; [|exact I]. rewrite kfilter_snoc.
      apply orb_prop in E as [E|E].
      + specialize (Hh E). intros X. apply app_eq_nil in X as [X _]. auto.
      + apply rule_beq_eq in E. subst h. cbn [key_beq]. rewrite rule_beq_refl. intros X. apply app_eq_nil in X as [_ X]. discriminate. }
  destruct (pindex (pat (af_rule pf)) (KR x)) as [[pos many]|] eqn:Px.
  - destruct (pstep_spec _ _ _ _ _ _ Px Hs) as (-> & Lp & Hm).
    split; [|split; [|exact Rest]].
    + rewrite iids_snoc, A. symmetry. apply (groups_snoc_in _ (pat_nodup _) _ _ _ pos many Px).
      intros k' pos' m' Hp' L. apply (S k' pos' m' Hp'). left. lia.
    + intros q pos' many' Hp'. rewrite kfilter_snoc. cbn [fst snd].
      destruct (key_beq (KR x) q) eqn:E.
      * apply key_beq_eq in E. subst q. rewrite Px in Hp'. inversion Hp'; subst pos' many'. split; [intros [C|[_ C]]; [lia | discriminate]|].
        intros Em. specialize (Hm Em). destruct (S (KR x) pos many Px) as [S1 _]. rewrite (S1 Hm). cbn. lia.
      * rewrite app_nil_r. destruct (S q pos' many' Hp') as [S1 S2]. split; [|exact S2].
        intros [C|[C C']]; [apply S1; left; lia | discriminate].
  - destruct Hs as [Hv ->]. split; [|split; [|exact Rest]].
    + rewrite iids_snoc, Hv, app_nil_r, (groups_snoc_notin _ _ _ _ Px). exact A.
    + intros q pos' many' Hp'. rewrite kfilter_snoc.
      assert (E : key_beq (KR x) q = false).
      { destruct (key_beq (KR x) q) eqn:E; [|reflexivity]. apply key_beq_eq in E. subst q. congruence. }
      rewrite E, app_nil_r. apply (S q pos' many' Hp').
Qed.

Lemma seq_join lo i i' : lo <= i -> i <= i' -> seq lo (i - lo) ++ seq i (i' - i) = seq lo (i' - lo).
Proof. intros A B. replace (i' - lo) with ((i - lo) + (i' - i)) by lia. rewrite seq_app. do 2 f_equal. lia. Qed.

Lemma d_end k x stk stk' b b' lo : d_prod k (PE x) stk = Some stk' -> builder_end x b = BoOk b' ->
  srel stk (b_stack b) -> dense lo b -> srel stk' (b_stack b') /\ dense lo b'.
Proof.
  intros D Be (nodes & root & E & F & R) [L Dn]. cbn [d_prod] in D.
  destruct stk as [|f tl]; [discriminate|].
  destruct (rule_beq x (af_rule f) && (negb (is_header x) || af_line f) && (negb (needs_header x) || af_hdr f)) eqn:C; [|discriminate].
  apply andb_prop in C as [C C3]. apply andb_prop in C as [C1 C2]. apply rule_beq_eq in C1. subst x.
  destruct tl as [|pf tl']; [discriminate|].
  inversion F as [|f0 n tl0 nodes0 Hn F0 E1 E2]; subst. inversion F0 as [|pf0 cur tl1 nodes1 Hc F1 E1 E2]; subst.
  assert (Rd : ready f).
  { split; intros X; rewrite X in *; cbn in *; assumption. }
  unfold builder_end in Be. rewrite E in Be. cbn [app] in Be.
  pose proof (transform_dense f n (b_comments b) (b_idc b) Hn Rd) as T.
  destruct (transform_node n (b_comments b) (b_idc b)) as [v i'|e i'|] eqn:Tn; try discriminate.
  cbn [dense_post] in T. destruct T as [Li Hv]. inversion Be; subst b'. cbn [b_stack b_idc]. clear Be.
  pose proof Hn as (Rtn & An & _). rewrite Rtn.
  assert (Iv : item_ok (KR (af_rule f), v)) by (eapply transform_item; eauto; apply Rd).
  assert (Dn' : dense lo (mk_bstate (node_add cur (KR (af_rule f)) v :: nodes1 ++ [root]) (b_comments b) i')).
  { unfold dense. cbn [b_stack b_idc]. split; [lia|]. rewrite E in Dn. cbn [app] in Dn. rewrite !stack_ids_cons in Dn. rewrite stack_ids_cons, nids_add, Hv.
    rewrite !app_assoc, Dn. apply seq_join; assumption. }
  split; [|exact Dn'].
  destruct (pindex (pat (af_rule pf)) (KR (af_rule f))) as [[pos many]|] eqn:Px.
  - destruct (pstep (pat (af_rule pf)) (af_st pf) (KR (af_rule f))) as [st'|] eqn:Ps; [|discriminate]. inversion D; subst stk'.
    exists (node_add cur (KR (af_rule f)) v :: nodes1), root. split; [reflexivity|]. split; [|exact R]. constructor; [|exact F1].
    pose proof (nrel_child pf cur (af_rule f) v st' Hc Iv) as NC. rewrite Px in NC. specialize (NC Ps).
    eapply nrel_weaken; [|exact NC]. unfold af_le. cbn [af_rule af_st af_line af_hdr].
    rewrite rule_beq_refl. cbn [andb].
    assert (Pl : ps_le st' st' = true) by (unfold ps_le; rewrite Nat.eqb_refl, Nat.ltb_irrefl; destruct (snd st'); reflexivity).
    rewrite Pl. cbn [andb]. destruct (af_line pf); cbn; [|].
    + destruct (af_hdr pf); reflexivity.
    + destruct (af_hdr pf); reflexivity.
  - destruct (idfree_rule (af_rule f)) eqn:Fr; [|discriminate]. inversion D; subst stk'.
    exists (node_add cur (KR (af_rule f)) v :: nodes1), root. split; [reflexivity|]. split; [|exact R]. constructor; [|exact F1].
    pose proof (nrel_child pf cur (af_rule f) v (af_st pf) Hc Iv) as NC. rewrite Px in NC. apply NC. split; [|reflexivity].
    rewrite Hv, (transform_idfree _ _ _ _ _ _ Hn Fr Tn), Nat.sub_diag, nids_items, An, (pat_idfree _ Fr). reflexivity.
Qed.
