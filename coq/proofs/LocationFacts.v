(* C04: locations.  Lines are cut after each line feed and numbered from 1; the indent of a line is
   the offset of its trimmed text; tag columns; cell columns (with CellsSpec). *)
From Coq Require Import List Bool Arith NArith Lia.
Import ListNotations.
Require Import Kinds PyStr Line Matcher CellsSpec.

Local Open Scope N_scope.

(* ---- lines ---- *)
Lemma lines_acc_concat s : forall cur, concat (lines_acc cur s) = rev cur ++ s.
Proof.
  induction s as [|c s IH]; intros cur; simpl.
  - destruct cur; simpl; [reflexivity|]. now rewrite !app_nil_r.
  - destruct (c =? LF) eqn:E.
    + simpl. rewrite IH. simpl. rewrite <- app_assoc. reflexivity.
    + rewrite IH. simpl. rewrite <- app_assoc. reflexivity.
Qed.

(* the pieces, put back together, are the source *)
Theorem py_lines_concat s : concat (py_lines s) = s.
Proof. unfold py_lines. now rewrite lines_acc_concat. Qed.

Lemma in_removelast_in {A} (l : list A) x : In x (removelast l) -> In x l.
Proof.
  induction l as [|a l IH]; simpl; [auto|]. destruct l as [|b l]; [intros []|]. intros [H|H]; [now left | right; apply IH; exact H].
Qed.

(* every piece but the last ends with the only line feed it contains; the last has none or ends with it *)
Definition one_line (p : str) : Prop := p <> [] /\ ~ In LF (removelast p).
Lemma lines_acc_one_line s : forall cur, ~ In LF cur -> Forall one_line (lines_acc cur s).
Proof.
  induction s as [|c s IH]; intros cur Hc; simpl.
  - destruct cur as [|x cur]; [constructor|]. constructor; [|constructor]. split.
    + intros E. apply (f_equal (@length _)) in E. cbn [rev] in E. rewrite app_length in E. simpl in E. lia.
    + intros H. apply Hc. apply in_rev. apply (in_removelast_in _ _ H).
  - destruct (c =? LF) eqn:E.
    + constructor; [|apply IH; intros []]. split.
      * intros X. apply (f_equal (@length _)) in X. cbn [rev] in X. rewrite app_length in X. simpl in X. lia.
      * cbn [rev]. rewrite removelast_last. intros H. apply Hc. now apply in_rev.
    + apply IH. intros [H|H]; [|auto]. subst. rewrite N.eqb_refl in E. discriminate.
Qed.
Theorem py_lines_one_line s : Forall one_line (py_lines s).
Proof. apply lines_acc_one_line. intros []. Qed.

(* ---- indent ---- *)
Lemma drop_while_length p s : (length (drop_while p s) <= length s)%nat.
Proof. induction s as [|d s IH]; simpl; [lia|]. destruct (p d); simpl; lia. Qed.

Lemma skipn_drop_while p s : skipn (length s - length (drop_while p s)) s = drop_while p s.
Proof.
  induction s as [|c s IH]; [reflexivity|]. cbn [drop_while]. destruct (p c) eqn:E.
  - cbn [length]. rewrite Nat.sub_succ_l by apply drop_while_length. cbn [skipn]. exact IH.
  - rewrite Nat.sub_diag. reflexivity.
Qed.

(* reading the physical line at (indent + 1) gives the trimmed text *)
Theorem indent_points_at_trimmed text n :
  skipn (l_indent (make_line text n)) (l_text (make_line text n)) = l_trimmed (make_line text n).
Proof. unfold make_line. cbn [l_indent l_text l_trimmed]. apply skipn_drop_while. Qed.

(* the token's column after a match without explicit indent is indent + 1 *)
Theorem matched_column m t ty text kw kt items l : tk_line t = Some l ->
  loc_col (tk_loc (set_matched m t ty text kw kt None items)) = Some (l_indent l + 1)%nat.
Proof. intros L. cbn. now rewrite L. Qed.

(* ---- tags ---- *)
Lemma split_chr_nonempty c s : split_chr c s <> [].
Proof. induction s as [|x s IH]; simpl; [discriminate|]. destruct (x =? c); [discriminate|]. destruct (split_chr c s); discriminate. Qed.

(* s.split(c) cuts at every c: the pieces, each but the first preceded by c, are s *)
Lemma split_chr_spec c s : exists first rest, split_chr c s = first :: rest /\ s = first ++ flat_map (fun it => c :: it) rest.
Proof.
  induction s as [|x s (first & rest & E & Hs)]; simpl.
  - exists [], []. auto.
  - destruct (x =? c) eqn:X.
    + apply N.eqb_eq in X. subst x. exists [], (first :: rest). rewrite E. split; [reflexivity|]. simpl. now rewrite <- Hs.
    + rewrite E. exists (x :: first), rest. split; [reflexivity|]. simpl. now rewrite <- Hs.
Qed.

Lemma rdrop_while_prefix p s : exists w, s = rdrop_while p s ++ w /\ forallb p w = true.
Proof.
  induction s as [|c s (w & E & Hw)]; simpl; [exists []; auto|].
  destruct (rdrop_while p s) as [|d r] eqn:R.
  - destruct (p c) eqn:Pc.
    + exists (c :: s). split; [reflexivity|]. simpl. rewrite Pc. simpl in E. rewrite E. exact Hw.
    + exists s. split; [reflexivity|]. simpl in E. rewrite E. exact Hw.
  - exists w. split; [|exact Hw]. simpl. f_equal. exact E.
Qed.

Lemma rdrop_while_head p c s : p c = false -> exists r, rdrop_while p (c :: s) = c :: r.
Proof. intros H. simpl. destruct (rdrop_while p s); [rewrite H|]; eauto. Qed.

Lemma before_comment_prefix s : exists w, s = before_comment s ++ w.
Proof.
  induction s as [|c s (w & E)]; [exists []; reflexivity|]. simpl.
  destruct s as [|d s']; [exists []; reflexivity|].
  destruct (is_space c && (d =? HASH)); [exists (c :: d :: s'); reflexivity|].
  exists w. simpl. f_equal. exact E.
Qed.

Lemma before_comment_head c s : is_space c = false -> exists r, before_comment (c :: s) = c :: r.
Proof. intros H. simpl. destruct s; [eauto|]. rewrite H. simpl. eauto. Qed.

Fixpoint tag_positions (items : list str) (col : nat) : list (nat * str) :=
  match items with
  | [] => []
  | it :: r => (col, AT :: rstrip it) :: tag_positions r (col + length it + 1)
  end.

Lemma tags_items_ok items : forall col acc res, tags_items items col acc = TagsOk res ->
  res = rev acc ++ tag_positions items col.
Proof.
  induction items as [|it items IH]; intros col acc res H; cbn [tags_items] in H.
  - inversion H. now rewrite app_nil_r.
  - destruct (existsb is_space (AT :: rstrip it)); [discriminate|].
    rewrite (IH _ _ _ H). cbn [rev tag_positions]. rewrite <- app_assoc. reflexivity.
Qed.

Lemma tags_items_no_space items : forall col acc res, tags_items items col acc = TagsOk res ->
  Forall (fun it => existsb is_space (AT :: rstrip it) = false) items.
Proof.
  induction items as [|it items IH]; intros col acc res H; cbn [tags_items] in H; [constructor|].
  destruct (existsb is_space (AT :: rstrip it)) eqn:E; [discriminate|]. constructor; eauto.
Qed.

(* where each tag is, in the text "@item1@item2..." *)
Lemma tag_positions_where items : forall col c v, In (c, v) (tag_positions items col) ->
  exists pre it post, flat_map (fun x => AT :: x) items = pre ++ (AT :: it) ++ post
    /\ c = (col + length pre)%nat /\ v = AT :: rstrip it /\ In it items.
Proof.
  induction items as [|it items IH]; intros col c v H; cbn [tag_positions] in H; [destruct H|].
  destruct H as [H|H].
  - inversion H; subst. exists [], it, (flat_map (fun x => AT :: x) items). cbn [flat_map app length].
    split; [reflexivity|]. split; [lia|]. split; [reflexivity | now left].
  - destruct (IH _ _ _ H) as (pre & it' & post & E & Hc & Hv & Hi).
    exists ((AT :: it) ++ pre), it', post. cbn [flat_map]. rewrite E. repeat split; auto.
    + now rewrite <- app_assoc.
    + rewrite Hc. rewrite app_length. cbn [length]. lia.
    + now right.
Qed.

(* C04_tags: every reported tag is in the physical line at its column: reading the line there gives
   '@' + name (followed by blanks, another '@', a comment or the end of the line) *)
Theorem line_tags_columns l res c v :
  line_startswith l [AT] = true -> line_tags l = TagsOk res -> In (c, v) res ->
  exists pre post, l_trimmed l = pre ++ v ++ post /\ c = (l_indent l + 1 + length pre)%nat
                   /\ (exists name, v = AT :: name) /\ existsb is_space v = false.
Proof.
  intros St Lt Hin. unfold line_tags in Lt. unfold line_startswith in St.
  destruct (l_trimmed l) as [|a tr] eqn:Tr; [discriminate|]. cbn [starts_with] in St.
  apply andb_prop in St as [St _]. apply N.eqb_eq in St. subst a.
  assert (NS : is_space AT = false) by reflexivity.
  (* strip of a text starting with '@' only trims the right end *)
  assert (strip_at : forall x, strip (AT :: x) = rdrop_while is_space (AT :: x)).
  { intros x. unfold strip, lstrip, rstrip. cbn [drop_while]. now rewrite NS. }
  rewrite strip_at in Lt.
  destruct (rdrop_while_prefix is_space (AT :: tr)) as (w1 & E1 & _).
  destruct (rdrop_while_head is_space AT tr NS) as (r1 & R1). rewrite R1 in Lt, E1.
  destruct (before_comment_prefix (AT :: r1)) as (w2 & E2).
  destruct (before_comment_head AT r1 NS) as (r2 & R2). rewrite R2 in Lt, E2.
  rewrite strip_at in Lt.
  destruct (rdrop_while_prefix is_space (AT :: r2)) as (w3 & E3 & _).
  destruct (rdrop_while_head is_space AT r2 NS) as (r3 & R3). rewrite R3 in Lt, E3.
  destruct (split_chr_spec AT (AT :: r3)) as (first & items & Sp & Js). rewrite Sp in Lt. cbn [tl] in Lt.
  assert (first = []).
  { cbn [split_chr] in Sp. replace (AT =? AT) with true in Sp by reflexivity. inversion Sp. reflexivity. }
  subst first. cbn [app] in Js.
  pose proof (tags_items_ok _ _ _ _ Lt) as Eres. cbn [rev app] in Eres. subst res.
  pose proof (tags_items_no_space _ _ _ _ Lt) as Hns.
  destruct (tag_positions_where _ _ _ _ Hin) as (pre & it & post & E & Hc & Hv & Hi).
  destruct (rdrop_while_prefix is_space it) as (wi & Ei & _).
  exists pre, (wi ++ post ++ w3 ++ w2 ++ w1). repeat split.
  - rewrite E1, E2, E3, Js, E. subst v. unfold rstrip. rewrite Ei at 1.
    cbn [app]. rewrite <- !app_assoc. cbn [app]. rewrite <- !app_assoc. reflexivity.
  - exact Hc.
  - subst v. eauto.
  - subst v. rewrite Forall_forall in Hns. auto.
Qed.

(* ---- table cells ---- *)
Lemma skipn_add {A} (n m : nat) (l : list A) : skipn (n + m) l = skipn m (skipn n l).
Proof. revert l. induction n as [|n IH]; intros l; simpl; [reflexivity|]. destruct l; [now rewrite skipn_nil | apply IH]. Qed.

(* the leading blanks of a cell value are leading plain blank characters of its raw text *)
Lemma leading_blanks seg : pipe_free seg ->
  exists bl seg', seg = map TChr bl ++ seg' /\ forallb is_blank bl = true
    /\ drop_while is_blank (vals seg) = vals seg'
    /\ raws seg = bl ++ raws seg'
    /\ (match vals seg' with [] => True | c :: _ => is_blank c = false end).
Proof.
  induction 1 as [|t seg Ht Hseg (bl & seg' & E & B & D & R & Hh)].
  - exists [], []. repeat split.
  - assert (Stop : (match val t with [] => False | c :: _ => is_blank c = false end) ->
              exists bl0 seg0, t :: seg = map TChr bl0 ++ seg0 /\ forallb is_blank bl0 = true
                /\ drop_while is_blank (vals (t :: seg)) = vals seg0 /\ raws (t :: seg) = bl0 ++ raws seg0
                /\ (match vals seg0 with [] => True | c :: _ => is_blank c = false end)).
    { intros Hv. exists [], (t :: seg). cbn [map app]. repeat split.
      - unfold vals. cbn [flat_map]. destruct (val t) as [|c r]; [destruct Hv|]. cbn [app drop_while]. now rewrite Hv.
      - unfold vals. cbn [flat_map]. destruct (val t) as [|c r]; [destruct Hv|]. exact Hv. }
    destruct t as [|d|c|]; try discriminate Ht.
    + apply Stop. cbn [val]. destruct (d =? CH_n); [reflexivity|]. destruct ((d =? PIPE) || (d =? BSL)) eqn:X; [|reflexivity].
      apply orb_prop in X as [X|X]; apply N.eqb_eq in X; subst; reflexivity.
    + destruct (is_blank c) eqn:Bc; [|apply Stop; exact Bc].
      exists (c :: bl), seg'. cbn [map app forallb]. rewrite E, Bc, B. repeat split; auto.
      * unfold vals in *. cbn [flat_map val app drop_while]. rewrite Bc. rewrite <- E. exact D.
      * unfold raws in *. cbn [flat_map raw app]. rewrite <- E. f_equal. exact R.
    + apply Stop. reflexivity.
Qed.

(* C04_cells: reading the (stripped, trimmed) row at the reported column gives the raw text of the
   cell from its first non-blank character on, followed by the closing pipe (an all-blank cell
   points at that pipe) *)
Theorem table_cell_columns l c v : In (c, v) (table_cells l) ->
  let row := strip (l_trimmed l) in
  exists seg' rest, skipn (c - 1 - l_indent l) row = raws seg' ++ rest
    /\ (rest = [] \/ exists q, rest = PIPE :: q)
    /\ v = rdrop_while is_blank (vals seg')
    /\ (match vals seg' with [] => True | x :: _ => is_blank x = false end).
Proof.
  intros Hin row. unfold table_cells in Hin. fold row in Hin. rewrite split_table_cells_spec in Hin.
  apply in_map_iff in Hin as ([cell col] & E & Hin). cbn [fst snd] in E. inversion E; subst c v. clear E.
  apply in_map_iff in Hin as ([seg st] & E & Hin). unfold cell_of in E. cbn [fst snd] in E. inversion E; subst cell col. clear E.
  assert (Hs : In (seg, st) (segments row)).
  { unfold inner in Hin. apply in_removelast_in. destruct (removelast (segments row)); [destruct Hin | now right]. }
  destruct (segments_where row seg st Hs) as (pre & post & El & Est & PF & _ & Hpost).
  destruct (leading_blanks seg PF) as (bl & seg' & Eseg & Bb & Dw & Rw & Hh).
  exists seg', (raws post). split; [|split; [|split]].
  - rewrite Dw. assert (Lb : (length (vals seg) - length (vals seg') = length bl)%nat).
    { rewrite Eseg. unfold vals. rewrite flat_map_app, app_length.
      assert (length (flat_map val (map TChr bl)) = length bl) by (clear; induction bl; simpl; auto). lia. }
    rewrite Lb. rewrite <- (lex_raws row) at 1. rewrite El. unfold raws in *. rewrite !flat_map_app, Rw.
    replace (st + l_indent l + length bl - 1 - l_indent l)%nat with (length (flat_map raw pre) + length bl)%nat
      by (rewrite Est; unfold rawlen, raws; lia).
    rewrite skipn_add, skipn_app_length, <- app_assoc, skipn_app_length. reflexivity.
  - destruct Hpost as [->|[q ->]]; [left; reflexivity | right; exists (raws q); reflexivity].
  - rewrite Dw. reflexivity.
  - exact Hh.
Qed.
