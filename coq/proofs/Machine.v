(* The parser without its token queue: a deterministic transducer over the transition table that reads the list of
   pending tokens directly.  A look-ahead scans the pending list in place (tokens it matches keep the marks of that
   match, as the tokens the real look-ahead methods push back on the queue do) and consumes nothing; a state method
   tries its tests in order on the head token.  Stop-at-first-error mode.  MachineEq.v proves that Parser.parse (the
   generic interpreter of Automaton.v, with queue, scanner, fuel, call counter and ghost log) computes exactly this. *)
From Coq Require Import List Bool Arith.
Import ListNotations.
Require Import Kinds Automaton.

Section Machine.
  Context {Tok MS BS Err : Type}.
  Variable P : params Tok MS BS Err.

  (* results of matcher-level computations *)
  Inductive mr (A : Type) := MrOk (a : A) | MrRaise (e : Err) (m : MS) | MrCrash.
  Arguments MrOk {A}. Arguments MrRaise {A}. Arguments MrCrash {A}.

  Definition m_match (k : kind) (t : Tok) (m : MS) : mr (bool * Tok * MS) :=
    if negb (kind_beq k KEOF) && is_eof P t then MrOk (false, t, m)
    else match matchf P k m t with
         | MR b t' m' => MrOk (b, t', m')
         | MRaise e t' m' => MrRaise e m'
         end.

  Fixpoint m_any (ks : list kind) (t : Tok) (m : MS) : mr (bool * Tok * MS) :=
    match ks with
    | [] => MrOk (false, t, m)
    | k :: ks' =>
      match m_match k t m with
      | MrOk (true, t1, m1) => MrOk (true, t1, m1)
      | MrOk (false, t1, m1) => m_any ks' t1 m1
      | MrRaise e m1 => MrRaise e m1
      | MrCrash => MrCrash
      end
    end.

  (* a look-ahead over the pending tokens: answer, matcher state, the pending tokens with the marks of the scan *)
  Fixpoint m_la_loop (h : la) (ups : list Tok) (m : MS) : mr (bool * MS * list Tok) :=
    match ups with
    | [] => MrOk (false, m, [])
    | t :: r =>
      match m_any (la_expected h) t m with
      | MrOk (true, t1, m1) => MrOk (true, m1, t1 :: r)
      | MrOk (false, t1, m1) =>
        match m_any (la_skip h) t1 m1 with
        | MrOk (true, t2, m2) =>
          match m_la_loop h r m2 with
          | MrOk (b, m3, r') => MrOk (b, m3, t2 :: r')
          | MrRaise e m3 => MrRaise e m3
          | MrCrash => MrCrash
          end
        | MrOk (false, t2, m2) => MrOk (false, m2, t2 :: r)
        | MrRaise e m2 => MrRaise e m2
        | MrCrash => MrCrash
        end
      | MrRaise e m1 => MrRaise e m1
      | MrCrash => MrCrash
      end
    end.
  Definition m_la (h : nat) (ups : list Tok) (m : MS) : mr (bool * MS * list Tok) :=
    match find_la P h with
    | None => MrCrash
    | Some x => m_la_loop x ups m
    end.

  (* outcome of a step / of the whole run *)
  Inductive mo (A : Type) := MoOk (a : A) (m : MS) (b : BS) | MoRaise (e : Err) (m : MS) (b : BS) | MoCrash.
  Arguments MoOk {A}. Arguments MoRaise {A}. Arguments MoCrash {A}.

  Fixpoint m_exec (t : Tok) (ps : list prod) (m : MS) (b : BS) : mo unit :=
    match ps with
    | [] => MoOk tt m b
    | p :: ps' =>
      match (match p with PS r => b_start P r b | PE r => b_end P r b | PB => b_build P t b end) with
      | BOk b' => m_exec t ps' m b'
      | BRaise e b' => MoRaise e m b'
      | BCrash => MoCrash
      end
    end.

  (* the tests of one state on the head token t, ups = the tokens after it; returns target state and pending tokens *)
  Fixpoint m_tests (tests : list test) (exp : list kind) (t : Tok) (m : MS) (b : BS) (ups : list Tok) : mo (nat * list Tok) :=
    match tests with
    | [] => MoRaise (mk_unexpected P t exp) m b
    | x :: xs =>
      match m_match (t_kind x) t m with
      | MrOk (true, t1, m1) =>
        match t_guard x with
        | None =>
          match m_exec t1 (t_prods x) m1 b with
          | MoOk _ m2 b2 => MoOk (t_tgt x, ups) m2 b2
          | MoRaise e m2 b2 => MoRaise e m2 b2
          | MoCrash => MoCrash
          end
        | Some h =>
          match m_la h ups m1 with
          | MrOk (true, m2, ups') =>
            match m_exec t1 (t_prods x) m2 b with
            | MoOk _ m3 b3 => MoOk (t_tgt x, ups') m3 b3
            | MoRaise e m3 b3 => MoRaise e m3 b3
            | MoCrash => MoCrash
            end
          | MrOk (false, m2, ups') => m_tests xs exp t1 m2 b ups'
          | MrRaise e m2 => MoRaise e m2 b
          | MrCrash => MoCrash
          end
        end
      | MrOk (false, t1, m1) => m_tests xs exp t1 m1 b ups
      | MrRaise e m1 => MoRaise e m1 b
      | MrCrash => MoCrash
      end
    end.

  Definition m_step (s : nat) (t : Tok) (m : MS) (b : BS) (ups : list Tok) : mo (nat * list Tok) :=
    match find_state P s with
    | None => MoCrash
    | Some x => m_tests (s_tests x) (s_expected x) t m b ups
    end.

  (* the run over the pending tokens (the last of which is the end-of-file token); n bounds the number of steps *)
  Fixpoint m_loop (n : nat) (s : nat) (m : MS) (b : BS) (ups : list Tok) : mo nat :=
    match n with
    | 0 => MoCrash
    | S n' =>
      match ups with
      | [] => MoCrash
      | t :: r =>
        match m_step s t m b r with
        | MoOk (s', r') m' b' => if is_eof P t then MoOk s' m' b' else m_loop n' s' m' b' r'
        | MoRaise e m' b' => MoRaise e m' b'
        | MoCrash => MoCrash
        end
      end
    end.

  Definition m_parse (toks : list Tok) (m : MS) (b : BS) : mo unit :=
    match b_start P RGherkinDocument b with
    | BOk b1 =>
      match m_loop (S (S (length toks))) (start_state P) m b1 (toks ++ [mk_eof P (S (length toks))]) with
      | MoOk _ m2 b2 =>
        match b_end P RGherkinDocument b2 with
        | BOk b3 => MoOk tt m2 b3
        | BRaise e b3 => MoRaise e m2 b3
        | BCrash => MoCrash
        end
      | MoRaise e m2 b2 => MoRaise e m2 b2
      | MoCrash => MoCrash
      end
    | BRaise e b1 => MoRaise e m b1
    | BCrash => MoCrash
    end.
End Machine.

Arguments MrOk {MS Err A}. Arguments MrRaise {MS Err A}. Arguments MrCrash {MS Err A}.
Arguments MoOk {MS BS Err A}. Arguments MoRaise {MS BS Err A}. Arguments MoCrash {MS BS Err A}.
