(* C16 (indentation): the AST builder never looks at a column -- it copies them.  Stated with an eraser that
   forgets every column (of tokens, of their tag / cell items, of finished AST nodes, of comments, of the
   builder's own errors) together with the physical lines of tokens: running any builder operation on an erased
   state gives the erased result.  Hence two builder states that differ only in columns stay so. *)
From Coq Require Import String List Bool Arith NArith Lia.
Import ListNotations.
Require Import Kinds PyStr Line Matcher Ast Builder BuilderErase.

Definition ce_loc (l : loc) : loc := mk_loc (loc_line l) None.
Definition ce_tag (t : tag) : tag := mk_tag (tg_id t) (ce_loc (tg_loc t)) (tg_name t).
Definition ce_cell (c : cell) : cell := mk_cell (ce_loc (c_loc c)) (c_value c).
Definition ce_row (r : row) : row := mk_row (r_id r) (ce_loc (r_loc r)) (map ce_cell (r_cells r)).
Definition ce_ds (d : docstring) : docstring := mk_docstring (ce_loc (ds_loc d)) (ds_content d) (ds_delim d) (ds_media d).
Definition ce_arg (a : steparg) : steparg :=
  match a with ArgNone => ArgNone | ArgTable l rows => ArgTable (ce_loc l) (map ce_row rows) | ArgDoc d => ArgDoc (ce_ds d) end.
Definition ce_step (s : step) : step :=
  mk_step (st_id s) (ce_loc (st_loc s)) (st_keyword s) (st_ktype s) (st_text s) (ce_arg (st_arg s)).
Definition ce_bg (b : background) : background :=
  mk_background (bg_id b) (ce_loc (bg_loc b)) (bg_keyword b) (bg_name b) (bg_desc b) (map ce_step (bg_steps b)).
Definition ce_ex (e : examples) : examples :=
  mk_examples (ex_id e) (map ce_tag (ex_tags e)) (ce_loc (ex_loc e)) (ex_keyword e) (ex_name e) (ex_desc e)
              (option_map ce_row (ex_header e)) (map ce_row (ex_body e)).
Definition ce_sc (s : scenario) : scenario :=
  mk_scenario (sc_id s) (map ce_tag (sc_tags s)) (ce_loc (sc_loc s)) (sc_keyword s) (sc_name s) (sc_desc s)
              (map ce_step (sc_steps s)) (map ce_ex (sc_examples s)).
Definition ce_rchild (c : rchild) : rchild :=
  match c with RCBackground b => RCBackground (ce_bg b) | RCScenario s => RCScenario (ce_sc s) end.
Definition ce_rule (r : grule) : grule :=
  mk_grule (ru_id r) (map ce_tag (ru_tags r)) (ce_loc (ru_loc r)) (ru_keyword r) (ru_name r) (ru_desc r)
           (map ce_rchild (ru_children r)).
Definition ce_fchild (c : fchild) : fchild :=
  match c with FCBackground b => FCBackground (ce_bg b) | FCScenario s => FCScenario (ce_sc s) | FCRule r => FCRule (ce_rule r) end.
Definition ce_feature (f : feature) : feature :=
  mk_feature (map ce_tag (f_tags f)) (ce_loc (f_loc f)) (f_language f) (f_keyword f) (f_name f) (f_desc f) (map ce_fchild (f_children f)).
Definition ce_comment (c : comment) : comment := mk_comment (ce_loc (cm_loc c)) (cm_text c).
Definition ce_doc (d : document) : document := mk_document (option_map ce_feature (doc_feature d)) (map ce_comment (doc_comments d)).

Definition ce_item (it : nat * str) : nat * str := (0, snd it).
Definition tce (t : token) : token :=
  mk_token None (ce_loc (tk_loc t)) (m_type t) (m_text t) (m_keyword t) (m_ktype t) 0 (map ce_item (m_items t)) (m_dialect t).

(* an error with its column forgotten: the position prefix of its message is rendered again *)
Definition e_body (e : perror) : str := skipn (length (loc_prefix (e_loc e))) (e_msg e).
Definition ce_err (e : perror) : perror := parser_exception (e_kind e) (e_body e) (ce_loc (e_loc e)).
Lemma skipn_app_len {A} (a b : list A) : skipn (length a) (a ++ b) = b.
Proof. induction a; cbn; auto. Qed.
Lemma ce_err_pe k msg l : ce_err (parser_exception k msg l) = parser_exception k msg (ce_loc l).
Proof. unfold ce_err, e_body, parser_exception. cbn [e_kind e_loc e_msg]. now rewrite skipn_app_len. Qed.

Fixpoint vce (v : value) : value :=
  match v with
  | VTok t => VTok (tce t)
  | VNode n => VNode (nce n)
  | VStep s => VStep (ce_step s)
  | VDocString d => VDocString (ce_ds d)
  | VDataTable l rows => VDataTable (ce_loc l) (map ce_row rows)
  | VBackground b => VBackground (ce_bg b)
  | VScenario s => VScenario (ce_sc s)
  | VExamples e => VExamples (ce_ex e)
  | VRows rs => VRows (map ce_row rs)
  | VDesc s => VDesc s
  | VRule r => VRule (ce_rule r)
  | VFeature f => VFeature (ce_feature f)
  | VDocument d => VDocument (ce_doc d)
  | VNone => VNone
  end
with nce (n : node) : node :=
  match n with
  | Node rt items => Node rt ((fix go (l : list (key * value)) : list (key * value) :=
                                 match l with [] => [] | (q, v) :: r => (q, vce v) :: go r end) items)
  end.
Definition ice (l : list (key * value)) : list (key * value) := map (fun kv => (fst kv, vce (snd kv))) l.
Lemma nce_eq rt items : nce (Node rt items) = Node rt (ice items).
Proof. cbn [nce]. f_equal. induction items as [|[q v] r IH]; cbn; [reflexivity|]. now rewrite IH. Qed.

Definition bce (b : bstate) : bstate := mk_bstate (map nce (b_stack b)) (map ce_comment (b_comments b)) (b_idc b).

Lemma node_rt_ce n : node_rt (nce n) = node_rt n.
Proof. destruct n. rewrite nce_eq. reflexivity. Qed.
Lemma node_items_ce n : node_items (nce n) = ice (node_items n).
Proof. destruct n. rewrite nce_eq. reflexivity. Qed.
Lemma node_add_ce n q v : nce (node_add n q v) = node_add (nce n) q (vce v).
Proof. destruct n. cbn [node_add]. rewrite !nce_eq. cbn [node_add]. unfold ice. rewrite map_app. reflexivity. Qed.

Lemma get_items_ce n q : get_items (nce n) q = map vce (get_items n q).
Proof.
  unfold get_items. rewrite node_items_ce. unfold ice. induction (node_items n) as [|[k0 v] r IH]; cbn [map filter fst snd]; [reflexivity|].
  destruct (key_beq k0 q); cbn [map fst snd]; now rewrite IH.
Qed.
Lemma get_single_ce n q : get_single (nce n) q = option_map vce (get_single n q).
Proof. unfold get_single. rewrite get_items_ce. destruct (get_items n q); reflexivity. Qed.

Lemma toks_of_ce vs : toks_of (map vce vs) = option_map (map tce) (toks_of vs).
Proof.
  induction vs as [|v r IH]; cbn; [reflexivity|]. destruct v; cbn; try reflexivity.
  rewrite IH. destruct (toks_of r); reflexivity.
Qed.
Lemma get_tokens_ce n q : get_tokens (nce n) q = option_map (map tce) (get_tokens n q).
Proof. unfold get_tokens. rewrite get_items_ce. apply toks_of_ce. Qed.
Lemma get_token_ce n q : get_token (nce n) q = option_map (option_map tce) (get_token n q).
Proof. unfold get_token. rewrite get_single_ce. destruct (get_single n (KT q)) as [v|]; [destruct v|]; reflexivity. Qed.
Lemma get_description_ce n : get_description (nce n) = get_description n.
Proof. unfold get_description. rewrite get_single_ce. destruct (get_single n (KR RDescription)) as [v|]; [destruct v|]; reflexivity. Qed.

Lemma steps_of_ce vs : steps_of (map vce vs) = option_map (map ce_step) (steps_of vs).
Proof. induction vs as [|v r IH]; cbn; [reflexivity|]. destruct v; cbn; try reflexivity. rewrite IH. destruct (steps_of r); reflexivity. Qed.
Lemma scenarios_of_ce vs : scenarios_of (map vce vs) = option_map (map ce_sc) (scenarios_of vs).
Proof. induction vs as [|v r IH]; cbn; [reflexivity|]. destruct v; cbn; try reflexivity. rewrite IH. destruct (scenarios_of r); reflexivity. Qed.
Lemma examples_of_ce vs : examples_of (map vce vs) = option_map (map ce_ex) (examples_of vs).
Proof. induction vs as [|v r IH]; cbn; [reflexivity|]. destruct v; cbn; try reflexivity. rewrite IH. destruct (examples_of r); reflexivity. Qed.
Lemma rules_of_ce vs : rules_of (map vce vs) = option_map (map (option_map ce_rule)) (rules_of vs).
Proof. induction vs as [|v r IH]; cbn; [reflexivity|]. destruct v; cbn; try reflexivity; rewrite IH; destruct (rules_of r); reflexivity. Qed.
Lemma get_steps_ce n : get_steps (nce n) = option_map (map ce_step) (get_steps n).
Proof. unfold get_steps. rewrite get_items_ce. apply steps_of_ce. Qed.

Lemma gl_none t : get_location (tce t) None = ce_loc (get_location t None).
Proof. reflexivity. Qed.
Lemma gl_some t c : get_location (tce t) (Some 0) = ce_loc (get_location t (Some c)).
Proof. destruct c; reflexivity. Qed.

Lemma tags_of_items_ce t its : forall i,
  tags_of_items (tce t) (map ce_item its) i = (map ce_tag (fst (tags_of_items t its i)), snd (tags_of_items t its i)).
Proof.
  induction its as [|[c x] r IH]; intros i; cbn [map tags_of_items ce_item snd fst]; [reflexivity|].
  rewrite IH. destruct (tags_of_items t r (S i)) as [tl j]. cbn [fst snd map]. unfold ce_tag at 2. cbn [tg_id tg_loc tg_name].
  rewrite <- (gl_some t c). reflexivity.
Qed.
Lemma tags_of_tokens_ce ts : forall i,
  tags_of_tokens (map tce ts) i = (map ce_tag (fst (tags_of_tokens ts i)), snd (tags_of_tokens ts i)).
Proof.
  induction ts as [|t r IH]; intros i; cbn [map tags_of_tokens]; [reflexivity|].
  change (m_items (tce t)) with (map ce_item (m_items t)). rewrite tags_of_items_ce.
  destruct (tags_of_items t (m_items t) i) as [a i1]. cbn [fst snd]. rewrite IH.
  destruct (tags_of_tokens r i1) as [b i2]. cbn [fst snd]. now rewrite map_app.
Qed.
Lemma get_cells_ce t : get_cells (tce t) = map ce_cell (get_cells t).
Proof.
  unfold get_cells. change (m_items (tce t)) with (map ce_item (m_items t)). rewrite !map_map. apply map_ext. intros [c x].
  cbn [ce_item fst snd]. unfold ce_cell. cbn [c_loc c_value]. rewrite <- (gl_some t c). reflexivity.
Qed.
Lemma rows_of_tokens_ce ts : forall i,
  rows_of_tokens (map tce ts) i = (map ce_row (fst (rows_of_tokens ts i)), snd (rows_of_tokens ts i)).
Proof.
  induction ts as [|t r IH]; intros i; cbn [map rows_of_tokens]; [reflexivity|].
  rewrite IH. destruct (rows_of_tokens r (S i)) as [rs j]. cbn [fst snd map]. unfold ce_row at 2. cbn [r_id r_loc r_cells].
  rewrite get_cells_ce, gl_none. reflexivity.
Qed.
Lemma texts_of_ce ts : texts_of (map tce ts) = texts_of ts.
Proof. induction ts as [|t r IH]; cbn [map texts_of]; [reflexivity|]. rewrite IH. reflexivity. Qed.
Lemma drop_trailing_blank_ce ts : drop_trailing_blank (map tce ts) = map tce (drop_trailing_blank ts).
Proof.
  induction ts as [|t r IH]; cbn [map drop_trailing_blank]; [reflexivity|]. rewrite IH.
  destruct (drop_trailing_blank r); cbn [map]; [|reflexivity].
  change (blank_text (tce t)) with (blank_text t). destruct (blank_text t); reflexivity.
Qed.

Definition tres_ce {A} (f : A -> A) (r : tres A) : tres A :=
  match r with TOk a i => TOk (f a) i | TRaise e i => TRaise (ce_err e) i | TCrash => TCrash end.

Lemma get_tags_ce n i : get_tags (nce n) i = tres_ce (map ce_tag) (get_tags n i).
Proof.
  unfold get_tags. rewrite get_single_ce. destruct (get_single n (KR RTags)) as [v|]; [destruct v|]; try reflexivity.
  cbn [option_map vce]. rewrite get_tokens_ce. destruct (get_tokens n0 KTagLine); cbn [option_map]; [|reflexivity].
  rewrite tags_of_tokens_ce. destruct (tags_of_tokens l i). reflexivity.
Qed.
Lemma find_ce_row f l : (forall x, f (ce_row x) = f x) -> find f (map ce_row l) = option_map ce_row (find f l).
Proof. intros H. induction l as [|x xs IH]; [reflexivity|]. cbn [map find]. rewrite H. destruct (f x); [reflexivity | exact IH]. Qed.
Lemma first_ragged_ce rows : first_ragged (map ce_row rows) = option_map ce_row (first_ragged rows).
Proof.
  unfold first_ragged. destruct rows as [|r0 rs]; [reflexivity|]. cbn [map].
  rewrite <- (find_ce_row (fun r => negb (length (r_cells r) =? length (r_cells r0)))).
  - cbn [map]. assert (E : length (r_cells (ce_row r0)) = length (r_cells r0)) by (unfold ce_row; cbn [r_cells]; apply map_length).
    rewrite E. reflexivity.
  - intros x. unfold ce_row. cbn [r_cells]. now rewrite map_length.
Qed.
Lemma get_table_rows_ce n i : get_table_rows (nce n) i = tres_ce (map ce_row) (get_table_rows n i).
Proof.
  unfold get_table_rows. rewrite get_tokens_ce. destruct (get_tokens n KTableRow) as [ts|]; cbn [option_map]; [|reflexivity].
  rewrite rows_of_tokens_ce. destruct (rows_of_tokens ts i) as [rows j]. cbn [fst snd].
  rewrite first_ragged_ce. destruct (first_ragged rows) as [r|]; cbn [option_map tres_ce]; [|reflexivity].
  rewrite ce_err_pe. reflexivity.
Qed.

Lemma hd_error_map' {A B} (f : A -> B) l : hd_error (map f l) = option_map f (hd_error l).
Proof. destruct l; reflexivity. Qed.
Lemma tl_map' {A B} (f : A -> B) (l : list A) : tl (map f l) = map f (tl l).
Proof. destruct l; reflexivity. Qed.
Lemma forallb_some_ce rls : forallb (fun r => match r with Some _ => true | None => false end) (map (option_map ce_rule) rls)
                            = forallb (fun r : option grule => match r with Some _ => true | None => false end) rls.
Proof. induction rls as [|[x|] r IH]; cbn; [reflexivity | exact IH | reflexivity]. Qed.
Lemma rules_children_ce rls :
  flat_map (fun r => match r with Some x => [FCRule x] | None => [] end) (map (option_map ce_rule) rls)
  = map ce_fchild (flat_map (fun r => match r with Some x => [FCRule x] | None => [] end) rls).
Proof. induction rls as [|[x|] r IH]; cbn; [reflexivity | now rewrite IH | exact IH]. Qed.

Ltac cer := repeat progress rewrite ?get_token_ce, ?get_tags_ce, ?get_table_rows_ce, ?get_description_ce, ?get_steps_ce,
              ?get_single_ce, ?get_items_ce, ?get_tokens_ce, ?scenarios_of_ce, ?examples_of_ce, ?rules_of_ce, ?steps_of_ce,
              ?texts_of_ce, ?drop_trailing_blank_ce, ?toks_of_ce,
              ?hd_error_map', ?tl_map', ?forallb_some_ce, ?rules_children_ce, ?map_app, ?map_map.
Ltac plainc x := lazymatch x with
                 | context [vce] => fail
                 | context [nce] => fail
                 | context [tce] => fail
                 | context [ce_row] => fail
                 | context [ce_step] => fail
                 | context [ce_sc] => fail
                 | context [ce_ex] => fail
                 | context [ce_rule] => fail
                 | context [ce_tag] => fail
                 | context [match _ with _ => _ end] => fail
                 | _ => idtac
                 end.
Ltac crunchc :=
  repeat (cer; cbn beta iota delta [option_map tres_ce vce nce tce m_text m_keyword m_ktype m_dialect map] fix; cer;
          try reflexivity;
          match goal with
          | |- context [match ?x with _ => _ end] => plainc x; destruct x
          | |- context [forallb ?f ?l] => plainc l; destruct (forallb f l)
          end).

Lemma transform_ce n c i : transform_node (nce n) (map ce_comment c) i = tres_ce vce (transform_node n c i).
Proof.
  unfold transform_node. rewrite node_rt_ce. destruct (node_rt n) as [q|r|]; try reflexivity.
  destruct r; try reflexivity; unfold opt_crash, tbind; crunchc.
  all: cbn [option_map tres_ce vce]; unfold ce_feature, ce_rule, ce_doc;
    cbn [f_tags f_loc f_language f_keyword f_name f_desc f_children ru_id ru_tags ru_loc ru_keyword ru_name ru_desc ru_children
         doc_feature doc_comments map app option_map];
    rewrite ?map_app, ?map_map; try reflexivity.
Qed.

(* ---- the builder operations commute with the eraser ---- *)
Definition bout_ce (o : bout) : bout :=
  match o with BoOk b => BoOk (bce b) | BoRaise e b => BoRaise (ce_err e) (bce b) | BoCrash => BoCrash end.

Lemma builder_start_ce r b : builder_start r (bce b) = bout_ce (builder_start r b).
Proof. reflexivity. Qed.

Lemma builder_end_ce r b : builder_end r (bce b) = bout_ce (builder_end r b).
Proof.
  unfold builder_end, bce. cbn [b_stack b_comments b_idc]. destruct (b_stack b) as [|n stk]; [reflexivity|].
  cbn [map]. rewrite transform_ce. destruct (transform_node n (b_comments b) (b_idc b)) as [v i|e i|]; cbn [tres_ce bout_ce]; try reflexivity.
  destruct stk as [|cur stk']; [reflexivity|]. cbn [map bout_ce]. unfold bce. cbn [map b_stack b_comments b_idc].
  rewrite node_add_ce, node_rt_ce. reflexivity.
Qed.

Lemma builder_build_ce t b : builder_build (tce t) (bce b) = bout_ce (builder_build t b).
Proof.
  unfold builder_build. change (m_type (tce t)) with (m_type t). change (m_text (tce t)) with (m_text t).
  destruct (m_type t) as [kd|]; [|reflexivity].
  assert (G : match b_stack (bce b) with
              | [] => BoCrash
              | cur :: stk => BoOk (mk_bstate (node_add cur (KT kd) (VTok (tce t)) :: stk) (b_comments (bce b)) (b_idc (bce b)))
              end = bout_ce match b_stack b with
                            | [] => BoCrash
                            | cur :: stk => BoOk (mk_bstate (node_add cur (KT kd) (VTok t) :: stk) (b_comments b) (b_idc b))
                            end).
  { unfold bce. cbn [b_stack b_comments b_idc]. destruct (b_stack b) as [|cur stk]; [reflexivity|]. cbn [map bout_ce]. unfold bce. cbn [map b_stack b_comments b_idc].
    rewrite node_add_ce. reflexivity. }
  destruct kd; try exact G. destruct (m_text t); [|reflexivity].
  cbn [bout_ce]. unfold bce. cbn [b_stack b_comments b_idc]. rewrite map_app. reflexivity.
Qed.

Lemma builder_result_ce b : builder_result (bce b) = option_map ce_doc (builder_result b).
Proof.
  unfold builder_result, bce. cbn [b_stack]. destruct (b_stack b) as [|cur stk]; [reflexivity|]. cbn [map].
  rewrite get_single_ce. destruct (get_single cur (KR RGherkinDocument)) as [v|]; [destruct v|]; reflexivity.
Qed.
Lemma reset_builder_ce b : reset_builder (bce b) = bce (reset_builder b).
Proof. reflexivity. Qed.

(* two builder states / tokens that differ only in columns (and in the physical lines of their tokens) *)
Definition BRc (b b' : bstate) : Prop := bce b = bce b'.
Definition boutc_rel (o o' : bout) : Prop :=
  match o, o' with
  | BoOk b, BoOk b' => BRc b b'
  | BoRaise e b, BoRaise e' b' => ce_err e = ce_err e' /\ BRc b b'
  | BoCrash, BoCrash => True
  | _, _ => False
  end.
Lemma boutc_rel_of o o' : bout_ce o = bout_ce o' -> boutc_rel o o'.
Proof.
  destruct o as [b|e b|], o' as [b'|e' b'|]; cbn [bout_ce boutc_rel]; unfold BRc; intros H; try discriminate H.
  - assert (X : forall a c, BoOk a = BoOk c -> a = c) by (intros a c E; now inversion E). exact (X _ _ H).
  - assert (X : forall a c x y, BoRaise x a = BoRaise y c -> x = y /\ a = c) by (intros a c x y E; now inversion E). exact (X _ _ _ _ H).
  - exact I.
Qed.
Lemma builder_start_crel r b b' : BRc b b' -> boutc_rel (builder_start r b) (builder_start r b').
Proof. intros H. apply boutc_rel_of. rewrite <- !builder_start_ce. unfold BRc in H. now rewrite H. Qed.
Lemma builder_end_crel r b b' : BRc b b' -> boutc_rel (builder_end r b) (builder_end r b').
Proof. intros H. apply boutc_rel_of. rewrite <- !builder_end_ce. unfold BRc in H. now rewrite H. Qed.
Lemma builder_build_crel t t' b b' : tce t = tce t' -> BRc b b' -> boutc_rel (builder_build t b) (builder_build t' b').
Proof. intros Ht H. apply boutc_rel_of. rewrite <- !builder_build_ce. unfold BRc in H. now rewrite H, Ht. Qed.
Lemma builder_result_crel b b' : BRc b b' -> option_map ce_doc (builder_result b) = option_map ce_doc (builder_result b').
Proof. intros H. rewrite <- !builder_result_ce. unfold BRc in H. now rewrite H. Qed.
