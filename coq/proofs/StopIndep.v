(* In stop-at-first-error mode the interpreter never compares two error messages (add_error is not reached):
   the run does not depend on the err_same_msg parameter.  Generic interpreter. *)
From Coq Require Import List Bool Arith.
Import ListNotations.
Require Import Kinds Automaton.

Section StopIndep.
  Context {Tok MS BS Err : Type}.
  Variable P : params Tok MS BS Err.
  Variable f : Err -> Err -> bool.
  Definition with_same : params Tok MS BS Err :=
    mk_params Tok MS BS Err (is_eof P) (mk_eof P) (matchf P) (b_start P) (b_end P) (b_build P) f (mk_unexpected P)
              (table P) (lookaheads P) (error_cap P) (start_state P).
  Notation P' := with_same.

  Lemma match_k_si k t c : match_k P' true k t c = match_k P true k t c.
  Proof. reflexivity. Qed.
  Lemma any_match_si ks : forall t c, any_match P' true ks t c = any_match P true ks t c.
  Proof.
    induction ks as [|k ks IH]; intros t c; cbn [any_match]; [reflexivity|]. rewrite match_k_si.
    destruct (match_k P true k t c) as [[b t1] c1| | | |]; cbn [bind fst snd]; try reflexivity. destruct b; [reflexivity | apply IH].
  Qed.
  Lemma la_loop_si' h : forall fuel c acc, la_loop P' fuel true h c acc = la_loop P fuel true h c acc.
  Proof.
    induction fuel as [|n IH]; intros c acc; cbn [la_loop]; [reflexivity|].
    change (read P' c) with (read P c). destruct (read P c) as [t c1]. rewrite any_match_si.
    destruct (any_match P true (la_expected h) t c1) as [[b t1] c2| | | |]; cbn [bind fst snd]; try reflexivity.
    destruct b; [reflexivity|]. rewrite any_match_si.
    destruct (any_match P true (la_skip h) t1 c2) as [[b' t2] c3| | | |]; cbn [bind fst snd]; try reflexivity.
    destruct b'; [apply IH | reflexivity].
  Qed.
  Lemma lookahead_si h c : lookahead P' true h c = lookahead P true h c.
  Proof.
    unfold lookahead. change (find_la P' h) with (find_la P h). destruct (find_la P h); [|reflexivity]. rewrite la_loop_si'. reflexivity.
  Qed.
  Lemma b_call_si g c : b_call P' true g c = b_call P true g c.
  Proof. reflexivity. Qed.
  Lemma exec_si t k : forall ps c, exec P' true t k ps c = exec P true t k ps c.
  Proof.
    induction ps as [|p ps IH]; intros c; cbn [exec]; [reflexivity|].
    destruct p; cbn [b_start b_end b_build with_same]; rewrite b_call_si;
      match goal with |- bind ?x _ = bind ?x _ => destruct x as [[] c1| | | |] end; cbn [bind]; try reflexivity; apply IH.
  Qed.
  Lemma run_tests_si : forall tests t c, run_tests P' true tests t c = run_tests P true tests t c.
  Proof.
    induction tests as [|x xs IH]; intros t c; cbn [run_tests]; [reflexivity|]. rewrite match_k_si.
    destruct (match_k P true (t_kind x) t c) as [[b t1] c1| | | |]; cbn [bind fst snd]; try reflexivity.
    destruct b; [|apply IH]. destruct (t_guard x) as [h|].
    - rewrite lookahead_si. destruct (lookahead P true h c1) as [bb c2| | | |]; cbn [bind]; try reflexivity.
      destruct bb; [|apply IH]. rewrite exec_si. reflexivity.
    - rewrite exec_si. reflexivity.
  Qed.
  Lemma match_token_si s t c : match_token P' true s t c = match_token P true s t c.
  Proof.
    unfold match_token. change (find_state P' s) with (find_state P s). destruct (find_state P s); [|reflexivity].
    rewrite run_tests_si. reflexivity.
  Qed.
  Lemma loop_si : forall fuel s c, loop P' fuel true s c = loop P fuel true s c.
  Proof.
    induction fuel as [|n IH]; intros s c; cbn [loop]; [reflexivity|].
    change (read P' c) with (read P c). destruct (read P c) as [t c1]. rewrite match_token_si.
    destruct (match_token P true s t c1) as [s' c2| | | |]; cbn [bind]; try reflexivity.
    change (is_eof P' t) with (is_eof P t). destruct (is_eof P t); [reflexivity | apply IH].
  Qed.
  Theorem parse_stop_indep toks m b : parse P' true toks m b = parse P true toks m b.
  Proof.
    unfold parse. rewrite b_call_si. cbn [b_start with_same].
    destruct (b_call P true (b_start P RGherkinDocument) _) as [[] c1| | | |]; cbn [bind]; try reflexivity.
    change (start_state P') with (start_state P). rewrite loop_si.
    destruct (loop P _ true (start_state P) c1) as [s c2| | | |]; cbn [bind]; try reflexivity.
  Qed.
End StopIndep.
