(* C09: str.replace as modelled in PyStr.replace_all is the leftmost,
   non-overlapping rewrite; consequences for placeholder substitution. *)
From Coq Require Import List Bool Arith NArith Lia.
Import ListNotations.
Require Import PyStr Matcher Ast Compiler CompilerSpec.

Lemma starts_with_spec p s : starts_with p s = true <-> exists b, s = p ++ b.
Proof.
  revert s. induction p as [|x p IH]; intros s; simpl.
  - split; eauto.
  - destruct s as [|y s]; [split; [discriminate | intros [b Hb]; discriminate]|].
    rewrite andb_true_iff, N.eqb_eq, IH. split.
    + intros [-> [b ->]]. eauto.
    + intros [b Hb]. inversion Hb. eauto.
Qed.

Lemma skipn_app_exact {A} (p b : list A) : skipn (length p) (p ++ b) = b.
Proof. induction p; simpl; auto. Qed.

(* the leftmost non-overlapping rewrite, as a relation *)
Inductive Repl (p v : str) : str -> str -> Prop :=
  | R_nil : Repl p v [] []
  | R_hit b r : Repl p v b r -> Repl p v (p ++ b) (v ++ r)
  | R_skip c s r : starts_with p (c :: s) = false -> Repl p v s r -> Repl p v (c :: s) (c :: r).

Lemma replace_fuel_Repl p v : p <> [] -> forall fuel s, length s < fuel -> Repl p v s (replace_fuel fuel p v s).
Proof.
  intros Hp. induction fuel as [|f IH]; intros s L; [lia|]. simpl.
  destruct s as [|c s]; [constructor|].
  destruct (starts_with p (c :: s)) eqn:E.
  - apply starts_with_spec in E as [b Hb]. rewrite Hb, skipn_app_exact. constructor. apply IH.
    assert (length (c :: s) = length p + length b) by (rewrite Hb, app_length; reflexivity).
    destruct p; [congruence|]. simpl in *. lia.
  - constructor; [exact E|]. apply IH. simpl in L. lia.
Qed.

Lemma starts_with_self p b : starts_with p (p ++ b) = true.
Proof. apply starts_with_spec. eauto. Qed.

Lemma Repl_fun p v : p <> [] -> forall s r1 r2, Repl p v s r1 -> Repl p v s r2 -> r1 = r2.
Proof.
  intros Hp s r1 r2 H1. revert r2. induction H1 as [|b r H IH|c s r E H IH]; intros r2 H2.
  - inversion H2; subst; auto. destruct p; [congruence | discriminate].
  - remember (p ++ b) as s eqn:Es. destruct H2 as [|b' r' H'|c s r' E' H'].
    + destruct p; [congruence | discriminate].
    + apply app_inv_head in Es. subst b'. f_equal. auto.
    + exfalso. rewrite Es, starts_with_self in E'. discriminate.
  - remember (c :: s) as s0 eqn:Es. destruct H2 as [|b' r' H'|c' s' r' E' H'].
    + discriminate.
    + exfalso. rewrite starts_with_self in E. discriminate.
    + inversion Es; subst. f_equal. auto.
Qed.

Theorem replace_all_Repl p v s : p <> [] -> Repl p v s (replace_all p v s).
Proof.
  intros Hp. unfold replace_all. destruct p as [|x p]; [congruence|].
  apply replace_fuel_Repl; [discriminate | lia].
Qed.

Theorem replace_all_unique p v s r : p <> [] -> Repl p v s r -> replace_all p v s = r.
Proof. intros Hp H. eapply Repl_fun; eauto. now apply replace_all_Repl. Qed.

Definition occurs (p s : str) : Prop := exists a b, s = a ++ p ++ b.

(* text without the pattern is left unchanged *)
Theorem replace_no_occurrence p v s : p <> [] -> ~ occurs p s -> replace_all p v s = s.
Proof.
  intros Hp N. apply replace_all_unique; auto. induction s as [|c s IH]; [constructor|].
  constructor.
  - destruct (starts_with p (c :: s)) eqn:E; auto. exfalso. apply N.
    apply starts_with_spec in E as [b Hb]. exists [], b. exact Hb.
  - apply IH. intros [a [b Hb]]. apply N. exists (c :: a), b. now rewrite Hb.
Qed.

(* the first occurrence is replaced by the value, verbatim, and rewriting resumes after it *)
Theorem replace_first p v a b : p <> [] ->
  (forall a1 a2, a = a1 ++ a2 -> starts_with p (a2 ++ p ++ b) = true -> a2 = []) ->
  replace_all p v (a ++ p ++ b) = a ++ v ++ replace_all p v b.
Proof.
  intros Hp H. apply replace_all_unique; auto.
  induction a as [|c a IH]; simpl.
  - constructor. now apply replace_all_Repl.
  - constructor.
    + destruct (starts_with p (c :: a ++ p ++ b)) eqn:E; auto.
      specialize (H [] (c :: a) eq_refl E). discriminate.
    + apply IH. intros a1 a2 -> E. apply (H (c :: a1) a2); auto.
Qed.

(* the value is inserted literally: s.replace(p, v) = v.join(pieces) where the pieces
   (= s.split(p)) do not depend on v, and s = p.join(pieces) *)
Fixpoint pieces_fuel (fuel : nat) (p s : str) : list str :=
  match fuel with
  | O => [s]
  | S f =>
    match s with
    | [] => [[]]
    | c :: s' =>
      if starts_with p s then [] :: pieces_fuel f p (skipn (length p) s)
      else match pieces_fuel f p s' with
           | [] => [[c]]
           | q :: ps => (c :: q) :: ps
           end
    end
  end.
Definition pieces (p s : str) : list str := pieces_fuel (S (length s)) p s.

Lemma pieces_fuel_nonempty fuel p s : pieces_fuel fuel p s <> [].
Proof.
  destruct fuel; simpl; [discriminate|]. destruct s; [discriminate|].
  destruct (starts_with p (n :: s)); [discriminate|]. destruct (pieces_fuel fuel p s); discriminate.
Qed.

Lemma join_cons sep q ps : ps <> [] -> join sep (q :: ps) = q ++ sep ++ join sep ps.
Proof. destruct ps; [congruence | reflexivity]. Qed.

Lemma replace_fuel_join p v : forall fuel s, replace_fuel fuel p v s = join v (pieces_fuel fuel p s).
Proof.
  induction fuel as [|f IH]; intros s; simpl; [reflexivity|].
  destruct s as [|c s]; [reflexivity|].
  destruct (starts_with p (c :: s)).
  - rewrite join_cons by apply pieces_fuel_nonempty. simpl. now rewrite IH.
  - rewrite IH. pose proof (pieces_fuel_nonempty f p s) as N.
    destruct (pieces_fuel f p s) as [|q ps]; [congruence|]. destruct ps; reflexivity.
Qed.

Lemma pieces_fuel_join p : forall fuel s, join p (pieces_fuel fuel p s) = s.
Proof.
  induction fuel as [|f IH]; intros s; simpl; [reflexivity|].
  destruct s as [|c s]; [reflexivity|].
  destruct (starts_with p (c :: s)) eqn:E.
  - rewrite join_cons by apply pieces_fuel_nonempty. simpl. rewrite IH.
    apply starts_with_spec in E as [b Hb]. rewrite Hb, skipn_app_exact. reflexivity.
  - pose proof (pieces_fuel_nonempty f p s) as N. specialize (IH s).
    destruct (pieces_fuel f p s) as [|q ps]; [congruence|]. destruct ps; simpl in *; congruence.
Qed.

Theorem replace_is_join p v s : p <> [] ->
  replace_all p v s = join v (pieces p s) /\ join p (pieces p s) = s.
Proof.
  intros Hp. split; [|apply pieces_fuel_join].
  unfold replace_all, pieces. destruct p; [congruence|]. apply replace_fuel_join.
Qed.

(* ---- placeholders ---- *)
Local Arguments replace_all : simpl never.
Definition placeholder (h : str) : str := LT :: h ++ [GT].
Definition no_angle (x : str) : Prop := ~ In LT x /\ ~ In GT x.

Lemma placeholder_nonempty h : placeholder h <> [].
Proof. discriminate. Qed.

Lemma in_split_app {A} (x : A) a b : In x (a ++ b) <-> In x a \/ In x b.
Proof. apply in_app_iff. Qed.

(* "<h>" can only occur inside "<x>" (x free of angle brackets) when h = x *)
Lemma placeholder_occurs_eq h x : no_angle x -> occurs (placeholder h) (placeholder x) -> h = x.
Proof.
  intros [NL NG] [a [b E]]. unfold placeholder in E.
  destruct a as [|c a].
  - simpl in E. inversion E as [E1]. clear E.
    (* h ++ GT :: b = x ++ [GT] and GT not in x: lengths agree *)
    revert x NL NG E1. induction h as [|y h IH]; intros x NL NG E1; simpl in E1.
    + destruct x as [|z x]; [reflexivity|]. inversion E1; subst. exfalso. apply NG. now left.
    + destruct x as [|z x]; simpl in E1.
      * inversion E1; subst. destruct h; discriminate.
      * inversion E1; subst. f_equal. apply IH; auto; intros K; [apply NL | apply NG]; now right.
  - exfalso. simpl in E. inversion E as [[E0 E1]]. clear E. subst c.
    (* a ++ LT :: ... = x ++ [GT]: an LT inside x or equal to GT *)
    assert (In LT (x ++ [GT])) as K by (rewrite E1; apply in_app_iff; right; now left).
    apply in_app_iff in K as [K|K]; [now apply NL|]. simpl in K. destruct K as [K|[]]. discriminate.
Qed.

(* '<x>' for an x that is not a header stays as written *)
Theorem interp_unknown_kept x : no_angle x -> forall hs vs,
  ~ In x (map c_value hs) -> interp (placeholder x) hs vs = placeholder x.
Proof.
  intros NA. induction hs as [|h hs IH]; intros vs NI; simpl; [reflexivity|].
  destruct vs as [|v vs]; [reflexivity|].
  change (LT :: c_value h ++ [GT]) with (placeholder (c_value h)).
  rewrite replace_no_occurrence.
  - apply IH. intros K. apply NI. now right.
  - apply placeholder_nonempty.
  - intros O. apply NI. left. now apply placeholder_occurs_eq.
Qed.

(* text with no placeholder of any header is left unchanged *)
Theorem interp_no_placeholder t : forall hs vs,
  (forall h, In h hs -> ~ occurs (placeholder (c_value h)) t) -> interp t hs vs = t.
Proof.
  induction hs as [|h hs IH]; intros vs N; simpl; [reflexivity|].
  destruct vs as [|v vs]; [reflexivity|].
  change (LT :: c_value h ++ [GT]) with (placeholder (c_value h)).
  rewrite replace_no_occurrence; [|apply placeholder_nonempty | apply N; now left].
  apply IH. intros k Hk. apply N. now right.
Qed.

(* columns are applied in header order: the definition of interp, stated as a fold *)
Theorem interp_fold t hs vs :
  interp t hs vs = fold_left (fun acc hv => replace_all (placeholder (c_value (fst hv))) (c_value (snd hv)) acc) (combine hs vs) t.
Proof.
  revert t vs. induction hs as [|h hs IH]; intros t vs; simpl; [reflexivity|].
  destruct vs as [|v vs]; simpl; [reflexivity|]. apply IH.
Qed.
