(* Frame facts about the TokenMatcher model: what a match can and cannot touch. *)
From Coq Require Import List Bool Arith NArith Lia.
Import ListNotations.
Require Import Kinds PyStr Line Matcher.

Ltac matcher_cases :=
  repeat match goal with
         | |- context [if line_is_empty ?l then _ else _] => destruct (line_is_empty l) eqn:?
         | |- context [if line_startswith ?l ?p then _ else _] => destruct (line_startswith l p) eqn:?
         | |- context [match first_title_keyword ?l ?ks with _ => _ end] => destruct (first_title_keyword l ks) eqn:?
         | |- context [match first_prefix ?l ?ks with _ => _ end] => destruct (first_prefix l ks) eqn:?
         | |- context [match language_header ?s with _ => _ end] => destruct (language_header s) eqn:?
         | |- context [match find_dialect ?ds ?n with _ => _ end] => destruct (find_dialect ds n) eqn:?
         | |- context [match line_tags ?l with _ => _ end] => destruct (line_tags l) eqn:?
         | |- context [match ms_sep ?m with _ => _ end] => destruct (ms_sep m) eqn:?
         end.

(* a match never changes which physical line the token is (nor whether it is EOF) *)
Lemma matcher_line ds k m t :
  match matcher ds k m t with
  | MNo => True
  | MYes t' _ | MErr _ t' _ => tk_line t' = tk_line t
  end.
Proof.
  unfold matcher.
  destruct k; destruct (tk_line t) as [l|] eqn:L; simpl; auto;
    unfold match_title_line, match_docsep; matcher_cases; simpl; auto.
Qed.

(* ... nor its line number *)
Lemma matcher_lineno ds k m t :
  match matcher ds k m t with
  | MNo => True
  | MYes t' _ | MErr _ t' _ => loc_line (tk_loc t') = loc_line (tk_loc t)
  end.
Proof.
  unfold matcher.
  destruct k; destruct (tk_line t) as [l|] eqn:L; simpl; auto;
    unfold match_title_line, match_docsep; matcher_cases; simpl; auto.
Qed.

(* the default dialect name is never changed by a match *)
Lemma matcher_default ds k m t :
  match matcher ds k m t with
  | MNo => True
  | MYes _ m' | MErr _ _ m' => ms_default m' = ms_default m
  end.
Proof.
  unfold matcher.
  destruct k; destruct (tk_line t) as [l|] eqn:L; simpl; auto;
    unfold match_title_line, match_docsep; matcher_cases; simpl; auto.
Qed.
