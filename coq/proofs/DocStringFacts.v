(* C13: doc strings are opaque.  Matcher lemmas for a matcher with an active separator, the
   two-test shape of the doc-string states, one content line through match_token, and the
   builder's transformation of a DocString node. *)
From Coq Require Import List Bool Arith NArith Lia.
Import ListNotations.
Require Import Kinds PyStr Line Matcher MatcherFacts Ast Builder Automaton AutoFacts Pipeline Table TableFacts Dialects NestingDefs.

Local Open Scope N_scope.

(* ---- matcher with an active separator ---- *)
(* only a line starting with the active separator closes; the other delimiter does not *)
Lemma docsep_active_no ds m t l sep : tk_line t = Some l -> ms_sep m = Some sep ->
  line_startswith l sep = false -> matcher ds KDocStringSeparator m t = MNo.
Proof. intros L S N. unfold matcher. rewrite L, S. unfold match_docsep. now rewrite N. Qed.

Lemma docsep_active_close ds m t l sep : tk_line t = Some l -> ms_sep m = Some sep ->
  line_startswith l sep = true ->
  exists t', matcher ds KDocStringSeparator m t = MYes t' (mk_mstate (ms_default m) (ms_name m) (ms_dialect m) None 0)
             /\ m_keyword t' = Some sep /\ m_type t' = Some KDocStringSeparator.
Proof. intros L S Y. unfold matcher. rewrite L, S. unfold match_docsep. rewrite Y. eexists. split; [reflexivity|]. split; reflexivity. Qed.

(* every line is content: text = the line minus the opening delimiter's indentation (a less indented
   line loses all of its own), escaped delimiter turned back, line terminator removed; matcher untouched *)
Definition content_of (m : mstate) (l : gline) : str :=
  rstrip_crlf (unescape_docstring m (get_line_text l (Some (ms_indent m)))).

Lemma other_is_content ds m t l : tk_line t = Some l ->
  exists t', matcher ds KOther m t = MYes t' m /\ m_text t' = Some (content_of m l)
             /\ m_type t' = Some KOther /\ tk_line t' = Some l /\ tk_loc t' = mk_loc (loc_line (tk_loc t)) (Some 1%nat).
Proof. intros L. unfold matcher. rewrite L. eexists. split; [reflexivity|]. cbn. rewrite L. repeat split. Qed.

(* opening: three double quotes or three backticks; the rest of the line is the media type *)
Lemma docsep_open ds m t l sep : tk_line t = Some l -> ms_sep m = None -> (sep = DQ3 \/ (sep = BT3 /\ line_startswith l DQ3 = false)) ->
  line_startswith l sep = true ->
  exists t', matcher ds KDocStringSeparator m t = MYes t' (mk_mstate (ms_default m) (ms_name m) (ms_dialect m) (Some sep) (l_indent l))
             /\ m_keyword t' = Some sep /\ m_text t' = Some (rstrip_crlf (get_rest_trimmed l (length sep))).
Proof.
  intros L S Hs Y. unfold matcher. rewrite L, S. unfold match_docsep.
  destruct Hs as [->|[-> N]].
  - rewrite Y. eexists. split; [reflexivity|]. split; reflexivity.
  - rewrite N, Y. eexists. split; [reflexivity|]. split; reflexivity.
Qed.

(* ---- the doc-string states of the regenerated table ---- *)
Lemma docstring_state_shape s : In s (docstring_states Table.table) ->
  exists x y1 y2, find_in Table.table s = Some x /\ s_tests x = [y1; y2]
    /\ t_kind y1 = KDocStringSeparator /\ t_guard y1 = None
    /\ t_kind y2 = KOther /\ t_guard y2 = None /\ t_prods y2 = [PB] /\ t_tgt y2 = s.
Proof.
  intros Hs. pose proof docstring_states_opaque_ok as A. unfold docstring_states_opaque in A.
  apply andb_prop in A as [_ A]. rewrite forallb_forall in A. specialize (A s Hs).
  destruct (find_in Table.table s) as [x|]; [|discriminate]. exists x.
  apply andb_prop in A as [A A3]. apply andb_prop in A as [A1 A2].
  assert (Kinds_ : map t_kind (s_tests x) = [KDocStringSeparator; KOther]).
  { apply (NestingDefs.list_beq_eq kind_beq); [intros a b; apply kind_beq_eq | exact A1]. }
  destruct (s_tests x) as [|y1 [|y2 [|y3 r]]]; try discriminate Kinds_.
  exists y1, y2. simpl in Kinds_, A2, A3. inversion Kinds_ as [[K1 K2]].
  apply andb_prop in A2 as [G1 A2]. apply andb_prop in A2 as [G2 _].
  rewrite K1, K2 in A3. simpl in A3. apply andb_prop in A3 as [A3 _]. apply andb_prop in A3 as [T2 P2].
  apply Nat.eqb_eq in T2.
  assert (t_prods y2 = [PB]).
  { apply (NestingDefs.list_beq_eq prod_beq); [|exact P2].
    intros a b; destruct a, b; simpl; try discriminate; intros E; try apply rule_beq_eq in E; congruence. }
  destruct (t_guard y1); [discriminate|]. destruct (t_guard y2); [discriminate|].
  repeat split; auto.
Qed.

(* ---- one content line through Parser.match_token ---- *)
Notation rP := (pipeline_params Table.table).

Theorem docstring_line_step stop s t c l sep : In s (docstring_states Table.table) ->
  tk_line t = Some l -> ms_sep (ms c) = Some sep -> line_startswith l sep = false ->
  exists t' c2,
    match_token rP stop s t c = bind (exec rP stop t' KOther [PB] c2) (fun _ c3 => Ok s c3)
    /\ m_text t' = Some (content_of (ms c) l) /\ m_type t' = Some KOther
    /\ ms c2 = ms c /\ bs c2 = bs c /\ errs c2 = errs c /\ queue c2 = queue c /\ rest c2 = rest c /\ log c2 = log c
    /\ calls c2 = S (S (calls c))        (* exactly two matcher functions were consulted: separator, other *)
    /\ lineno c2 = lineno c.
Proof.
  intros Hs L S N. destruct (docstring_state_shape s Hs) as (x & y1 & y2 & F & Ts & K1 & G1 & K2 & G2 & P2 & T2).
  destruct (other_is_content dialects (ms c) t l L) as (t' & M2 & Tx & Ty & _ & _).
  pose proof (docsep_active_no dialects (ms c) t l sep L S N) as M1.
  exists t', (set_ms (ms c) (bump (set_ms (ms c) (bump c)))). split.
  - unfold match_token. change (find_state rP s) with (find_in Table.table s). rewrite F. rewrite Ts.
    cbn [run_tests]. rewrite K1, G1. unfold match_k at 1.
    assert (E : is_eof rP t = false) by (cbn; unfold tok_is_eof; now rewrite L).
    rewrite E, andb_false_r. cbn [matchf pipeline_params ms bump]. unfold p_matchf at 1. rewrite M1.
    cbn [bind fst snd]. rewrite K2, G2. unfold match_k at 1. rewrite E, andb_false_r.
    cbn [matchf pipeline_params ms bump set_ms]. unfold p_matchf at 1. rewrite M2.
    cbn [bind fst snd]. rewrite P2, T2.
    destruct (exec rP stop t' KOther [PB] (set_ms (ms c) (bump (set_ms (ms c) (bump c))))); reflexivity.
  - repeat split; auto.
Qed.

(* ---- the builder's DocString node ---- *)
Lemma filter_map_other os k :
  filter (fun kv : key * value => key_beq (fst kv) k) (map (fun o => (KT KOther, VTok o)) os)
  = if key_beq (KT KOther) k then map (fun o => (KT KOther, VTok o)) os else [].
Proof.
  destruct (key_beq (KT KOther) k) eqn:E; induction os as [|o os IH]; cbn [map filter fst]; try reflexivity;
    rewrite E, IH; reflexivity.
Qed.

Lemma toks_of_map os : toks_of (map snd (map (fun o : token => (KT KOther, VTok o)) os)) = Some os.
Proof. induction os as [|o os IH]; simpl; [reflexivity|]. now rewrite IH. Qed.

Lemma texts_of_map os ts : map m_text os = map Some ts -> texts_of os = Some ts.
Proof.
  revert ts. induction os as [|o os IH]; intros ts H; destruct ts as [|x ts]; try discriminate; [reflexivity|].
  simpl in *. inversion H as [[H1 H2]]. rewrite H1, (IH ts H2). reflexivity.
Qed.

(* opening separator, content lines, closing separator  ==>  content = the lines joined by LF, in order;
   media type = the opening separator's text, absent when empty; delimiter as written *)
Theorem docstring_transform open_ close_ os texts delim mt comments idc :
  m_keyword open_ = Some delim -> m_text open_ = Some mt ->
  map m_text os = map Some texts ->
  transform_node (Node (KR RDocString)
      ((KT KDocStringSeparator, VTok open_) :: map (fun o => (KT KOther, VTok o)) os ++ [(KT KDocStringSeparator, VTok close_)]))
    comments idc
  = TOk (VDocString (mk_docstring (get_location open_ None) (join [LF] texts) delim
                       (match mt with [] => None | _ => Some mt end))) idc.
Proof.
  intros Kw Tx Ts. unfold transform_node. cbn [node_rt].
  unfold get_tokens, get_items. cbn [node_items filter fst key_beq kind_beq snd map].
  rewrite filter_app, filter_map_other. cbn [key_beq kind_beq filter fst app map snd toks_of option_map].
  cbn [opt_crash]. rewrite Tx, Kw. cbn [opt_crash].
  rewrite filter_app, filter_map_other. cbn [key_beq kind_beq filter fst]. rewrite app_nil_r.
  rewrite toks_of_map. cbn [opt_crash]. rewrite (texts_of_map os texts Ts). reflexivity.
Qed.

(* ---- a whole body: the parse loop consumes exactly these lines as content ---- *)
Definition is_content_line (sep : str) (t : token) : Prop :=
  exists l, tk_line t = Some l /\ line_startswith l sep = false.

Definition add_others (n : node) (ts : list token) : node :=
  fold_left (fun n t => node_add n (KT KOther) (VTok t)) ts n.

Theorem docstring_body stop s sep : In s (docstring_states Table.table) ->
  forall body fuel c r cur stk,
  ms_sep (ms c) = Some sep -> queue c = [] -> rest c = body ++ r ->
  Forall (is_content_line sep) body -> b_stack (bs c) = cur :: stk ->
  exists c' ts,
    loop rP (length body + fuel) stop s c = loop rP fuel stop s c'
    /\ queue c' = [] /\ rest c' = r /\ ms c' = ms c /\ errs c' = errs c
    /\ lineno c' = (lineno c + length body)%nat
    /\ calls c' = (calls c + 2 * length body)%nat
    /\ b_stack (bs c') = add_others cur ts :: stk /\ b_comments (bs c') = b_comments (bs c) /\ b_idc (bs c') = b_idc (bs c)
    /\ map m_text ts = map (fun t => match tk_line t with Some l => Some (content_of (ms c) l) | None => None end) body.
Proof.
  intros Hs. induction body as [|t body IH]; intros fuel c r cur stk HS Q R Hb St.
  - exists c, []. cbn [length Nat.add app] in *. repeat split; auto; try lia.
  - inversion Hb as [|? ? [l [L N]] Hb']; subst.
    cbn [length Nat.add loop]. unfold read. rewrite Q, R. cbn [app].
    set (c1 := mkctx [] (body ++ r) (S (lineno c)) (errs c) (ms c) (bs c) (calls c) (log c)).
    destruct (docstring_line_step stop s t c1 l sep Hs L HS N) as (t' & c2 & E & Tx & Ty & M2 & B2 & E2 & Q2 & R2 & L2 & C2 & N2).
    rewrite E. cbn [exec]. unfold b_call. cbn [bs emit b_build pipeline_params]. unfold p_bbuild, builder_build.
    rewrite Ty. rewrite B2. cbn [bs c1]. rewrite St. cbn [lift_bout bind].
    assert (Eof : is_eof rP t = false) by (cbn; unfold tok_is_eof; now rewrite L).
    rewrite Eof.
    match goal with |- context [loop rP (length body + fuel) stop s ?cc] => set (c3 := cc) end.
    assert (S3 : ms_sep (ms c3) = Some sep) by (unfold c3; cbn [ms set_bs emit]; rewrite M2; exact HS).
    assert (Q3 : queue c3 = []) by (unfold c3; cbn [queue set_bs emit]; rewrite Q2; reflexivity).
    assert (R3 : rest c3 = body ++ r) by (unfold c3; cbn [rest set_bs emit]; rewrite R2; reflexivity).
    assert (St3 : b_stack (bs c3) = node_add cur (KT KOther) (VTok t') :: stk) by reflexivity.
    destruct (IH fuel c3 r (node_add cur (KT KOther) (VTok t')) stk S3 Q3 R3 Hb' St3)
      as (c' & ts & EL & A1 & A2 & A3 & A4 & A5 & A6 & A7 & A8 & A9 & A10).
    exists c', (t' :: ts). rewrite EL.
    assert (M3 : ms c3 = ms c) by (unfold c3; cbn [ms set_bs emit]; rewrite M2; reflexivity).
    assert (E3 : errs c3 = errs c) by (unfold c3; cbn [errs set_bs emit]; rewrite E2; reflexivity).
    assert (L3 : lineno c3 = S (lineno c)).
    { unfold c3. cbn [lineno set_bs emit]. rewrite N2. reflexivity. }
    assert (C3 : calls c3 = S (S (calls c))) by (unfold c3; cbn [calls set_bs emit]; rewrite C2; reflexivity).
    split; [reflexivity|]. split; [exact A1|]. split; [exact A2|]. split; [congruence|]. split; [congruence|].
    split; [rewrite A5, L3; cbn [length]; lia|]. split; [rewrite A6, C3; cbn [length]; lia|].
    split; [exact A7|]. split; [rewrite A8; reflexivity|]. split; [rewrite A9; reflexivity|].
    cbn [map]. rewrite Tx, L, A10, M3. reflexivity.
Qed.
