(* Parser.parse computes the queue-free machine of Machine.v (stop-at-first-error mode).
   Generic interpreter, under the hypotheses of the delivery theorem (Delivery.v): tokens pushed back by a look-ahead
   are skippable by every later look-ahead, so the queue always is a prefix of the pending input in its original order. *)
From Coq Require Import List Bool Arith Lia.
Import ListNotations.
Require Import Kinds Automaton AutoFacts Delivery Machine.

Section MachineEq.
  Context {Tok MS BS Err : Type}.
  Variable P : params Tok MS BS Err.
  Notation ctx := (ctx Tok MS BS Err).
  Notation res := (res Tok MS BS Err).
  Notation mr := (@Machine.mr MS Err).
  Notation mo := (@Machine.mo MS BS Err).

  Variable K : Type.
  Variable key : Tok -> K.
  Variable sk : Tok -> Prop.
  Variable I : MS -> Prop.
  Hypothesis Hkey : forall k m t, key (mtok (matchf P k m t)) = key t.
  Hypothesis Heof : forall k m t, is_eof P (mtok (matchf P k m t)) = is_eof P t.
  Hypothesis Hmkeof : forall n, is_eof P (mk_eof P n) = true.
  Hypothesis HI : forall k m t, I m -> I (mst (matchf P k m t)).
  Hypothesis sk_not_eof : forall t, sk t -> is_eof P t = false.
  Hypothesis S1 : forall h k m t t' m', In h (lookaheads P) -> In k (la_skip h) -> I m ->
    matchf P k m t = MR true t' m' -> sk t'.
  Hypothesis S2 : forall h m t, In h (lookaheads P) -> I m -> sk t ->
    (forall k, In k (la_expected h) -> matchf P k m t = MR false t m)
    /\ exists ks1 k ks2, la_skip h = ks1 ++ k :: ks2
         /\ (forall k1, In k1 ks1 -> matchf P k1 m t = MR false t m)
         /\ exists t' m', matchf P k m t = MR true t' m' /\ sk t'.
  Hypothesis la_no_eof : forall h, In h (lookaheads P) -> ~ In KEOF (la_expected h) /\ ~ In KEOF (la_skip h).

  Notation W := (W P sk I).
  Notation qwf := (qwf P sk).
  Notation rest_ok := (rest_ok P).
  Notation upto := (upto P).
  Notation eofs := (eofs P).

  (* the pending tokens *)
  Definition T (c : ctx) : list Tok := upto (stream P c).

  Lemma read_T c t c1 : read P c = (t, c1) -> qwf c -> rest_ok c ->
    T c = t :: (if is_eof P t then [] else T c1).
  Proof.
    unfold read, T, stream, Delivery.eofs, Delivery.rest_ok. intros H [Hq Hqe] Hr.
    destruct (queue c) as [|q qs] eqn:Q.
    - destruct (rest c) as [|r rs] eqn:R; inversion H; subst; clear H; cbn [queue rest lineno app length Delivery.upto].
      + rewrite Nat.add_0_r, Hmkeof. reflexivity.
      + inversion Hr as [|? ? Hr1 Hr2]; subst. rewrite Hr1.
        replace (S (lineno c + S (length rs))) with (S (S (lineno c) + length rs)) by lia. reflexivity.
    - inversion H; subst; clear H. cbn [queue rest lineno app length Delivery.upto set_queue]. destruct (is_eof P t); reflexivity.
  Qed.

  Lemma T_same c c' : queue c' = queue c -> rest c' = rest c -> lineno c' = lineno c -> T c' = T c.
  Proof. intros A B C. unfold T, stream, Delivery.eofs. now rewrite A, B, C. Qed.

  (* ---- matcher-level correspondences ---- *)
  (* same queue, scanner, builder state, errors *)
  Definition fr4 (c c' : ctx) : Prop :=
    queue c' = queue c /\ rest c' = rest c /\ lineno c' = lineno c /\ bs c' = bs c /\ errs c' = errs c.
  Lemma fr4_refl c : fr4 c c. Proof. repeat split. Qed.
  Lemma fr4_trans a b c : fr4 a b -> fr4 b c -> fr4 a c.
  Proof. intros (A1 & A2 & A3 & A4 & A5) (B1 & B2 & B3 & B4 & B5). repeat split; congruence. Qed.

  Definition cm {A} (c : ctx) (r : res A) (o : mr (A * MS)) : Prop :=
    match r, o with
    | Ok a c', MrOk (a', m') => a = a' /\ ms c' = m' /\ fr4 c c'
    | Raise1 e c', MrRaise e' m' => e = e' /\ ms c' = m' /\ fr4 c c'
    | _, _ => False
    end.

  Definition pack (x : bool * Tok * MS) : (bool * Tok) * MS := (fst x, snd x).
  Definition mrmap {A B} (f : A -> B) (o : mr A) : mr B :=
    match o with MrOk a => MrOk (f a) | MrRaise e m => MrRaise e m | MrCrash => MrCrash end.

  Lemma match_k_M k t c : cm c (match_k P true k t c) (mrmap pack (m_match P k t (ms c))).
  Proof.
    unfold match_k, m_match. destruct (_ && _); cbn [mrmap pack cm fst snd]; [repeat split|].
    cbn [ms bump]. destruct (matchf P k (ms c) t) as [b t' m'|e t' m']; cbn [mrmap pack cm fst snd]; repeat split.
  Qed.

  Lemma any_match_M ks : forall t c, cm c (any_match P true ks t c) (mrmap pack (m_any P ks t (ms c))).
  Proof.
    induction ks as [|k ks IH]; intros t c; cbn [any_match m_any]; [cbn; repeat split|].
    pose proof (match_k_M k t c) as M.
    destruct (match_k P true k t c) as [[b t1] c1|e c1|es c1|c1|]; destruct (m_match P k t (ms c)) as [[[b' t1'] m1']|e' m1'|];
      cbn [mrmap pack cm fst snd bind] in *; try contradiction.
    - destruct M as (E & Em & F). inversion E; subst. destruct b'; [cbn [mrmap pack cm fst snd]; auto|].
      pose proof (IH t1' c1) as R. destruct (any_match P true ks t1' c1) as [[b2 t2] c2|e2 c2|es2 c2|c2|];
        destruct (m_any P ks t1' (ms c1)) as [[[b2' t2'] m2']|e2' m2'|]; cbn [mrmap pack cm fst snd] in *; try contradiction.
      + destruct R as (E2 & Em2 & F2). split; [exact E2|]. split; [exact Em2 | exact (fr4_trans _ _ _ F F2)].
      + destruct R as (E2 & Em2 & F2). split; [exact E2|]. split; [exact Em2 | exact (fr4_trans _ _ _ F F2)].
    - exact M.
  Qed.

  (* ---- facts about m_any ---- *)
  Lemma m_match_eof k t m b t1 m1 : m_match P k t m = MrOk (b, t1, m1) -> is_eof P t1 = is_eof P t.
  Proof.
    unfold m_match. destruct (_ && _); [intros H; now inversion H|]. pose proof (Heof k m t) as E.
    destruct (matchf P k m t) as [b' t' m'|e t' m']; [|discriminate]. intros H. inversion H; subst. exact E.
  Qed.
  Lemma m_any_eof ks : forall t m b t1 m1, m_any P ks t m = MrOk (b, t1, m1) -> is_eof P t1 = is_eof P t.
  Proof.
    induction ks as [|k ks IH]; intros t m b t1 m1; cbn [m_any]; [intros H; now inversion H|].
    destruct (m_match P k t m) as [[[b' t'] m']|e m'|] eqn:M; try discriminate.
    pose proof (m_match_eof _ _ _ _ _ _ M) as E. destruct b'; [intros H; inversion H; subst; exact E|].
    intros H. rewrite (IH _ _ _ _ _ H). exact E.
  Qed.
  Lemma m_match_I k t m b t1 m1 : I m -> m_match P k t m = MrOk (b, t1, m1) -> I m1.
  Proof.
    intros Hi. unfold m_match. destruct (_ && _); [intros H; inversion H; subst; exact Hi|]. pose proof (HI k m t Hi) as E.
    destruct (matchf P k m t) as [b' t' m'|e t' m']; [|discriminate]. intros H. inversion H; subst. exact E.
  Qed.
  Lemma m_any_I ks : forall t m b t1 m1, I m -> m_any P ks t m = MrOk (b, t1, m1) -> I m1.
  Proof.
    induction ks as [|k ks IH]; intros t m b t1 m1 Hi; cbn [m_any]; [intros H; inversion H; subst; exact Hi|].
    destruct (m_match P k t m) as [[[b' t'] m']|e m'|] eqn:M; try discriminate.
    pose proof (m_match_I _ _ _ _ _ _ Hi M) as E. destruct b'; [intros H; inversion H; subst; exact E|]. apply IH. exact E.
  Qed.
  Lemma m_any_at_eof ks : ~ In KEOF ks -> forall t m, is_eof P t = true -> m_any P ks t m = MrOk (false, t, m).
  Proof.
    induction ks as [|k ks IH]; intros N t m E; cbn [m_any]; [reflexivity|].
    unfold m_match. assert (Nk : kind_beq k KEOF = false).
    { destruct (kind_beq k KEOF) eqn:B; [|reflexivity]. apply kind_beq_eq in B. subst k. exfalso. apply N. now left. }
    rewrite Nk, E. cbn [negb andb]. apply IH; [|exact E]. intros X. apply N. now right.
  Qed.

  Lemma upto_cons t l : upto (t :: l) = t :: (if is_eof P t then [] else upto l).
  Proof. cbn [Delivery.upto]. destruct (is_eof P t); reflexivity. Qed.

  (* ---- the look-ahead ---- *)
  Definition la_rel (c : ctx) (acc : list Tok) (r : res (bool * list Tok)) (o : mr (bool * MS * list Tok)) : Prop :=
    match r, o with
    | Ok (b, acc') c1, MrOk (b', m', ups') =>
      b = b' /\ ms c1 = m' /\ bs c1 = bs c /\ errs c1 = errs c /\
      exists toks, acc' = acc ++ toks /\ queue c1 = [] /\ ups' = upto (toks ++ rest c1 ++ [eofs c1])
    | Raise1 e c1, MrRaise e' m' => e = e' /\ ms c1 = m' /\ bs c1 = bs c /\ errs c1 = errs c
    | _, _ => False
    end.

  Lemma la_loop_T h : In h (lookaheads P) -> forall fuel c acc, W c -> sz c < fuel ->
    la_rel c acc (la_loop P fuel true h c acc) (m_la_loop P h (T c) (ms c)).
  Proof.
    intros Hh. destruct (la_no_eof h Hh) as [Ne Ns].
    induction fuel as [|f IH]; intros c acc Hw Hf; [lia|].
    pose proof (la_loop_spec P K key sk I Hkey Heof Hmkeof HI sk_not_eof S1 S2 la_no_eof true h Hh (S f) c acc Hw Hf) as D.
    destruct Hw as (Hq & Hr & Hi). cbn [la_loop] in D |- *.
    destruct (read P c) as [t c0] eqn:R.
    destruct (read_spec P K key sk Hmkeof c t c0 R Hq Hr) as (_ & M0 & B0 & E0 & Hq0 & Hr0 & _ & Hsz & _ & _ & Hre).
    rewrite (read_T c t c0 R Hq Hr). cbn [m_la_loop]. rewrite <- M0.
    pose proof (any_match_M (la_expected h) t c0) as M1.
    destruct (any_match P true (la_expected h) t c0) as [[b1 t1] c2|e1 c2|es1 c2|c2|];
      destruct (m_any P (la_expected h) t (ms c0)) as [[[b1' t1'] m1']|e1' m1'|] eqn:A1; cbn [mrmap pack cm fst snd bind sat] in *; try contradiction.
    - destruct M1 as (E1 & Em1 & (Fq & Fr & Fl & Fb & Fe)). inversion E1; subst b1' t1'. clear E1.
      pose proof (m_any_eof _ _ _ _ _ _ A1) as Ee1. pose proof (m_any_I _ _ _ _ _ _ (eq_ind_r I Hi M0) A1) as Hi1.
      destruct b1; cbn [fst snd bind sat la_rel] in *.
      + (* the look-ahead found what it waits for *)
        destruct D as (_ & Q2 & _). split; [reflexivity|]. split; [exact Em1|]. split; [congruence|]. split; [congruence|].
        exists [t1]. split; [reflexivity|]. split; [exact Q2|]. cbn [app]. rewrite upto_cons, Ee1. destruct (is_eof P t) eqn:Et; [reflexivity|].
        f_equal. unfold T, stream, Delivery.eofs. rewrite <- Fq, Q2, Fr, Fl. reflexivity.
      + pose proof (any_match_M (la_skip h) t1 c2) as M2.
        destruct (any_match P true (la_skip h) t1 c2) as [[b2 t2] c3|e2 c3|es2 c3|c3|];
          destruct (m_any P (la_skip h) t1 (ms c2)) as [[[b2' t2'] m2']|e2' m2'|] eqn:A2; rewrite <- ?Em1 in *; rewrite A2 in *;
          cbn [mrmap pack cm fst snd bind sat] in *; try contradiction.
        * destruct M2 as (E2 & Em2 & (Gq & Gr & Gl & Gb & Ge)). inversion E2; subst b2' t2'. clear E2.
          pose proof (m_any_eof _ _ _ _ _ _ A2) as Ee2. pose proof (m_any_I _ _ _ _ _ _ Hi1 A2) as Hi2.
          destruct b2; cbn [fst snd bind sat la_rel] in *.
          -- (* skipped: go on *)
             assert (Et : is_eof P t = false).
             { destruct (is_eof P t) eqn:Et; [|reflexivity]. rewrite (m_any_at_eof _ Ns t1 (ms c2)) in A2 by congruence. discriminate A2. }
             rewrite Et in *.
             assert (Hw3 : W c3) by (split; [unfold Delivery.qwf in *; rewrite Gq, Gr, Fq, Fr; exact Hq0 | split; [unfold Delivery.rest_ok in *; rewrite Gr, Fr; exact Hr0 | rewrite Em2; exact Hi2]]).
             assert (Hs3 : sz c3 < f) by (specialize (Hsz eq_refl); unfold sz in *; rewrite Gq, Gr, Fq, Fr; lia).
             pose proof (IH c3 (acc ++ [t2]) Hw3 Hs3) as R3.
             assert (T3 : T c3 = T c0) by (apply T_same; congruence). rewrite T3, Em2 in R3.
             destruct (la_loop P f true h c3 (acc ++ [t2])) as [[b acc'] c1|e c1|es c1|c1|];
               destruct (m_la_loop P h (T c0) m2') as [[[b' m'] ups']|e' m'|]; cbn [la_rel] in *; try contradiction.
             ++ destruct R3 as (Eb & Em & Ebs & Eer & toks & Ea & Q1 & Eu). split; [exact Eb|]. split; [exact Em|]. split; [congruence|]. split; [congruence|].
                exists (t2 :: toks). split; [rewrite Ea, <- app_assoc; reflexivity|]. split; [exact Q1|].
                cbn [app]. rewrite upto_cons, Ee2, Ee1, Eu. reflexivity.
             ++ destruct R3 as (Ee & Em & Ebs & Eer). repeat split; congruence.
          -- (* neither: the look-ahead says no *)
             destruct D as (_ & Q3 & _). split; [reflexivity|]. split; [exact Em2|]. split; [congruence|]. split; [congruence|].
             exists [t2]. split; [reflexivity|]. split; [exact Q3|]. cbn [app]. rewrite upto_cons, Ee2, Ee1. destruct (is_eof P t) eqn:Et; [reflexivity|].
             f_equal. unfold T, stream, Delivery.eofs. replace (queue c0) with (@nil Tok) by congruence.
             replace (rest c3) with (rest c0) by congruence. replace (lineno c3) with (lineno c0) by congruence. reflexivity.
        * destruct M2 as (E2 & Em2 & (Gq & Gr & Gl & Gb & Ge)). repeat split; congruence.
    - destruct M1 as (E1 & Em1 & (Fq & Fr & Fl & Fb & Fe)). repeat split; congruence.
  Qed.

  Definition lk_rel (c : ctx) (r : res bool) (o : mr (bool * MS * list Tok)) : Prop :=
    match r, o with
    | Ok b c2, MrOk (b', m', ups') => b = b' /\ ms c2 = m' /\ bs c2 = bs c /\ errs c2 = errs c /\ T c2 = ups' /\ W c2
    | Raise1 e c2, MrRaise e' m' => e = e' /\ ms c2 = m' /\ bs c2 = bs c /\ errs c2 = errs c
    | Crash c2, MrCrash => True
    | _, _ => False
    end.

  Lemma lookahead_T h c : W c -> lk_rel c (lookahead P true h c) (m_la P h (T c) (ms c)).
  Proof.
    intros Hw. pose proof (lookahead_spec P K key sk I Hkey Heof Hmkeof HI sk_not_eof S1 S2 la_no_eof true h c Hw) as D.
    unfold lookahead, m_la in *. destruct (find_la P h) as [x|] eqn:Fl; [|exact Logic.I].
    assert (Hx : In x (lookaheads P)) by (unfold find_la in Fl; apply find_some in Fl; tauto).
    pose proof (la_loop_T x Hx (S (length (queue c) + length (rest c))) c [] Hw ltac:(unfold sz; lia)) as R.
    destruct (la_loop P _ true x c []) as [[b acc'] c1|e c1|es c1|c1|];
      destruct (m_la_loop P x (T c) (ms c)) as [[[b' m'] ups']|e' m'|]; cbn [la_rel lk_rel bind sat fst snd] in *; try contradiction.
    - destruct R as (Eb & Em & Ebs & Eer & toks & Ea & Q1 & Eu). destruct D as (W2 & _).
      split; [exact Eb|]. split; [exact Em|]. split; [exact Ebs|]. split; [exact Eer|]. split; [|exact W2].
      unfold T, stream, Delivery.eofs. cbn [queue rest lineno set_queue]. rewrite Q1, Ea, Eu. reflexivity.
    - exact R.
  Qed.

  (* ---- builder calls ---- *)
  Definition ex_rel (c : ctx) (r : res unit) (o : mo unit) : Prop :=
    match r, o with
    | Ok _ c', MoOk _ m' b' => ms c' = m' /\ bs c' = b' /\ queue c' = queue c /\ rest c' = rest c /\ lineno c' = lineno c /\ errs c' = errs c /\ ms c' = ms c
    | Raise1 e c', MoRaise e' m' b' => e = e' /\ ms c' = m' /\ bs c' = b'
    | Crash _, MoCrash => True
    | _, _ => False
    end.

  Lemma exec_T t k : forall ps c, ex_rel c (exec P true t k ps c) (m_exec P t ps (ms c) (bs c)).
  Proof.
    induction ps as [|p ps IH]; intros c; cbn [exec m_exec ex_rel]; [repeat split|].
    assert (G : forall f ev0, (f = match p with PS r => b_start P r | PE r => b_end P r | PB => b_build P t end) ->
                ex_rel c (bind (b_call P true f (emit ev0 c)) (fun _ c' => exec P true t k ps c'))
                       (match f (bs c) with BOk b' => m_exec P t ps (ms c) b' | BRaise e b' => MoRaise e (ms c) b' | BCrash => MoCrash end)).
    { intros f ev0 _. unfold b_call. cbn [bs emit]. destruct (f (bs c)) as [b'|e b'|]; cbn [bind ex_rel]; [|repeat split | exact Logic.I].
      pose proof (IH (set_bs b' (emit ev0 c))) as R. cbn [ms bs set_bs emit] in R.
      destruct (exec P true t k ps (set_bs b' (emit ev0 c))) as [[] c'|e c'|es c'|c'|]; destruct (m_exec P t ps (ms c) b') as [[] m' b2|e' m' b2|];
        cbn [ex_rel] in *; try contradiction; auto. }
    destruct p; [exact (G _ _ eq_refl) | exact (G _ _ eq_refl) | exact (G _ _ eq_refl)].
  Qed.

  (* ---- the tests of a state ---- *)
  Definition rt_rel (c : ctx) (exp : list kind) (r : res (option nat * Tok)) (o : mo (nat * list Tok)) : Prop :=
    match r, o with
    | Ok (Some s', _) c', MoOk (s'', ups') m' b' => s' = s'' /\ ms c' = m' /\ bs c' = b' /\ errs c' = errs c /\ T c' = ups' /\ W c'
    | Ok (None, t1) c', MoRaise e m' b' => e = mk_unexpected P t1 exp /\ ms c' = m' /\ bs c' = b' /\ errs c' = errs c
    | Raise1 e c', MoRaise e' m' b' => e = e' /\ ms c' = m' /\ bs c' = b'
    | Crash _, MoCrash => True
    | _, _ => False
    end.

  Lemma W_frame c c' : queue c' = queue c -> rest c' = rest c -> I (ms c') -> W c -> W c'.
  Proof. intros Q R Hi (A & B & _). unfold Delivery.W, Delivery.qwf, Delivery.rest_ok in *. rewrite Q, R. auto. Qed.

  Lemma run_tests_T exp : forall tests t c, W c -> rt_rel c exp (run_tests P true tests t c) (m_tests P tests exp t (ms c) (bs c) (T c)).
  Proof.
    induction tests as [|x xs IH]; intros t c Hw; cbn [run_tests m_tests rt_rel]; [repeat split|].
    pose proof (match_k_M (t_kind x) t c) as M1.
    destruct (match_k P true (t_kind x) t c) as [[b1 t1] c1|e1 c1|es1 c1|c1|];
      destruct (m_match P (t_kind x) t (ms c)) as [[[b1' t1'] m1']|e1' m1'|] eqn:A1; cbn [mrmap pack cm fst snd bind] in *; try contradiction.
    - destruct M1 as (E1 & Em1 & (Fq & Fr & Fl & Fb & Fe)). inversion E1; subst b1' t1'. clear E1.
      assert (Hi1 : I (ms c1)) by (rewrite Em1; destruct Hw as (_ & _ & Hi); exact (m_match_I _ _ _ _ _ _ Hi A1)).
      assert (Hw1 : W c1) by (apply (W_frame c); assumption).
      assert (T1 : T c1 = T c) by (apply T_same; assumption).
      destruct b1.
      + destruct (t_guard x) as [h|].
        * pose proof (lookahead_T h c1 Hw1) as L. rewrite T1, Em1 in L.
          destruct (lookahead P true h c1) as [bb c2|e2 c2|es2 c2|c2|]; destruct (m_la P h (T c) m1') as [[[bb' m2'] ups2]|e2' m2'|];
            cbn [lk_rel bind] in *; try contradiction.
          -- destruct L as (Eb & Em2 & Eb2 & Ee2 & T2 & W2). subst bb'. destruct bb.
             ++ pose proof (exec_T t1 (t_kind x) (t_prods x) c2) as X. rewrite Em2, Eb2, Fb in X.
                destruct (exec P true t1 (t_kind x) (t_prods x) c2) as [[] c3|e3 c3|es3 c3|c3|]; destruct (m_exec P t1 (t_prods x) m2' (bs c)) as [[] m3 b3|e3' m3 b3|];
                  cbn [ex_rel bind rt_rel] in *; try contradiction; auto.
                destruct X as (Em3 & Eb3 & Xq & Xr & Xl & Xe & Xm). split; [reflexivity|]. split; [exact Em3|]. split; [exact Eb3|]. split; [congruence|].
                split; [rewrite <- T2; apply T_same; assumption|]. apply (W_frame c2); [assumption | assumption | rewrite Xm; apply W2 | exact W2].
             ++ pose proof (IH t1 c2 W2) as R. rewrite Em2, Eb2, Fb, T2 in R.
                destruct (run_tests P true xs t1 c2) as [[o t2] c3|e3 c3|es3 c3|c3|]; destruct (m_tests P xs exp t1 m2' (bs c) ups2) as [[s3 ups3] m3 b3|e3' m3 b3|];
                  cbn [rt_rel] in *; try contradiction; auto.
                ** destruct o as [s'|]; [|contradiction]. destruct R as (A & B & C & D & E & F). split; [exact A|]. split; [exact B|]. split; [exact C|]. split; [congruence|]. split; [exact E | exact F].
                ** destruct o as [s'|]; [contradiction|]. destruct R as (A & B & C & D). split; [exact A|]. split; [exact B|]. split; [exact C | congruence].
          -- destruct L as (A & B & C & D). repeat split; congruence.
          -- exact Logic.I.
        * pose proof (exec_T t1 (t_kind x) (t_prods x) c1) as X. rewrite Em1, Fb in X.
          destruct (exec P true t1 (t_kind x) (t_prods x) c1) as [[] c3|e3 c3|es3 c3|c3|]; destruct (m_exec P t1 (t_prods x) m1' (bs c)) as [[] m3 b3|e3' m3 b3|];
            cbn [ex_rel bind rt_rel] in *; try contradiction; auto.
          destruct X as (Em3 & Eb3 & Xq & Xr & Xl & Xe & Xm). split; [reflexivity|]. split; [exact Em3|]. split; [exact Eb3|]. split; [congruence|].
          split; [rewrite <- T1; apply T_same; assumption|]. apply (W_frame c1); [assumption | assumption | rewrite Xm; exact Hi1 | exact Hw1].
      + pose proof (IH t1 c1 Hw1) as R. rewrite Em1, Fb, T1 in R.
        destruct (run_tests P true xs t1 c1) as [[o t2] c3|e3 c3|es3 c3|c3|]; destruct (m_tests P xs exp t1 m1' (bs c) (T c)) as [[s3 ups3] m3 b3|e3' m3 b3|];
          cbn [rt_rel] in *; try contradiction; auto.
        * destruct o as [s'|]; [|contradiction]. destruct R as (A & B & C & D & E & F). split; [exact A|]. split; [exact B|]. split; [exact C|]. split; [congruence|]. split; [exact E | exact F].
        * destruct o as [s'|]; [contradiction|]. destruct R as (A & B & C & D). split; [exact A|]. split; [exact B|]. split; [exact C | congruence].
    - destruct M1 as (E1 & Em1 & (Fq & Fr & Fl & Fb & Fe)). repeat split; congruence.
  Qed.

  (* ---- one token ---- *)
  Definition mt_rel (c : ctx) (r : res nat) (o : mo (nat * list Tok)) : Prop :=
    match r, o with
    | Ok s' c', MoOk (s'', ups') m' b' => s' = s'' /\ ms c' = m' /\ bs c' = b' /\ errs c' = errs c /\ T c' = ups' /\ W c'
    | Raise1 e c', MoRaise e' m' b' => e = e' /\ ms c' = m' /\ bs c' = b'
    | Crash _, MoCrash => True
    | _, _ => False
    end.

  Lemma match_token_T s t c : W c -> mt_rel c (match_token P true s t c) (m_step P s t (ms c) (bs c) (T c)).
  Proof.
    intros Hw. unfold match_token, m_step. destruct (find_state P s) as [x|]; [|exact Logic.I].
    pose proof (run_tests_T (s_expected x) (s_tests x) t c Hw) as R.
    destruct (run_tests P true (s_tests x) t c) as [[o t1] c1|e c1|es c1|c1|];
      destruct (m_tests P (s_tests x) (s_expected x) t (ms c) (bs c) (T c)) as [[s3 ups3] m3 b3|e3 m3 b3|];
      cbn [rt_rel mt_rel bind fst snd] in *; try contradiction; auto.
    - destruct o as [s'|]; [exact R | contradiction].
    - destruct o as [s'|]; [contradiction|]. cbn [mt_rel ms bs emit]. destruct R as (A & B & C & D). auto.
    - destruct o; contradiction.
  Qed.

  (* ---- facts about the machine: a look-ahead only re-marks the pending tokens; at the end of file they are not used ---- *)
  Lemma m_la_loop_len h : forall ups m b m' ups', m_la_loop P h ups m = MrOk (b, m', ups') -> length ups' = length ups.
  Proof.
    induction ups as [|t r IH]; intros m b m' ups'; cbn [m_la_loop]; [intros H; now inversion H|].
    destruct (m_any P (la_expected h) t m) as [[[b1 t1] m1]|e1 m1|]; try discriminate.
    destruct b1; [intros H; inversion H; reflexivity|].
    destruct (m_any P (la_skip h) t1 m1) as [[[b2 t2] m2]|e2 m2|]; try discriminate.
    destruct b2; [|intros H; inversion H; reflexivity].
    destruct (m_la_loop P h r m2) as [[[b3 m3] r3]|e3 m3|] eqn:L; try discriminate.
    intros H. inversion H; subst. cbn [length]. f_equal. exact (IH _ _ _ _ L).
  Qed.
  Lemma m_tests_len exp : forall tests t m b ups s' ups' m' b', m_tests P tests exp t m b ups = MoOk (s', ups') m' b' -> length ups' = length ups.
  Proof.
    induction tests as [|x xs IH]; intros t m b ups s' ups' m' b'; cbn [m_tests]; [discriminate|].
    destruct (m_match P (t_kind x) t m) as [[[b1 t1] m1]|e1 m1|]; try discriminate.
    destruct b1; [|apply IH].
    destruct (t_guard x) as [h|].
    - unfold m_la. destruct (find_la P h) as [y|]; [|discriminate].
      destruct (m_la_loop P y ups m1) as [[[bb m2] ups2]|e2 m2|] eqn:L; try discriminate.
      pose proof (m_la_loop_len _ _ _ _ _ _ L) as E. destruct bb.
      + destruct (m_exec P t1 (t_prods x) m2 b) as [[] m3 b3|e3 m3 b3|]; try discriminate. intros H. inversion H; subst. exact E.
      + intros H. rewrite (IH _ _ _ _ _ _ _ _ H). exact E.
    - destruct (m_exec P t1 (t_prods x) m1 b) as [[] m3 b3|e3 m3 b3|]; try discriminate. intros H. inversion H; subst. reflexivity.
  Qed.

  Definition mo_same (o1 o2 : mo (nat * list Tok)) : Prop :=
    match o1, o2 with
    | MoOk (s1, _) m1 b1, MoOk (s2, _) m2 b2 => s1 = s2 /\ m1 = m2 /\ b1 = b2
    | MoRaise e1 m1 b1, MoRaise e2 m2 b2 => e1 = e2 /\ m1 = m2 /\ b1 = b2
    | MoCrash, MoCrash => True
    | _, _ => False
    end.
  Lemma m_tests_eof exp u1 u2 : forall tests t m b, is_eof P t = true ->
    (forall y, In y tests -> t_kind y = KEOF -> t_guard y = None) ->
    mo_same (m_tests P tests exp t m b u1) (m_tests P tests exp t m b u2).
  Proof.
    induction tests as [|x xs IH]; intros t m b Et Hg; cbn [m_tests mo_same]; [auto|].
    assert (Hg' : forall y, In y xs -> t_kind y = KEOF -> t_guard y = None) by (intros y Iy; apply Hg; now right).
    destruct (m_match P (t_kind x) t m) as [[[b1 t1] m1]|e1 m1|] eqn:M; cbn [mo_same]; auto.
    pose proof (m_match_eof _ _ _ _ _ _ M) as E1. rewrite Et in E1.
    destruct b1; [|apply IH; assumption].
    assert (Kx : t_kind x = KEOF).
    { unfold m_match in M. destruct (kind_beq (t_kind x) KEOF) eqn:B; [now apply kind_beq_eq in B|]. rewrite Et in M. cbn in M. discriminate M. }
    rewrite (Hg x (or_introl eq_refl) Kx). destruct (m_exec P t1 (t_prods x) m1 b) as [[] m3 b3|e3 m3 b3|]; cbn [mo_same]; auto.
  Qed.

  (* ---- the loop ---- *)
  Hypothesis Heof_unguarded : forall x y, In x (table P) -> In y (s_tests x) -> t_kind y = KEOF -> t_guard y = None.

  Definition lp_rel (r : res nat) (o : mo nat) : Prop :=
    match r, o with
    | Ok s' c', MoOk s'' m' b' => s' = s'' /\ ms c' = m' /\ bs c' = b' /\ errs c' = []
    | Raise1 e c', MoRaise e' m' b' => e = e' /\ ms c' = m' /\ bs c' = b'
    | Crash _, MoCrash => True
    | _, _ => False
    end.

  Lemma loop_T : forall fuel s c, W c -> errs c = [] -> length (T c) <= fuel ->
    lp_rel (loop P fuel true s c) (m_loop P fuel s (ms c) (bs c) (T c)).
  Proof.
    induction fuel as [|f IH]; intros s c Hw He Hf.
    - exfalso. destruct Hw as (Hq & Hr & _). destruct (read P c) as [t c1] eqn:R. rewrite (read_T c t c1 R Hq Hr) in Hf. cbn in Hf. lia.
    - cbn [loop m_loop]. pose proof Hw as (Hq & Hr & Hi). destruct (read P c) as [t c1] eqn:R.
      destruct (read_spec P K key sk Hmkeof c t c1 R Hq Hr) as (_ & M0 & B0 & E0 & Hq0 & Hr0 & _).
      pose proof (read_T c t c1 R Hq Hr) as Tc. rewrite Tc in Hf |- *.
      assert (Hw1 : W c1) by (split; [exact Hq0 | split; [exact Hr0 | rewrite M0; exact Hi]]).
      pose proof (match_token_T s t c1 Hw1) as Mt. rewrite M0, B0 in Mt.
      destruct (is_eof P t) eqn:Et.
      + (* the end-of-file token: the pending tokens are not looked at *)
        assert (Sm : mo_same (m_step P s t (ms c) (bs c) (T c1)) (m_step P s t (ms c) (bs c) [])).
        { unfold m_step. destruct (find_state P s) as [x|] eqn:Fs; [|exact Logic.I]. apply m_tests_eof; [exact Et|].
          intros y Iy. apply (Heof_unguarded x y); [unfold find_state in Fs; apply find_some in Fs; tauto | exact Iy]. }
        destruct (match_token P true s t c1) as [s' c2|e c2|es c2|c2|]; destruct (m_step P s t (ms c) (bs c) (T c1)) as [[s2 u2] m2 b2|e2 m2 b2|];
          cbn [mt_rel bind] in Mt; try contradiction;
          destruct (m_step P s t (ms c) (bs c) []) as [[s3 u3] m3 b3|e3 m3 b3|]; cbn [mo_same lp_rel] in *; try contradiction; auto.
        * destruct Mt as (A & B & C & D & _). destruct Sm as (X & Y & Z). repeat split; congruence.
        * destruct Mt as (A & B & C). destruct Sm as (X & Y & Z). repeat split; congruence.
      + destruct (match_token P true s t c1) as [s' c2|e c2|es c2|c2|]; destruct (m_step P s t (ms c) (bs c) (T c1)) as [[s2 u2] m2 b2|e2 m2 b2|] eqn:Ms;
          cbn [mt_rel bind lp_rel] in *; try contradiction; auto.
        destruct Mt as (A & B & C & D & E & F). subst s2 m2 b2 u2.
        assert (Len : length (T c2) = length (T c1)).
        { unfold m_step in Ms. destruct (find_state P s); [|discriminate]. exact (m_tests_len _ _ _ _ _ _ _ _ _ _ Ms). }
        apply IH; [exact F | congruence | cbn [length] in Hf; lia].
  Qed.

  (* ---- the whole run ---- *)
  Definition pm_rel (r : res unit) (o : mo unit) : Prop :=
    match r, o with
    | Ok _ c, MoOk _ m' b' => ms c = m' /\ bs c = b' /\ errs c = []
    | Raise1 e c, MoRaise e' m' b' => e = e' /\ ms c = m' /\ bs c = b'
    | Crash _, MoCrash => True
    | _, _ => False
    end.

  Theorem parse_machine toks m b : Forall (fun t => is_eof P t = false) toks -> I m ->
    pm_rel (parse P true toks m b) (m_parse P toks m b).
  Proof.
    intros Ht Hi. unfold parse, m_parse, b_call. cbn [bs emit init_ctx].
    destruct (b_start P RGherkinDocument b) as [b1|e b1|]; cbn [bind pm_rel]; [|repeat split | exact Logic.I].
    set (c1 := set_bs b1 (emit (EvS RGherkinDocument) (init_ctx toks m b))).
    assert (Hw : W c1).
    { split; [split; [constructor | intros t []]|]. split; [exact Ht | exact Hi]. }
    assert (Tc : T c1 = toks ++ [mk_eof P (S (length toks))]).
    { unfold T, stream, Delivery.eofs, c1. cbn [queue rest lineno set_bs emit init_ctx app].
      rewrite (upto_app_noeof P toks _ Ht). cbn [Delivery.upto]. rewrite Hmkeof. reflexivity. }
    pose proof (loop_T (S (S (length toks))) (start_state P) c1 Hw eq_refl ltac:(rewrite Tc, app_length; cbn; lia)) as L.
    rewrite Tc in L. change (ms c1) with m in L. change (bs c1) with b1 in L.
    destruct (loop P (S (S (length toks))) true (start_state P) c1) as [s' c2|e c2|es c2|c2|];
      destruct (m_loop P (S (S (length toks))) (start_state P) m b1 (toks ++ [mk_eof P (S (length toks))])) as [s2 m2 b2|e2 m2 b2|];
      cbn [lp_rel bind pm_rel] in *; try contradiction; auto.
    destruct L as (_ & Em & Eb & Ee). cbn [bs emit]. rewrite Eb.
    destruct (b_end P RGherkinDocument b2) as [b3|e3 b3|]; cbn [bind pm_rel set_bs emit ms bs errs]; [|repeat split; assumption | exact Logic.I].
    rewrite Ee. cbn [pm_rel ms bs errs]. repeat split; assumption.
  Qed.
End MachineEq.
