(* C15 / C17: the envelopes of a source depend on the running id counter only as an offset. *)
From Coq Require Import String List Bool Arith Lia.
Import ListNotations.
Require Import Kinds PyStr Line Matcher Ast Builder Compiler Pipeline Dialects Stream IdShift IdShiftParse CompileShift.

Section K.
  Variable k : nat.
  Definition sh_env (e : envelope) : envelope :=
    match e with
    | EnvDocument uri d => EnvDocument uri (sh_doc k d)
    | EnvPickle p => EnvPickle (sh_pickle k p)
    | x => x
    end.
  Definition esh (r : option (list envelope * nat)) : option (list envelope * nat) :=
    option_map (fun r => (map sh_env (fst r), snd r + k)) r.

  Lemma new_builder_shift i : new_builder (i + k) = bshift k (new_builder i).
  Proof. reflexivity. Qed.
  Lemma create_errors_shift uri es : map sh_env (create_errors uri es) = create_errors uri es.
  Proof. unfold create_errors. rewrite map_map. reflexivity. Qed.

  Theorem enum_source_shift o i uri data : enum_source o (i + k) uri data = esh (enum_source o i uri data).
  Proof.
    unfold enum_source. destruct (new_matcher dialects EN) as [m0|]; [|reflexivity].
    rewrite new_builder_shift, parse_source_shift.
    destruct (parse_source (stop_first o) m0 (new_builder i) data) as [d m b n|es m b n|e m b n| |]; cbn [pshift]; try reflexivity.
    - cbv zeta. change (b_idc (bshift k b)) with (b_idc b + k).
      destruct (print_pickles o).
      + rewrite compile_shift. destruct (compile uri d (b_idc b)) as [[ps i']|]; cbn [osh esh option_map fst snd]; [|reflexivity].
        rewrite map_app, !map_map. destruct (print_source o), (print_ast o); reflexivity.
      + cbn [esh option_map fst snd]. destruct (print_source o), (print_ast o); reflexivity.
    - cbn [esh option_map fst snd]. rewrite create_errors_shift. reflexivity.
  Qed.
End K.

(* each source's envelopes are those of the source alone with a fresh generator, every id raised by the counter *)
Corollary enum_source_fresh o i uri data : enum_source o i uri data = esh i (enum_source o 0 uri data).
Proof. exact (enum_source_shift i o 0 uri data). Qed.
