(* C12 / C04: GherkinLine.split_table_cells and table_cells against a declarative
   reading: lex the row into tokens (pipe, escape pair, plain character), split the
   token list at the pipes, drop the first and the last piece; the value of a cell
   is the concatenation of the tokens' values, its column the 1-based raw position
   of its first character. *)
From Coq Require Import List Bool Arith NArith Lia.
Import ListNotations.
Require Import PyStr Line.

Local Open Scope N_scope.

Inductive tok := TPipe | TEsc (d : N) | TChr (c : N) | TLone.

Fixpoint lex (row : str) : list tok :=
  match row with
  | [] => []
  | c :: r =>
    if c =? PIPE then TPipe :: lex r
    else if c =? BSL then
      match r with
      | [] => [TLone]
      | d :: r' => TEsc d :: lex r'
      end
    else TChr c :: lex r
  end.

Definition raw (t : tok) : str :=
  match t with TPipe => [PIPE] | TEsc d => [BSL; d] | TChr c => [c] | TLone => [BSL] end.

(* '\n' -> line feed, '\|' -> '|', '\\' -> '\', any other pair kept as written *)
Definition val (t : tok) : str :=
  match t with
  | TPipe => [PIPE]
  | TEsc d => if d =? CH_n then [LF] else if (d =? PIPE) || (d =? BSL) then [d] else [BSL; d]
  | TChr c => [c]
  | TLone => [BSL]
  end.

Definition raws (ts : list tok) : str := flat_map raw ts.
Definition vals (ts : list tok) : str := flat_map val ts.
Definition is_pipe (t : tok) : bool := match t with TPipe => true | _ => false end.

(* two-step induction on strings *)
Lemma str_ind2 (P : str -> Prop) :
  P [] -> (forall c, P [c]) -> (forall c d r, P r -> P (d :: r) -> P (c :: d :: r)) -> forall s, P s.
Proof.
  intros H0 H1 H2 s. enough (P s /\ forall c, P (c :: s)) by tauto.
  induction s as [|d r [IH1 IH2]]; split; auto.
Qed.

(* the tokens partition the row *)
Lemma lex_raws row : raws (lex row) = row.
Proof.
  induction row as [|c|c d r IH1 IH2] using str_ind2; simpl.
  - reflexivity.
  - destruct (c =? PIPE) eqn:E1; [apply N.eqb_eq in E1; now subst|].
    destruct (c =? BSL) eqn:E2; [apply N.eqb_eq in E2; now subst|]. reflexivity.
  - destruct (c =? PIPE) eqn:E1.
    + apply N.eqb_eq in E1. subst. simpl. f_equal. exact IH2.
    + destruct (c =? BSL) eqn:E2.
      * apply N.eqb_eq in E2. subst. simpl. f_equal. f_equal. exact IH1.
      * simpl. f_equal. exact IH2.
Qed.

(* ---- the code, over tokens ---- *)
Fixpoint split_toks (ts : list tok) (col start : nat) (cell : str) (first : bool) : list (str * nat) :=
  match ts with
  | [] => []
  | TPipe :: r =>
    if first then split_toks r (S col) (S (S col)) [] false
    else (rev cell, start) :: split_toks r (S col) (S (S col)) [] false
  | t :: r => split_toks r (col + length (raw t)) start (rev (val t) ++ cell) first
  end.

Lemma split_cells_cons c r col start cell first :
  split_cells (c :: r) col start cell first =
  if c =? PIPE then
    if first then split_cells r (S col) (S (S col)) [] false
    else (rev cell, start) :: split_cells r (S col) (S (S col)) [] false
  else if c =? BSL then
    match r with
    | [] => []
    | d :: r' =>
      if d =? CH_n then split_cells r' (S (S col)) start (LF :: cell) first
      else if (d =? PIPE) || (d =? BSL) then split_cells r' (S (S col)) start (d :: cell) first
      else split_cells r' (S (S col)) start (d :: BSL :: cell) first
    end
  else split_cells r (S col) start (c :: cell) first.
Proof. reflexivity. Qed.

Lemma lex_cons c r :
  lex (c :: r) =
  if c =? PIPE then TPipe :: lex r
  else if c =? BSL then match r with [] => [TLone] | d :: r' => TEsc d :: lex r' end
  else TChr c :: lex r.
Proof. reflexivity. Qed.

Lemma split_cells_toks row : forall col start cell first,
  split_cells row col start cell first = split_toks (lex row) col start cell first.
Proof.
  induction row as [|c|c d r IH1 IH2] using str_ind2; intros col start cell first.
  - reflexivity.
  - simpl. destruct (c =? PIPE); [destruct first; reflexivity|].
    destruct (c =? BSL); reflexivity.
  - rewrite split_cells_cons, lex_cons. destruct (c =? PIPE) eqn:E1.
    + cbn [split_toks]. destruct first; rewrite IH2; reflexivity.
    + destruct (c =? BSL) eqn:E2.
      * cbn [split_toks raw val length]. rewrite <- IH1.
        replace (col + 2)%nat with (S (S col)) by lia.
        destruct (d =? CH_n); [reflexivity|]. destruct ((d =? PIPE) || (d =? BSL)); reflexivity.
      * cbn [split_toks raw val length]. rewrite <- IH2.
        replace (col + 1)%nat with (S col) by lia. reflexivity.
Qed.

(* ---- the specification: split the tokens at the pipes ---- *)
(* pos = raw characters consumed so far; start = 1-based raw column of the current piece *)
Fixpoint segs_at (ts : list tok) (pos start : nat) (cur : list tok) : list (list tok * nat) :=
  match ts with
  | [] => [(rev cur, start)]
  | TPipe :: r => (rev cur, start) :: segs_at r (S pos) (S (S pos)) []
  | t :: r => segs_at r (pos + length (raw t)) start (t :: cur)
  end.

Lemma segs_at_nonempty ts : forall pos start cur, segs_at ts pos start cur <> [].
Proof. induction ts as [|t r IH]; intros; simpl; [discriminate|]. destruct t; try discriminate; apply IH. Qed.

Definition cell_of (p : list tok * nat) : str * nat := (vals (fst p), snd p).
Definition drop_first {A} (b : bool) (l : list A) : list A := if b then tl l else l.

Lemma removelast_cons {A} (x : A) l : l <> [] -> removelast (x :: l) = x :: removelast l.
Proof. destruct l; [congruence | reflexivity]. Qed.

Lemma vals_snoc ts t : vals (ts ++ [t]) = vals ts ++ val t.
Proof. unfold vals. rewrite flat_map_app. simpl. now rewrite app_nil_r. Qed.

Lemma split_toks_segs ts : forall col start cur first,
  split_toks ts col start (rev (vals (rev cur))) first
  = map cell_of (drop_first first (removelast (segs_at ts col start cur))).
Proof.
  induction ts as [|t r IH]; intros col start cur first.
  - simpl. destruct first; reflexivity.
  - assert (Step : forall t', is_pipe t' = false ->
              split_toks r (col + length (raw t')) start (rev (val t') ++ rev (vals (rev cur))) first
              = map cell_of (drop_first first (removelast (segs_at r (col + length (raw t')) start (t' :: cur))))).
    { intros t' _. rewrite <- IH. f_equal. simpl. rewrite vals_snoc, rev_app_distr. reflexivity. }
    destruct t; cbn [split_toks segs_at]; try (apply Step; reflexivity).
    rewrite removelast_cons by apply segs_at_nonempty.
    specialize (IH (S col) (S (S col)) [] false). simpl in IH.
    destruct first; simpl; rewrite IH; [reflexivity|].
    unfold cell_of at 2. simpl. rewrite rev_involutive. reflexivity.
Qed.

Definition segments (row : str) : list (list tok * nat) := segs_at (lex row) 0 1 [].
Definition inner {A} (l : list A) : list A := tl (removelast l).

(* C12_split_spec: anything before the first and after the last pipe is ignored; the cells are
   the pieces between consecutive unescaped pipes, unescaped *)
Theorem split_table_cells_spec row :
  split_table_cells row = map cell_of (inner (segments row)).
Proof.
  unfold split_table_cells, segments, inner. rewrite split_cells_toks.
  exact (split_toks_segs (lex row) 0 1 [] true).
Qed.

(* ---- where the pieces are ---- *)
Definition rawlen (ts : list tok) : nat := length (raws ts).
Lemma rawlen_app a b : rawlen (a ++ b) = (rawlen a + rawlen b)%nat.
Proof. unfold rawlen, raws. now rewrite flat_map_app, app_length. Qed.

Lemma rawlen_cons t ts : rawlen (t :: ts) = (length (raw t) + rawlen ts)%nat.
Proof. unfold rawlen, raws. simpl. now rewrite app_length. Qed.
Lemma rawlen_nil : rawlen [] = 0%nat.
Proof. reflexivity. Qed.

Definition pipe_free (ts : list tok) : Prop := Forall (fun t => is_pipe t = false) ts.

(* each piece, with what precedes and follows it *)
Lemma segs_at_where ts : forall base cur,
  pipe_free cur ->
  forall seg st, In (seg, st) (segs_at ts (base + rawlen (rev cur)) (S base) cur) ->
  exists pre post, rev cur ++ ts = pre ++ seg ++ post
    /\ st = S (base + rawlen pre)
    /\ pipe_free seg
    /\ (pre = [] \/ exists p, pre = p ++ [TPipe])
    /\ (post = [] \/ exists q, post = TPipe :: q).
Proof.
  induction ts as [|t r IH]; intros base cur PF seg st Hin.
  - simpl in Hin. destruct Hin as [E|[]]. inversion E; subst.
    exists [], []. rewrite app_nil_r. repeat split; auto;
      try (unfold rawlen; simpl; lia); try (apply Forall_rev; exact PF).
  - assert (Step : is_pipe t = false ->
              In (seg, st) (segs_at r (base + rawlen (rev cur) + length (raw t)) (S base) (t :: cur)) ->
              exists pre post, rev cur ++ t :: r = pre ++ seg ++ post
                /\ st = S (base + rawlen pre) /\ pipe_free seg
                /\ (pre = [] \/ exists p, pre = p ++ [TPipe]) /\ (post = [] \/ exists q, post = TPipe :: q)).
    { intros NP Hin'. specialize (IH base (t :: cur)).
      assert (E : (base + rawlen (rev cur) + length (raw t) = base + rawlen (rev (t :: cur)))%nat).
      { cbn [rev]. rewrite rawlen_app, rawlen_cons, rawlen_nil. lia. }
      rewrite E in Hin'. destruct (IH (Forall_cons _ NP PF) seg st Hin') as (pre & post & H1 & H2).
      exists pre, post. split; [|exact H2]. rewrite <- H1. simpl. rewrite <- app_assoc. reflexivity. }
    destruct t; cbn [segs_at] in Hin; try (apply Step; [reflexivity | exact Hin]).
    destruct Hin as [E|Hin].
    + inversion E; subst. exists [], (TPipe :: r). repeat split; eauto;
        try (unfold rawlen; simpl; lia); try (apply Forall_rev; exact PF).
    + specialize (IH (S (base + rawlen (rev cur))) [] (Forall_nil _) seg st).
      cbn [rev app] in IH. rewrite rawlen_nil, Nat.add_0_r in IH.
      destruct (IH Hin) as (pre & post & H1 & H2 & H3 & H4 & H5).
      exists (rev cur ++ TPipe :: pre), post. repeat split; auto.
      * rewrite H1, <- app_assoc. reflexivity.
      * rewrite H2, rawlen_app, rawlen_cons. simpl. lia.
      * right. destruct H4 as [->|[p ->]].
        -- exists (rev cur). reflexivity.
        -- exists (rev cur ++ TPipe :: p). rewrite <- app_assoc. reflexivity.
Qed.

Theorem segments_where row seg st : In (seg, st) (segments row) ->
  exists pre post, lex row = pre ++ seg ++ post
    /\ st = S (rawlen pre) /\ pipe_free seg
    /\ (pre = [] \/ exists p, pre = p ++ [TPipe])
    /\ (post = [] \/ exists q, post = TPipe :: q).
Proof.
  intros H. apply (segs_at_where (lex row) 0 [] (Forall_nil _) seg st). exact H.
Qed.

(* reading the row at the reported column gives back the raw text of the piece *)
Lemma skipn_app_length {A} (a b : list A) : skipn (length a) (a ++ b) = b.
Proof. induction a; simpl; auto. Qed.

Theorem segment_slice row seg st : In (seg, st) (segments row) ->
  exists rest, skipn (st - 1) row = raws seg ++ rest /\ (rest = [] \/ exists q, rest = PIPE :: q).
Proof.
  intros H. destruct (segments_where row seg st H) as (pre & post & E & -> & _ & _ & Hpost).
  exists (raws post). split.
  - rewrite <- (lex_raws row) at 1. rewrite E. unfold raws. rewrite !flat_map_app.
    replace (S (rawlen pre) - 1)%nat with (length (flat_map raw pre)) by (unfold rawlen, raws; lia).
    apply skipn_app_length.
  - destruct Hpost as [->|[q ->]]; [left; reflexivity | right; exists (raws q); reflexivity].
Qed.

(* ---- escaping round trip ---- *)
Definition esc_char (c : N) : str :=
  if c =? LF then [BSL; CH_n] else if c =? PIPE then [BSL; PIPE] else if c =? BSL then [BSL; BSL] else [c].
Definition escape (v : str) : str := flat_map esc_char v.

Definition tok_of_char (c : N) : tok :=
  if c =? LF then TEsc CH_n else if c =? PIPE then TEsc PIPE else if c =? BSL then TEsc BSL else TChr c.

Lemma esc_char_cases c :
  (c = LF /\ esc_char c = [BSL; CH_n] /\ tok_of_char c = TEsc CH_n)
  \/ (c = PIPE /\ esc_char c = [BSL; PIPE] /\ tok_of_char c = TEsc PIPE)
  \/ (c = BSL /\ esc_char c = [BSL; BSL] /\ tok_of_char c = TEsc BSL)
  \/ ((c =? PIPE) = false /\ (c =? BSL) = false /\ esc_char c = [c] /\ tok_of_char c = TChr c).
Proof.
  unfold esc_char, tok_of_char.
  destruct (c =? LF) eqn:E1; [apply N.eqb_eq in E1; auto|].
  destruct (c =? PIPE) eqn:E2; [apply N.eqb_eq in E2; auto|].
  destruct (c =? BSL) eqn:E3; [apply N.eqb_eq in E3; auto 6|]. auto 8.
Qed.

Lemma lex_escape v rest : lex (escape v ++ rest) = map tok_of_char v ++ lex rest.
Proof.
  induction v as [|c v IH]; [reflexivity|].
  change (escape (c :: v)) with (esc_char c ++ escape v). rewrite <- app_assoc. cbn [map app].
  destruct (esc_char_cases c) as [(-> & -> & ->)|[(-> & -> & ->)|[(-> & -> & ->)|(E2 & E3 & -> & ->)]]];
    cbn [app]; rewrite lex_cons; [reflexivity + (cbn; now rewrite IH) ..|].
  - rewrite E2, E3. now rewrite IH.
Qed.

Lemma val_tok_of_char c : val (tok_of_char c) = [c].
Proof.
  unfold tok_of_char. destruct (c =? LF) eqn:E1; [apply N.eqb_eq in E1; subst; reflexivity|].
  destruct (c =? PIPE) eqn:E2; [apply N.eqb_eq in E2; subst; reflexivity|].
  destruct (c =? BSL) eqn:E3; [apply N.eqb_eq in E3; subst; reflexivity|]. reflexivity.
Qed.
Lemma vals_tok_of_char v : vals (map tok_of_char v) = v.
Proof. induction v as [|c v IH]; [reflexivity|]. unfold vals in *. cbn [map flat_map]. now rewrite val_tok_of_char, IH. Qed.
Lemma tok_of_char_not_pipe c : is_pipe (tok_of_char c) = false.
Proof. unfold tok_of_char. destruct (c =? LF), (c =? PIPE), (c =? BSL); reflexivity. Qed.

Lemma segs_at_pipe_free ts : pipe_free ts -> forall pos start cur r,
  segs_at (ts ++ TPipe :: r) pos start cur = (rev cur ++ ts, start) :: segs_at r (S (pos + rawlen ts)) (S (S (pos + rawlen ts))) [].
Proof.
  induction 1 as [|t ts Ht Hts IH]; intros pos start cur r.
  - simpl. unfold rawlen. simpl. rewrite Nat.add_0_r, app_nil_r. reflexivity.
  - destruct t; try discriminate; cbn [app segs_at]; rewrite IH; cbn [rev]; rewrite <- app_assoc; cbn [app];
      rewrite rawlen_cons, Nat.add_assoc; reflexivity.
Qed.

(* a row of escaped values is split back into those values *)
Theorem split_escaped (vs : list str) :
  map fst (split_table_cells (PIPE :: flat_map (fun v => escape v ++ [PIPE]) vs)) = vs.
Proof.
  rewrite split_table_cells_spec. unfold segments, inner.
  cbn [lex]. rewrite N.eqb_refl. cbn [segs_at rev].
  assert (G : forall pos, map fst (map cell_of (removelast (segs_at (lex (flat_map (fun v => escape v ++ [PIPE]) vs)) pos (S pos) []))) = vs).
  { induction vs as [|v vs IH]; intros pos; [reflexivity|].
    cbn [flat_map]. rewrite <- app_assoc, lex_escape. cbn [app lex]. rewrite N.eqb_refl.
    rewrite segs_at_pipe_free by (apply Forall_forall; intros t Ht; apply in_map_iff in Ht as [c [<- _]]; apply tok_of_char_not_pipe).
    rewrite removelast_cons by apply segs_at_nonempty. cbn [map fst cell_of rev app snd].
    rewrite vals_tok_of_char. f_equal. apply IH. }
  rewrite removelast_cons by apply segs_at_nonempty. cbn [tl]. apply (G 1%nat).
Qed.

(* ---- trimming: table_cells ---- *)
Lemma drop_while_none p s : match s with [] => True | c :: _ => p c = false end -> drop_while p s = s.
Proof. destruct s; simpl; auto. intros ->. reflexivity. Qed.

Lemma rdrop_while_none p s : s = [] \/ p (last s 0) = false -> rdrop_while p s = s.
Proof.
  induction s as [|c s IH]; [reflexivity|]. intros [H|H]; [discriminate|].
  cbn [rdrop_while]. destruct s as [|d s].
  - simpl in *. now rewrite H.
  - rewrite IH by (right; exact H). reflexivity.
Qed.

Definition no_blank_ends (v : str) : Prop :=
  match v with [] => True | c :: _ => is_blank c = false /\ is_blank (last v 0) = false end.

Lemma trim_id v : no_blank_ends v -> rdrop_while is_blank (drop_while is_blank v) = v.
Proof.
  intros H. destruct v as [|c v]; [reflexivity|]. destruct H as [H1 H2].
  rewrite drop_while_none by exact H1. apply rdrop_while_none. right. exact H2.
Qed.

(* ---- table_cells of a whole line ---- *)
Lemma rdrop_while_id_last p s c : p c = false -> rdrop_while p (s ++ [c]) = s ++ [c].
Proof.
  intros H. apply rdrop_while_none. right. rewrite last_last. exact H.
Qed.

Lemma ends_pipe (vs : list str) : forall pre, vs <> [] ->
  exists s, pre ++ flat_map (fun v => escape v ++ [PIPE]) vs = s ++ [PIPE].
Proof.
  induction vs as [|v vs IH]; intros pre N; [congruence|]. cbn [flat_map].
  destruct vs as [|w vs].
  - exists (pre ++ escape v). cbn [flat_map]. rewrite app_nil_r, app_assoc. reflexivity.
  - destruct (IH (pre ++ escape v ++ [PIPE]) ltac:(discriminate)) as [s Hs]. exists s.
    rewrite <- Hs. rewrite <- !app_assoc. reflexivity.
Qed.

(* a row written as |v1|v2|...| with escaped values free of blank ends reads back as the values *)
Theorem table_cells_roundtrip (vs : list str) n :
  Forall no_blank_ends vs ->
  map snd (table_cells (make_line (PIPE :: flat_map (fun v => escape v ++ [PIPE]) vs) n)) = vs.
Proof.
  intros NB. unfold table_cells, make_line. cbn [l_trimmed l_indent].
  set (row := PIPE :: flat_map (fun v => escape v ++ [PIPE]) vs).
  assert (L : lstrip row = row) by reflexivity.
  assert (S : strip row = row).
  { unfold strip. rewrite L. unfold rstrip. destruct vs as [|v vs]; [reflexivity|].
    destruct (ends_pipe (v :: vs) [PIPE] ltac:(discriminate)) as [s E].
    unfold row. cbn [app] in E. rewrite E. apply rdrop_while_id_last. reflexivity. }
  rewrite L, S. rewrite map_map. cbn [snd].
  pose proof (split_escaped vs) as SE. fold row in SE.
  transitivity (map fst (split_table_cells row)); [|exact SE].
  apply map_ext_in. intros [cell col] Hin. cbn [fst snd].
  apply trim_id.
  assert (In cell (map fst (split_table_cells row))) by (apply in_map_iff; exists (cell, col); auto).
  rewrite SE in H. rewrite Forall_forall in NB. auto.
Qed.

(* ---- ragged tables ---- *)
Require Import Matcher Ast Builder.
Lemma find_first {A} (f : A -> bool) l x : find f l = Some x ->
  exists pre post, l = pre ++ x :: post /\ f x = true /\ Forall (fun y => f y = false) pre.
Proof.
  induction l as [|a l IH]; simpl; [discriminate|]. destruct (f a) eqn:E.
  - intros H. inversion H; subst. exists [], l. auto.
  - intros H. destruct (IH H) as (pre & post & -> & Hx & Hp). exists (a :: pre), post. auto.
Qed.
Lemma find_none_all {A} (f : A -> bool) l : find f l = None -> Forall (fun y => f y = false) l.
Proof. induction l as [|a l IH]; simpl; [constructor|]. destruct (f a) eqn:E; [discriminate|]. auto. Qed.

(* ensure_cell_count: the error is at the first row whose cell count differs from the first row's *)
Theorem first_ragged_spec r0 rows :
  match first_ragged (r0 :: rows) with
  | Some r => exists pre post, r0 :: rows = pre ++ r :: post
                /\ length (r_cells r) <> length (r_cells r0)
                /\ Forall (fun y => length (r_cells y) = length (r_cells r0)) pre
  | None => Forall (fun y => length (r_cells y) = length (r_cells r0)) (r0 :: rows)
  end.
Proof.
  unfold first_ragged. destruct (find _ (r0 :: rows)) as [r|] eqn:F.
  - apply find_first in F as (pre & post & E & Hx & Hp). exists pre, post. repeat split; auto.
    + apply negb_true_iff, Nat.eqb_neq in Hx. exact Hx.
    + eapply Forall_impl; [|exact Hp]. intros y Hy. apply negb_false_iff, Nat.eqb_eq in Hy. exact Hy.
  - apply find_none_all in F. eapply Forall_impl; [|exact F]. intros y Hy. apply negb_false_iff, Nat.eqb_eq in Hy. exact Hy.
Qed.
