(* C01: a dataflow abstraction of the AST builder's stack over the transition table: per parser
   state, the stack of open rules with, for each, keys that are certainly present in the node.
   An unverified explorer computes the map; `shape_ok` checks it against every transition. *)
From Coq Require Import List Bool Arith.
Import ListNotations.
Require Import Kinds PyStr Line Matcher Ast Builder BuilderSafe.

Definition astk := list (rule * list key).
Definition kmem (q : key) (ks : list key) : bool := existsb (key_beq q) ks.
Definition may_raise (x : rule) : bool := match x with RDataTable | RExamplesTable => true | _ => false end.

(* one production; k = kind of the token of the transition, has_text = the token carries matched text
   (an opening doc-string separator does, a closing one does not) *)
Definition a_prod (k : kind) (has_text : bool) (p : prod) (stk : astk) : option astk :=
  match p with
  | PS x => match stk with [] => None | _ => Some ((x, []) :: stk) end
  | PB =>
    match stk with
    | (x, ks) :: tl =>
      if kind_beq k KComment then Some stk
      else if rule_beq x RDocString && kind_beq k KDocStringSeparator && negb (kmem (KT k) ks) && negb has_text then None
      else Some ((x, KT k :: ks) :: tl)
    | [] => None
    end
  | PE x =>
    match stk with
    | (y, ks) :: tl =>
      if rule_beq x y && forallb (fun q => kmem q ks) (required y) then
        match tl with
        | (p, pks) :: tl' => Some ((p, if may_raise y then pks else KR y :: pks) :: tl')
        | [] => Some []
        end
      else None
    | [] => None
    end
  end.

Fixpoint a_prods (k : kind) (has_text : bool) (ps : list prod) (stk : astk) : option astk :=
  match ps with
  | [] => Some stk
  | p :: r => match a_prod k has_text p stk with Some s' => a_prods k has_text r s' | None => None end
  end.

Definition bmap := list (nat * astk).
Fixpoint blookup (s : nat) (b : bmap) : option astk :=
  match b with [] => None | (n, stk) :: t => if Nat.eqb n s then Some stk else blookup s t end.

(* recorded (weaker) vs computed: same rules, recorded keys all computed *)
Fixpoint weaker (a b : astk) : bool :=
  match a, b with
  | [], [] => true
  | (x, ks) :: a', (y, ls) :: b' => rule_beq x y && forallb (fun q => kmem q ls) ks && weaker a' b'
  | _, _ => false
  end.

Definition is_ds (dss : list nat) (s : nat) : bool := existsb (Nat.eqb s) dss.

Section WithTable.
  Variable tbl : list st.
  Variable dss : list nat.           (* the doc-string states *)

  Definition top_final_ok (stk : astk) : bool :=
    match stk with
    | (y, ks) :: _ => forallb (fun q => kmem q ks) (required y)
    | [] => false
    end.

  Definition shape_ok (s0 : nat) (b : bmap) : bool :=
    match blookup s0 b with Some [(RGherkinDocument, [])] => true | _ => false end
    && forallb (fun x =>
         match blookup (s_id x) b with
         | None => false
         | Some stk =>
           top_final_ok stk
           && forallb (fun y =>
                match a_prods (t_kind y) (negb (is_ds dss (s_id x))) (t_prods y) stk with
                | None => false
                | Some stk' =>
                  match blookup (t_tgt y) b with
                  | Some rec => weaker rec stk' && top_final_ok rec
                  | None => false
                  end
                  (* the separator state flips exactly on a doc-string separator *)
                  && Bool.eqb (is_ds dss (t_tgt y))
                              (if kind_beq (t_kind y) KDocStringSeparator then negb (is_ds dss (s_id x)) else is_ds dss (s_id x))
                end) (s_tests x)
         end) tbl.

  (* ---- explorer (unverified) ---- *)
  Fixpoint meet (a b : astk) : astk :=
    match a, b with
    | (x, ks) :: a', (y, ls) :: b' => (x, filter (fun q => kmem q ls) ks) :: meet a' b'
    | _, _ => []
    end.
  Fixpoint bupdate (s : nat) (stk : astk) (b : bmap) : bmap :=
    match b with
    | [] => [(s, stk)]
    | (n, old) :: t => if Nat.eqb n s then (n, meet old stk) :: t else (n, old) :: bupdate s stk t
    end.
  Definition round (b : bmap) : bmap :=
    fold_left (fun b x =>
      match blookup (s_id x) b with
      | None => b
      | Some stk =>
        fold_left (fun b y =>
          match a_prods (t_kind y) (negb (is_ds dss (s_id x))) (t_prods y) stk with
          | Some stk' => bupdate (t_tgt y) stk' b
          | None => b
          end) (s_tests x) b
      end) tbl b.
  Fixpoint rounds (n : nat) (b : bmap) : bmap := match n with 0 => b | S n' => rounds n' (round b) end.
End WithTable.
