(* C14 / C01: error-list facts for the real pipeline. *)
From Coq Require Import String List Bool Arith NArith Lia.
Local Open Scope string_scope.
Local Open Scope list_scope.
Import ListNotations.
Require Import Kinds Automaton AutoFacts InterpInv ErrorFacts TableFacts PyStr Line Matcher Builder Pipeline Table.

Definition no_dup_msgs (es : list perror) : Prop :=
  forall l1 e l2, es = l1 ++ e :: l2 -> existsb (Matcher.err_same_msg e) l1 = false.

(* what Parser.parse can raise in collecting mode: between 1 and error_cap + 1 = 11 errors with
   pairwise different messages; a normal return means no error at all *)
Theorem pipeline_errors stop toks m b :
  match parse_tokens stop toks m b with
  | Ok _ c => errs c = []
  | RaiseC es c => es = errs c /\ no_dup_msgs es /\ 1 <= length es <= 11
  | _ => True
  end.
Proof.
  unfold parse_tokens, parse_tokens_with.
  pose proof (parse_errors (pipeline_params Table.table) stop toks (reset_matcher Dialects.dialects m) (reset_builder b)) as H.
  destruct (parse (pipeline_params Table.table) stop toks _ _); auto.
Qed.

(* the unexpected-token / unexpected-EOF error: position first, then the expected kinds of the state,
   then the trimmed line *)
Theorem unexpected_token_message t l expected : tk_line t = Some l ->
  e_msg (unexpected t expected)
  = loc_prefix (e_loc (unexpected t expected)) ++ s2l "expected: " ++ join (s2l ", ") (map kind_str expected)
    ++ s2l ", got '" ++ strip (l_trimmed l) ++ s2l "'".
Proof. intros L. unfold unexpected, token_value. rewrite L. reflexivity. Qed.

Theorem unexpected_token_location t l expected : tk_line t = Some l ->
  loc_line (e_loc (unexpected t expected)) = loc_line (tk_loc t)
  /\ (loc_col (tk_loc t) = None -> loc_col (e_loc (unexpected t expected)) = Some (l_indent l + 1)%nat).
Proof.
  intros L. unfold unexpected. rewrite L. cbn [e_loc parser_exception].
  destruct (loc_col (tk_loc t)) as [[|c]|]; cbn [loc_line loc_col]; split; auto; discriminate.
Qed.

Theorem unexpected_eof_message t expected : tk_line t = None ->
  e_msg (unexpected t expected)
  = loc_prefix (tk_loc t) ++ s2l "unexpected end of file, expected: " ++ join (s2l ", ") (map kind_str expected)
  /\ e_loc (unexpected t expected) = tk_loc t.
Proof. intros L. unfold unexpected. rewrite L. split; reflexivity. Qed.

(* after an unexpected token the parser stays in the state it was in (collecting mode) *)
Theorem unexpected_stays stop s t c x t' c1 :
  find_state (pipeline_params Table.table) s = Some x ->
  run_tests (pipeline_params Table.table) stop (s_tests x) t c = Ok (None, t') c1 ->
  match_token (pipeline_params Table.table) false s t c
  = (if stop then match_token (pipeline_params Table.table) false s t c
     else bind (add_error (pipeline_params Table.table) (unexpected t' (s_expected x)) (emit (EvX t' s) c1))
               (fun _ c3 => Ok (s_id x) c3)).
Proof.
  intros F R. destruct stop; [reflexivity|]. unfold match_token. rewrite F, R. cbn [bind fst snd].
  assert (E : s_err x = s_id x).
  { pose proof error_stays_ok as K. unfold error_stays in K. rewrite forallb_forall in K.
    unfold find_state in F. apply find_some in F as [F _]. specialize (K x F). now apply Nat.eqb_eq in K. }
  rewrite E. reflexivity.
Qed.
