(* C16, comment lines end to end (stop-at-first-error mode): inserting comment lines that the parser reaches in a state
   which handles #Comment by building it and staying put (every state except the start state, where a comment may be a
   language header, the header states, where a comment opens the description, and the doc-string states, where it is
   content) changes only line numbers and the list of comments.  Same composition as BlankInsert.v, with the relation
   on builder states "equal up to line numbers, #Empty tokens and comments" (CommentErase.v). *)
From Coq Require Import String List Bool Arith NArith Lia.
Import ListNotations.
Require Import Kinds Automaton AutoFacts PyStr Line Matcher MatcherFacts Ast Builder Pipeline PipelineFacts Table TableFacts Dialects
               BuilderErase ColErase LineErase CommentErase Delivery DeliveryInst Machine MachineEq MachineInst MachineInsert LineEndings
               TerminatorFacts BlankTail BlankParse AgreeUpTo BlankInsert.
Local Open Scope N_scope.

(* ---- the builder operations respect "equal up to line numbers, #Empty tokens and comments" ---- *)
Lemma lift_crel o o' : boutc_rel' o o' -> bres_rel BRc ERn (lift_bout o) (lift_bout o').
Proof. destruct o, o'; cbn; auto. Qed.
Lemma C_start r b b' : BRc b b' -> bres_rel BRc ERn (b_start rP r b) (b_start rP r b').
Proof. intros H. apply lift_crel, builder_start_crel', H. Qed.
Lemma C_end r b b' : BRc b b' -> bres_rel BRc ERn (b_end rP r b) (b_end rP r b').
Proof. intros H. apply lift_crel, builder_end_crel', H. Qed.
Lemma C_build t t' b b' : TRn t t' -> BRc b b' -> bres_rel BRc ERn (b_build rP t b) (b_build rP t' b').
Proof. intros Ht H. apply lift_crel, builder_build_crel'; assumption. Qed.

(* ---- comment lines ---- *)
Definition cl (z : token) : Prop := match tk_line z with Some l => line_startswith l [HASH] = true | None => False end.

(* no keyword of any dialect begins with '#' *)
Definition kw_nohash (k : str) : bool := match k with [] => false | c :: _ => negb (c =? HASH) end.
Definition dialect_kw_nohash (d : dialect) : bool :=
  forallb kw_nohash (d_feature d ++ d_rule d ++ d_background d ++ d_scenario d ++ d_scenarioOutline d ++ d_examples d ++ step_keywords d).
Lemma dialects_kw_nohash : forallb dialect_kw_nohash dialects = true.
Proof. vm_compute. reflexivity. Qed.
Lemma kws_nohash m k : MI m ->
  In k (d_feature (ms_dialect m) ++ d_rule (ms_dialect m) ++ d_background (ms_dialect m) ++ d_scenario (ms_dialect m)
        ++ d_scenarioOutline (ms_dialect m) ++ d_examples (ms_dialect m) ++ step_keywords (ms_dialect m)) -> kw_nohash k = true.
Proof.
  intros [W _] Hk. pose proof dialects_kw_nohash as A. rewrite forallb_forall in A.
  specialize (A _ (wf_dialect_in' m W)). unfold dialect_kw_nohash in A. rewrite forallb_forall in A. exact (A k Hk).
Qed.

Lemma sw_comment l p : line_startswith l [HASH] = true -> kw_nohash p = true -> line_startswith l p = false.
Proof.
  unfold line_startswith. destruct (l_trimmed l) as [|c r]; [discriminate|]. cbn [starts_with]. intros H.
  destruct (HASH =? c) eqn:E; [|discriminate]. apply N.eqb_eq in E. subst c.
  destruct p as [|d p]; [discriminate|]. cbn [kw_nohash starts_with]. intros N. apply negb_true_iff in N. now rewrite N.
Qed.
Lemma sw_comment_app l p q : line_startswith l [HASH] = true -> kw_nohash p = true -> line_startswith l (p ++ q) = false.
Proof. intros H N. apply sw_comment; [exact H|]. destruct p; [discriminate | exact N]. Qed.
Lemma ftk_comment l ks : line_startswith l [HASH] = true -> (forall k, In k ks -> kw_nohash k = true) -> first_title_keyword l ks = None.
Proof.
  intros E. induction ks as [|k ks IH]; intros H; cbn [first_title_keyword]; [reflexivity|].
  unfold startswith_title_keyword. change (starts_with (k ++ [COLON]) (l_trimmed l)) with (line_startswith l (k ++ [COLON])).
  rewrite (sw_comment_app l k [COLON] E (H k (or_introl eq_refl))). apply IH. intros k' Hk'. apply H. now right.
Qed.
Lemma fp_comment l ks : line_startswith l [HASH] = true -> (forall k, In k ks -> kw_nohash k = true) -> first_prefix l ks = None.
Proof.
  intros E. induction ks as [|k ks IH]; intros H; cbn [first_prefix]; [reflexivity|].
  rewrite (sw_comment l k E (H k (or_introl eq_refl))). apply IH. intros k' Hk'. apply H. now right.
Qed.
Lemma comment_not_empty l : line_startswith l [HASH] = true -> line_is_empty l = false.
Proof. unfold line_startswith, line_is_empty. destruct (l_trimmed l); [discriminate | reflexivity]. Qed.

(* what the matcher answers about a comment line (language headers and free text apart) *)
Lemma comment_matcher k m z l : tk_line z = Some l -> line_startswith l [HASH] = true -> MIw m ->
  match k with
  | KComment => matcher dialects k m z = MYes (set_matched m z KComment (Some (l_text l)) None None (Some 0%nat) []) m
  | KLanguage | KOther => True
  | _ => matcher dialects k m z = MNo
  end.
Proof.
  intros L E Hm. pose proof (MIw_MI m Hm) as Hmi. unfold matcher. rewrite L.
  assert (K : forall ks, (forall k0, In k0 ks -> In k0 (d_feature (ms_dialect m) ++ d_rule (ms_dialect m) ++ d_background (ms_dialect m) ++ d_scenario (ms_dialect m)
        ++ d_scenarioOutline (ms_dialect m) ++ d_examples (ms_dialect m) ++ step_keywords (ms_dialect m))) -> forall k0, In k0 ks -> kw_nohash k0 = true).
  { intros ks H k0 Hk. exact (kws_nohash m k0 Hmi (H k0 Hk)). }
  destruct k; unfold match_title_line, match_docsep; try exact I.
  - reflexivity.
  - now rewrite (comment_not_empty l E).
  - now rewrite E.
  - rewrite (sw_comment l [AT] E eq_refl). reflexivity.
  - rewrite (ftk_comment l _ E); [reflexivity|]. apply K. intros k0 Hk. apply in_or_app. now left.
  - rewrite (ftk_comment l _ E); [reflexivity|]. apply K. intros k0 Hk. apply in_or_app. right. apply in_or_app. now left.
  - rewrite (ftk_comment l _ E); [reflexivity|]. apply K. intros k0 Hk. do 2 (apply in_or_app; right). apply in_or_app. now left.
  - rewrite (ftk_comment l (d_scenario _) E), (ftk_comment l (d_scenarioOutline _) E); [reflexivity | |].
    + apply K. intros k0 Hk. do 4 (apply in_or_app; right). apply in_or_app. now left.
    + apply K. intros k0 Hk. do 3 (apply in_or_app; right). apply in_or_app. now left.
  - rewrite (ftk_comment l _ E); [reflexivity|]. apply K. intros k0 Hk. do 5 (apply in_or_app; right). apply in_or_app. now left.
  - rewrite (fp_comment l _ E); [reflexivity|]. apply K. intros k0 Hk. do 6 (apply in_or_app; right). exact Hk.
  - destruct Hm as [_ S]. destruct (ms_sep m) as [s|].
    + rewrite (sw_comment l s E); [reflexivity | destruct S as [-> | ->]; reflexivity].
    + rewrite (sw_comment l DQ3 E eq_refl), (sw_comment l BT3 E eq_refl). reflexivity.
  - rewrite (sw_comment l [PIPE] E eq_refl). reflexivity.
Qed.

Lemma cl_noeof z : cl z -> is_eof rP z = false.
Proof. unfold cl. cbn [is_eof pipeline_params]. unfold tok_is_eof. destruct (tk_line z); [reflexivity | contradiction]. Qed.

Definition quiet_kind (k : kind) : bool := negb (kind_beq k KComment) && negb (kind_beq k KLanguage) && negb (kind_beq k KOther).

Lemma m_match_comment_no k m z l : tk_line z = Some l -> line_startswith l [HASH] = true -> MIw m -> quiet_kind k = true ->
  m_match rP k z m = MrOk (false, z, m).
Proof.
  intros L E Hm Q. unfold m_match. cbn [is_eof matchf pipeline_params]. unfold tok_is_eof. rewrite L, andb_false_r.
  unfold p_matchf. pose proof (comment_matcher k m z l L E Hm) as C. destruct k; try discriminate Q; rewrite C; reflexivity.
Qed.
Lemma m_match_comment_yes m z l : tk_line z = Some l -> line_startswith l [HASH] = true -> MIw m ->
  m_match rP KComment z m = MrOk (true, set_matched m z KComment (Some (l_text l)) None None (Some 0%nat) [], m).
Proof.
  intros L E Hm. unfold m_match. cbn [is_eof matchf pipeline_params]. unfold tok_is_eof. rewrite L, andb_false_r.
  unfold p_matchf. rewrite (comment_matcher KComment m z l L E Hm). reflexivity.
Qed.

Lemma C_la h m z : In h (Automaton.lookaheads rP) -> cl z -> MIw m ->
  m_any rP (la_expected h) z m = MrOk (false, z, m) /\ exists z', m_any rP (la_skip h) z m = MrOk (true, z', m) /\ cl z'.
Proof.
  intros Hh Bz Hm. unfold cl in Bz. destruct (tk_line z) as [l|] eqn:L; [|contradiction].
  assert (Sk : exists z', m_any rP [KEmpty; KComment; KTagLine] z m = MrOk (true, z', m) /\ cl z').
  { eexists. cbn [m_any]. rewrite (m_match_comment_no KEmpty m z l L Bz Hm eq_refl). cbn iota beta.
    rewrite (m_match_comment_yes m z l L Bz Hm). split; [reflexivity|]. unfold cl. cbn [tk_line set_matched]. rewrite L. exact Bz. }
  cbn [Automaton.lookaheads pipeline_params] in Hh. destruct Hh as [<- | [<- | []]]; cbn [la_expected la_skip]; (split; [|exact Sk]);
    cbn [m_any]; [rewrite (m_match_comment_no KScenarioLine m z l L Bz Hm eq_refl) | rewrite (m_match_comment_no KExamplesLine m z l L Bz Hm eq_refl)]; reflexivity.
Qed.

(* a state that builds a #Comment line and stays where it is, trying before it only kinds a comment line never is *)
Fixpoint comment_loop (s : nat) (tests : list test) : bool :=
  match tests with
  | [] => false
  | y :: r =>
    if kind_beq (t_kind y) KComment
    then match t_guard y with None => true | Some _ => false end && list_beq prod_beq (t_prods y) [Kinds.PB] && Nat.eqb (t_tgt y) s
    else if quiet_kind (t_kind y) then comment_loop s r else false
  end.
Definition neutral_c (s : nat) : Prop := exists x, find_state rP s = Some x /\ comment_loop s (s_tests x) = true.

Lemma m_tests_comment s exp z l ups : forall tests m b b', comment_loop s tests = true -> tk_line z = Some l -> line_startswith l [HASH] = true -> MIw m ->
  BI b -> BRc b b' -> exists b1, m_tests rP tests exp z m b ups = MoOk (s, ups) m b1 /\ BRc b1 b'.
Proof.
  induction tests as [|y r IH]; intros m b b' El L E Hm Hb Rb; cbn [comment_loop] in El; [discriminate|]. cbn [m_tests].
  destruct (kind_beq (t_kind y) KComment) eqn:Ke.
  - apply kind_beq_eq in Ke. rewrite Ke. rewrite (m_match_comment_yes m z l L E Hm).
    apply andb_prop in El as [El Et]. apply andb_prop in El as [Eg Ep].
    destruct (t_guard y); [discriminate Eg|]. rewrite (prods_pb _ Ep). apply Nat.eqb_eq in Et. rewrite Et.
    cbn [m_exec b_build pipeline_params]. unfold p_bbuild, builder_build. cbn [m_type m_text set_matched lift_bout].
    eexists. split; [reflexivity|]. unfold BRc in *. rewrite <- Rb. reflexivity.
  - destruct (quiet_kind (t_kind y)) eqn:Q; [|discriminate El].
    rewrite (m_match_comment_no (t_kind y) m z l L E Hm Q). apply IH; assumption.
Qed.

Lemma C_step s z m b b' ups : neutral_c s -> cl z -> MIw m -> BI b -> BRc b b' ->
  exists b1, m_step rP s z m b ups = MoOk (s, ups) m b1 /\ BRc b1 b'.
Proof.
  intros (x & Fs & El) Bz Hm Hb Rb. unfold cl in Bz. destruct (tk_line z) as [l|] eqn:L; [|contradiction].
  unfold m_step. rewrite Fs. exact (m_tests_comment s (s_expected x) z l ups (s_tests x) m b b' El L Bz Hm Hb Rb).
Qed.

(* ---- the machine with and without inserted comment tokens ---- *)
Theorem machine_comment_tokens toks toks' fl m b b' : MIw m -> BI b -> BRc b b' -> aligned TRn cl fl toks toks' ->
  safe_run rP neutral_c toks fl m b ->
  ex_out_rel BRc ERn (m_parse rP toks m b) (m_parse rP toks' m b').
Proof.
  intros Hm Hb Rb Al Sf.
  exact (m_parse_ins rP TRn BRc ERn cl neutral_c I_eof I_match C_start C_end C_build I_unexp MIw MQ_match cl_noeof C_la BI BI_start BI_end BI_build C_step
                     toks toks' fl m b b' Hm Hb Rb Al eq_refl Sf).
Qed.

(* ---- sources ---- *)
Definition comment_str (a : str) : bool := match lstrip a with c :: _ => c =? HASH | [] => false end.
Lemma raw_comment a n : comment_str a = true -> cl (raw_token a n).
Proof.
  intros H. unfold cl, raw_token. cbn [tk_line]. unfold line_startswith, make_line. cbn [l_trimmed]. unfold comment_str in H.
  destruct (lstrip a) as [|c r]; [discriminate|]. cbn [starts_with]. rewrite N.eqb_sym, H. destruct r; reflexivity.
Qed.
Fixpoint flagged_comment (fl : list bool) (ls : list str) : Prop :=
  match fl, ls with
  | f :: fl', a :: r => (f = true -> comment_str a = true) /\ flagged_comment fl' r
  | _, _ => True
  end.

Lemma number_aligned_c : forall fl ls' n' ls n, length fl = length ls' -> flagged_comment fl ls' -> del fl ls' = ls ->
  aligned TRn cl fl (number_lines ls' n') (number_lines ls n).
Proof.
  induction fl as [|f fl IH]; intros ls' n' ls n L F D; destruct ls' as [|a r]; try discriminate L.
  - cbn [del] in D. subst ls. repeat split; constructor.
  - cbn [length] in L. cbn [flagged_comment] in F. destruct F as [Fa F]. cbn [del] in D. cbn [number_lines]. destruct f.
    + destruct (IH r (S n') ls n ltac:(lia) F D) as (L1 & F1 & A1). split; [cbn [length]; lia|].
      split; [cbn [flagged_bl]; split; [intros _; apply raw_comment, Fa; reflexivity | exact F1] | cbn [del]; exact A1].
    + subst ls. cbn [number_lines]. destruct (IH r (S n') (del fl r) (S n) ltac:(lia) F eq_refl) as (L1 & F1 & A1). split; [cbn [length]; lia|].
      split; [cbn [flagged_bl]; split; [discriminate | exact F1] | cbn [del]; constructor; [reflexivity | exact A1]].
Qed.

(* what the caller observes, up to line numbers and comments *)
Definition psimcm (r r' : presult) : Prop :=
  match r, r' with
  | POk d m1 _ _, POk d' m1' _ _ => de_doc (le_doc d) = de_doc (le_doc d') /\ m1 = m1'
  | PErr1 e m1 _ _, PErr1 e' m1' _ _ => le_err e = le_err e' /\ m1 = m1'
  | PCrash, PCrash => True
  | _, _ => False
  end.

Theorem comment_lines_neutral m b src src' fl : wf_ms m ->
  length fl = length (py_lines src') -> flagged_comment fl (py_lines src') -> del fl (py_lines src') = py_lines src ->
  safe_run rP neutral_c (scan src') fl (reset_matcher dialects m) (reset_builder b) ->
  psimcm (parse_source true m b src') (parse_source true m b src).
Proof.
  intros W L F D Sf. rewrite !parse_source_of.
  pose proof (machine_presult (scan src') m b (scan_noeof_from _ 1) W) as E'. pose proof (machine_presult (scan src) m b (scan_noeof_from _ 1) W) as E.
  pose proof (machine_comment_tokens (scan src') (scan src) fl (reset_matcher dialects m) (reset_builder b) (reset_builder b)
                (reset_MIw m W) ltac:(unfold BI; cbn; discriminate) eq_refl (number_aligned_c fl _ 1%nat _ 1%nat L F D) Sf) as X.
  unfold machine_tokens in *.
  destruct (presult_of (parse_tokens true (scan src') m b)) as [d' m1' b1' n'|es' m1' b1' n'|e' m1' b1' n'| |];
    destruct (m_parse rP (scan src') (reset_matcher dialects m) (reset_builder b)) as [[] mm' bb'|ee' mm' bb'|]; try contradiction;
    destruct (presult_of (parse_tokens true (scan src) m b)) as [d m1 b1 n|es m1 b1 n|e m1 b1 n| |];
    destruct (m_parse rP (scan src) (reset_matcher dialects m) (reset_builder b)) as [[] mm bb|ee mm bb|]; try contradiction;
    cbn [ex_out_rel psimcm] in *; try contradiction; auto.
  all: repeat match goal with H : _ /\ _ |- _ => destruct H end; subst.
  all: try match goal with Rb : BRc _ _ |- _ => pose proof (builder_result_crel _ _ Rb) as G end.
  all: try match goal with A : builder_result ?x = _, B : builder_result ?y = _, G : option_map _ (builder_result ?x) = option_map _ (builder_result ?y) |- _ =>
             rewrite A, B in G; cbn [option_map] in G end.
  all: try discriminate.
  all: split; congruence.
Qed.

(* ---- the side condition, executable ---- *)
Definition neutralcb (s : nat) : bool :=
  match find_state rP s with Some x => comment_loop s (s_tests x) | None => false end.
Lemma neutralcb_ok s : neutralcb s = true -> neutral_c s.
Proof. unfold neutralcb, neutral_c. destruct (find_state rP s) as [x|]; [|discriminate]. intros H. exists x. auto. Qed.

Fixpoint safecb (n : nat) (s : nat) (m : mstate) (b : bstate) (fl : list bool) (ups : list token) : bool :=
  match n with
  | 0%nat => true
  | S n' =>
    match fl, ups with
    | f :: fl', t :: r =>
      (negb f || neutralcb s) &&
      match m_step rP s t m b r with
      | MoOk (s', r') m' b' => if tok_is_eof t then true else safecb n' s' m' b' fl' r'
      | _ => true
      end
    | _, _ => true
    end
  end.
Lemma safecb_ok : forall n s m b fl ups, safecb n s m b fl ups = true -> safe rP neutral_c n s m b fl ups.
Proof.
  induction n as [|n IH]; intros s m b fl ups H; cbn [safe safecb] in *; [exact I|].
  destruct fl as [|f fl]; [exact I|]. destruct ups as [|t r]; [exact I|]. apply andb_prop in H as [H1 H2]. split.
  - intros ->. cbn in H1. apply neutralcb_ok, H1.
  - destruct (m_step rP s t m b r) as [[s' r'] m' b'| |]; try exact I. cbn [is_eof pipeline_params]. destruct (tok_is_eof t); [exact I | apply IH, H2].
Qed.
Definition safe_runcb (toks : list token) (fl : list bool) (m : mstate) (b : bstate) : bool :=
  match b_start rP RGherkinDocument b with
  | BOk b1 => safecb (S (S (length toks))) (Automaton.start_state rP) m b1 (fl ++ [false]) (toks ++ [mk_eof rP (S (length toks))])
  | _ => true
  end.
Lemma safe_runcb_ok toks fl m b : safe_runcb toks fl m b = true -> safe_run rP neutral_c toks fl m b.
Proof. unfold safe_runcb, safe_run. intros H b1 E. rewrite E in H. apply safecb_ok, H. Qed.

(* which states are not neutral for comments: those that try #Language first (the start of the document), those where a
   comment opens the description (right after a keyword line), and those without a #Comment test (inside doc strings) *)
Definition tests_language (x : st) : bool := existsb (fun y => kind_beq (t_kind y) KLanguage) (s_tests x).
Definition comment_opens_description (x : st) : bool :=
  existsb (fun y => kind_beq (t_kind y) KComment && list_beq prod_beq (t_prods y) [PS RDescription; Kinds.PB]) (s_tests x).
Definition no_comment_test (x : st) : bool := negb (existsb (fun y => kind_beq (t_kind y) KComment) (s_tests x)).
Lemma comment_neutral_states :
  forallb (fun x => neutralcb (s_id x) || tests_language x || comment_opens_description x || no_comment_test x) Table.table = true
  /\ length (filter (fun x => neutralcb (s_id x)) Table.table) = 29%nat.
Proof. vm_compute. split; reflexivity. Qed.

Fixpoint flagged_commentb (fl : list bool) (ls : list str) : bool :=
  match fl, ls with
  | f :: fl', a :: r => (negb f || comment_str a) && flagged_commentb fl' r
  | _, _ => true
  end.
Lemma flagged_commentb_ok : forall fl ls, flagged_commentb fl ls = true -> flagged_comment fl ls.
Proof.
  induction fl as [|f fl IH]; intros ls H; destruct ls as [|a r]; cbn [flagged_comment flagged_commentb] in *; auto.
  apply andb_prop in H as [H1 H2]. split; [intros ->; exact H1 | apply IH, H2].
Qed.
