(* C11: the ids inside one AST are pairwise distinct and lie between the counter before and after the parse
   (so they are also distinct from the ids the compiler draws afterwards).  Invariant of the builder stack;
   nothing is used twice by transform_node. *)
From Coq Require Import List Bool Arith NArith Lia.
Import ListNotations.
Require Import Kinds PyStr Line Matcher Ast Builder.

Definition tag_ids (ts : list tag) := map tg_id ts.
Definition row_ids (rs : list row) := map r_id rs.
Definition step_ids (s : step) : list nat :=
  match st_arg s with ArgTable _ rows => row_ids rows | _ => [] end ++ [st_id s].
Definition bg_ids (b : background) : list nat := flat_map step_ids (bg_steps b) ++ [bg_id b].
Definition ex_ids (e : examples) : list nat :=
  (match ex_header e with Some r => [r_id r] | None => [] end ++ row_ids (ex_body e)) ++ tag_ids (ex_tags e) ++ [ex_id e].
Definition sc_ids (s : scenario) : list nat :=
  (flat_map step_ids (sc_steps s) ++ flat_map ex_ids (sc_examples s)) ++ tag_ids (sc_tags s) ++ [sc_id s].
Definition rchild_ids (c : rchild) := match c with RCBackground b => bg_ids b | RCScenario s => sc_ids s end.
Definition ru_ids (r : grule) : list nat := flat_map rchild_ids (ru_children r) ++ tag_ids (ru_tags r) ++ [ru_id r].
Definition fchild_ids (c : fchild) := match c with FCBackground b => bg_ids b | FCScenario s => sc_ids s | FCRule r => ru_ids r end.
Definition f_ids (f : feature) : list nat := flat_map fchild_ids (f_children f) ++ tag_ids (f_tags f).
Definition doc_ids (d : document) : list nat := match doc_feature d with Some f => f_ids f | None => [] end.

Fixpoint vids (v : value) : list nat :=
  match v with
  | VTok _ => []
  | VNode n => nids n
  | VStep s => step_ids s
  | VDocString _ => []
  | VDataTable _ rows => row_ids rows
  | VBackground b => bg_ids b
  | VScenario s => sc_ids s
  | VExamples e => ex_ids e
  | VRows rs => row_ids rs
  | VDesc _ => []
  | VRule r => ru_ids r
  | VFeature f => f_ids f
  | VDocument d => doc_ids d
  | VNone => []
  end
with nids (n : node) : list nat :=
  match n with
  | Node _ items => (fix go (l : list (key * value)) : list nat :=
                       match l with [] => [] | (_, v) :: r => vids v ++ go r end) items
  end.
Definition iids (l : list (key * value)) : list nat := flat_map (fun kv => vids (snd kv)) l.
Lemma nids_eq rt items : nids (Node rt items) = iids items.
Proof. cbn [nids]. induction items as [|[k v] r IH]; cbn; [reflexivity|]. now rewrite IH. Qed.

(* ---- sub-multisets ---- *)
Definition sub (L M : list nat) : Prop := forall x, count_occ Nat.eq_dec L x <= count_occ Nat.eq_dec M x.
Lemma sub_refl L : sub L L. Proof. intros x. lia. Qed.
Lemma sub_trans A B C : sub A B -> sub B C -> sub A C.
Proof. intros H1 H2 x. specialize (H1 x). specialize (H2 x). lia. Qed.
Lemma sub_nil M : sub [] M. Proof. intros x. simpl. lia. Qed.
Lemma sub_app A B C D : sub A C -> sub B D -> sub (A ++ B) (C ++ D).
Proof. intros H1 H2 x. rewrite !count_occ_app. specialize (H1 x). specialize (H2 x). lia. Qed.
Lemma sub_app_l A B : sub A (A ++ B). Proof. intros x. rewrite count_occ_app. lia. Qed.
Lemma sub_app_r A B : sub B (A ++ B). Proof. intros x. rewrite count_occ_app. lia. Qed.
Lemma sub_NoDup L M : sub L M -> NoDup M -> NoDup L.
Proof.
  intros H N. apply (NoDup_count_occ Nat.eq_dec). intros x. rewrite (NoDup_count_occ Nat.eq_dec) in N. specialize (H x). specialize (N x). lia.
Qed.
Lemma sub_In L M x : sub L M -> In x L -> In x M.
Proof.
  intros H Hin. apply (count_occ_In Nat.eq_dec) in Hin. apply (count_occ_In Nat.eq_dec). specialize (H x). lia.
Qed.

(* the items of one key, and of two different keys, are part of the node *)
Lemma sub_items_key items k : sub (flat_map vids (map snd (filter (fun kv => key_beq (fst kv) k) items))) (iids items).
Proof.
  induction items as [|[k0 v] r IH]; cbn [filter map flat_map iids fst snd]; [apply sub_refl|].
  destruct (key_beq k0 k); cbn [map flat_map snd].
  - apply sub_app; [apply sub_refl | exact IH].
  - eapply sub_trans; [exact IH | apply sub_app_r].
Qed.
Lemma sub_get_items n k : sub (flat_map vids (get_items n k)) (nids n).
Proof. destruct n as [rt items]. rewrite nids_eq. unfold get_items. cbn [node_items]. apply sub_items_key. Qed.

Lemma key_beq_true a b : key_beq a b = true -> a = b.
Proof.
  destruct a, b; cbn; intros H; try discriminate H; try reflexivity; f_equal; [now apply kind_beq_eq | now apply rule_beq_eq].
Qed.

Definition grp (items : list (key * value)) (k : key) : list nat :=
  flat_map vids (map snd (filter (fun kv => key_beq (fst kv) k) items)).

Lemma sub_two items k1 k2 : key_beq k1 k2 = false -> sub (grp items k1 ++ grp items k2) (iids items).
Proof.
  intros D. unfold grp. induction items as [|[k0 v] r IH]; cbn [filter map flat_map iids fst snd]; [apply sub_refl|].
  destruct (key_beq k0 k1) eqn:E1, (key_beq k0 k2) eqn:E2; cbn [map flat_map snd].
  - apply key_beq_true in E1, E2. subst. assert (X : key_beq k2 k2 = true) by (destruct k2; cbn; [apply kind_beq_eq | apply rule_beq_eq |]; reflexivity). congruence.
  - intros x. specialize (IH x). unfold iids in *. rewrite !count_occ_app in *. lia.
  - intros x. specialize (IH x). unfold iids in *. rewrite !count_occ_app in *. lia.
  - intros x. specialize (IH x). unfold iids in *. rewrite !count_occ_app in *. lia.
Qed.

Lemma sub_three items k1 k2 k3 : key_beq k1 k2 = false -> key_beq k1 k3 = false -> key_beq k2 k3 = false ->
  sub (grp items k1 ++ grp items k2 ++ grp items k3) (iids items).
Proof.
  intros D12 D13 D23. unfold grp. induction items as [|[k0 v] r IH]; cbn [filter map flat_map iids fst snd]; [apply sub_refl|].
  assert (R : forall k, key_beq k k = true) by (intros k; destruct k; cbn; [apply kind_beq_eq | apply rule_beq_eq |]; reflexivity).
  destruct (key_beq k0 k1) eqn:E1, (key_beq k0 k2) eqn:E2, (key_beq k0 k3) eqn:E3; cbn [map flat_map snd];
    try (apply key_beq_true in E1); try (apply key_beq_true in E2); try (apply key_beq_true in E3); subst;
    try (rewrite R in *; discriminate);
    intros x; specialize (IH x); unfold iids in *; rewrite !count_occ_app in *; lia.
Qed.

Lemma grp_items n k : flat_map vids (get_items n k) = grp (node_items n) k.
Proof. reflexivity. Qed.
Lemma nids_items n : nids n = iids (node_items n).
Proof. destruct n. apply nids_eq. Qed.

(* the first item of a key *)
Lemma sub_single n k v : get_single n k = Some v -> sub (vids v) (grp (node_items n) k).
Proof.
  unfold get_single. rewrite <- grp_items. destruct (get_items n k) as [|v0 r]; [discriminate|]. intros H. inversion H; subst.
  cbn [flat_map]. apply sub_app_l.
Qed.

(* ---- typed extraction keeps the ids ---- *)
Lemma steps_of_ids vs steps : steps_of vs = Some steps -> flat_map step_ids steps = flat_map vids vs.
Proof.
  revert steps. induction vs as [|v r IH]; intros steps H; cbn in H; [inversion H; reflexivity|].
  destruct v; try discriminate H. destruct (steps_of r) as [l|]; [|discriminate H]. inversion H; subst. cbn. now rewrite (IH l eq_refl).
Qed.
Lemma scenarios_of_ids vs l : scenarios_of vs = Some l -> flat_map sc_ids l = flat_map vids vs.
Proof.
  revert l. induction vs as [|v r IH]; intros l H; cbn in H; [inversion H; reflexivity|].
  destruct v; try discriminate H. destruct (scenarios_of r) as [l0|]; [|discriminate H]. inversion H; subst. cbn. now rewrite (IH l0 eq_refl).
Qed.
Lemma examples_of_ids vs l : examples_of vs = Some l -> flat_map ex_ids l = flat_map vids vs.
Proof.
  revert l. induction vs as [|v r IH]; intros l H; cbn in H; [inversion H; reflexivity|].
  destruct v; try discriminate H. destruct (examples_of r) as [l0|]; [|discriminate H]. inversion H; subst. cbn. now rewrite (IH l0 eq_refl).
Qed.
Lemma rules_of_ids vs l : rules_of vs = Some l ->
  flat_map (fun r => match r with Some x => ru_ids x | None => [] end) l = flat_map vids vs.
Proof.
  revert l. induction vs as [|v r IH]; intros l H; cbn in H; [inversion H; reflexivity|].
  destruct v; try discriminate H; (destruct (rules_of r) as [l0|]; [|discriminate H]); inversion H; subst; cbn; now rewrite (IH l0 eq_refl).
Qed.

(* ---- fresh ids are consecutive ---- *)
Lemma tags_of_items_ids t its : forall i tags i', tags_of_items t its i = (tags, i') -> i' = i + length its /\ tag_ids tags = seq i (length its).
Proof.
  induction its as [|[c x] r IH]; intros i tags i' H; cbn in H.
  - inversion H; subst. cbn. split; [lia | reflexivity].
  - destruct (tags_of_items t r (S i)) as [tl j] eqn:E. inversion H; subst. destruct (IH _ _ _ E) as [-> Hs]. unfold tag_ids in *. cbn [map tg_id length seq]. rewrite Hs. split; [lia | reflexivity].
Qed.
Lemma seq_app2 a n m : seq a (n + m) = seq a n ++ seq (a + n) m.
Proof. apply seq_app. Qed.
Lemma tags_of_tokens_ids ts : forall i tags i', tags_of_tokens ts i = (tags, i') -> i <= i' /\ tag_ids tags = seq i (i' - i).
Proof.
  induction ts as [|t r IH]; intros i tags i' H; cbn in H.
  - inversion H; subst. rewrite Nat.sub_diag. split; [lia | reflexivity].
  - destruct (tags_of_items t (m_items t) i) as [a i1] eqn:E1. destruct (tags_of_tokens r i1) as [b i2] eqn:E2. inversion H; subst.
    destruct (tags_of_items_ids _ _ _ _ _ E1) as [-> Ha]. destruct (IH _ _ _ E2) as [Le Hb]. split; [lia|].
    unfold tag_ids in *. rewrite map_app, Ha, Hb. replace (i' - i) with (length (m_items t) + (i' - (i + length (m_items t)))) by lia.
    now rewrite seq_app2.
Qed.
Lemma rows_of_tokens_ids ts : forall i rows i', rows_of_tokens ts i = (rows, i') -> i' = i + length ts /\ row_ids rows = seq i (length ts).
Proof.
  induction ts as [|t r IH]; intros i rows i' H; cbn in H.
  - inversion H; subst. cbn. split; [lia | reflexivity].
  - destruct (rows_of_tokens r (S i)) as [rs j] eqn:E. inversion H; subst. destruct (IH _ _ _ E) as [-> Hs]. unfold row_ids in *. cbn [map r_id length seq]. rewrite Hs. split; [lia | reflexivity].
Qed.
Lemma get_tags_ids n i : match get_tags n i with
                         | TOk tags i' => i <= i' /\ tag_ids tags = seq i (i' - i)
                         | TRaise _ _ => False
                         | TCrash => True
                         end.
Proof.
  unfold get_tags. destruct (get_single n (KR RTags)) as [v|]; [destruct v; try exact I|].
  - destruct (get_tokens n0 KTagLine) as [ts|]; [|exact I]. destruct (tags_of_tokens ts i) as [tg j] eqn:E.
    apply (tags_of_tokens_ids _ _ _ _ E).
  - rewrite Nat.sub_diag. split; [lia | reflexivity].
Qed.
Lemma get_table_rows_ids n i : match get_table_rows n i with
                               | TOk rows i' => i <= i' /\ row_ids rows = seq i (i' - i)
                               | TRaise _ i' => i <= i'
                               | TCrash => True
                               end.
Proof.
  unfold get_table_rows. destruct (get_tokens n KTableRow) as [ts|]; [|exact I].
  destruct (rows_of_tokens ts i) as [rows j] eqn:E. destruct (rows_of_tokens_ids _ _ _ _ E) as [-> Hs].
  destruct (first_ragged rows); [lia|]. split; [lia|]. rewrite Hs. f_equal. lia.
Qed.

Ltac inner x := lazymatch x with context [match _ with _ => _ end] => fail | _ => idtac end.
Ltac peel := repeat match goal with
                    | |- context [match ?x with _ => _ end] => inner x; destruct x eqn:?
                    end.

Definition ids_post (n : node) (i : nat) (r : tres value) : Prop :=
  match r with
  | TOk v i' => i <= i' /\ exists A B, vids v = A ++ B /\ sub A (nids n) /\ sub B (seq i (i' - i))
  | TRaise _ i' => i <= i'
  | TCrash => True
  end.

Lemma post_old n i v A : vids v = A -> sub A (nids n) -> ids_post n i (TOk v i).
Proof. intros E S. cbn. split; [lia|]. exists A, []. rewrite app_nil_r. split; [exact E|]. split; [exact S | apply sub_nil]. Qed.
Lemma post_new n i i' v A B : i <= i' -> vids v = A ++ B -> sub A (nids n) -> sub B (seq i (i' - i)) -> ids_post n i (TOk v i').
Proof. intros L E S1 S2. cbn. split; [exact L|]. exists A, B. auto. Qed.

Lemma sub_single_n n k v : get_single n k = Some v -> sub (vids v) (nids n).
Proof. intros H. eapply sub_trans; [apply (sub_single n k v H)|]. rewrite <- grp_items. apply sub_get_items. Qed.

Lemma seq_snoc a k : seq a k ++ [a + k] = seq a (S k).
Proof. replace (S k) with (k + 1) by lia. rewrite seq_app. reflexivity. Qed.

Lemma ids_rows n c i : node_rt n = KR RDataTable \/ node_rt n = KR RExamplesTable -> ids_post n i (transform_node n c i).
Proof.
  intros Rt. unfold transform_node. pose proof (get_table_rows_ids n i) as G.
  destruct Rt as [Rt|Rt]; rewrite Rt; unfold tbind; destruct (get_table_rows n i) as [rows i'|e i'|]; cbn [ids_post]; auto.
  - destruct rows as [|r0 rs]; [exact I|]. destruct G as [Le Hs]. apply post_new with (A := []) (B := row_ids (r0 :: rs)); [exact Le | reflexivity | apply sub_nil | rewrite Hs; apply sub_refl].
  - destruct G as [Le Hs]. apply post_new with (A := []) (B := row_ids rows); [exact Le | reflexivity | apply sub_nil | rewrite Hs; apply sub_refl].
Qed.

Lemma ids_noids n c i : node_rt n = KR RDocString \/ node_rt n = KR RDescription -> ids_post n i (transform_node n c i).
Proof.
  intros Rt. unfold transform_node. destruct Rt as [Rt|Rt]; rewrite Rt; unfold opt_crash; peel; cbn [ids_post]; auto;
    (apply post_old with (A := []); [reflexivity | apply sub_nil]).
Qed.

Lemma ids_step n c i : node_rt n = KR RStep -> ids_post n i (transform_node n c i).
Proof.
  intros Rt. unfold transform_node. rewrite Rt. unfold opt_crash.
  destruct (get_token n KStepLine) as [[sl|]|]; cbn [ids_post]; auto.
  destruct (m_keyword sl); cbn [ids_post]; auto. destruct (m_ktype sl); cbn [ids_post]; auto. destruct (m_text sl); cbn [ids_post]; auto.
  destruct (get_single n (KR RDataTable)) as [v|] eqn:Gd.
  - destruct v; cbn [ids_post]; auto.
    apply post_new with (A := row_ids rows) (B := [i]); [lia | reflexivity | apply (sub_single_n n _ _ Gd) |].
    replace (S i - i) with 1 by lia. apply sub_refl.
  - destruct (get_single n (KR RDocString)) as [v|]; [destruct v|]; cbn [ids_post]; auto;
      (apply post_new with (A := []) (B := [i]); [lia | reflexivity | apply sub_nil | replace (S i - i) with 1 by lia; apply sub_refl]).
Qed.

Lemma ids_background n c i : node_rt n = KR RBackground -> ids_post n i (transform_node n c i).
Proof.
  intros Rt. unfold transform_node. rewrite Rt. unfold opt_crash.
  destruct (get_token n KBackgroundLine) as [[bl|]|]; cbn [ids_post]; auto.
  destruct (m_keyword bl); cbn [ids_post]; auto. destruct (m_text bl); cbn [ids_post]; auto.
  destruct (get_description n); cbn [ids_post]; auto.
  destruct (get_steps n) as [steps|] eqn:Gs; cbn [ids_post]; auto.
  apply post_new with (A := flat_map step_ids steps) (B := [i]); [lia | reflexivity | | replace (S i - i) with 1 by lia; apply sub_refl].
  unfold get_steps in Gs. rewrite (steps_of_ids _ _ Gs). apply sub_get_items.
Qed.

Lemma sub_seq_app a k1 : sub (seq a k1 ++ [a + k1]) (seq a (S k1)).
Proof. rewrite seq_snoc. apply sub_refl. Qed.

Lemma sub_tags_new i i1 tags : i <= i1 -> tag_ids tags = seq i (i1 - i) -> sub (tag_ids tags ++ [i1]) (seq i (S i1 - i)).
Proof.
  intros Le Ht. rewrite Ht. remember (i1 - i) as k. replace (S i1 - i) with (S k) by lia. replace [i1] with [i + k] by (f_equal; lia). apply sub_seq_app.
Qed.

Lemma ids_scenario n c i : node_rt n = KR RScenarioDefinition -> ids_post n i (transform_node n c i).
Proof.
  intros Rt. unfold transform_node. rewrite Rt. unfold tbind, opt_crash.
  pose proof (get_tags_ids n i) as Gt. destruct (get_tags n i) as [tags i1|e i1|]; cbn [ids_post]; auto; [|contradiction].
  destruct Gt as [Le Ht].
  destruct (get_single n (KR RScenario)) as [v|] eqn:Gsn; [destruct v as [| sn | | | | | | | | | | | |]|]; cbn [ids_post]; auto.
  destruct (get_token sn KScenarioLine) as [[sl|]|]; cbn [ids_post]; auto.
  destruct (m_keyword sl); cbn [ids_post]; auto. destruct (m_text sl); cbn [ids_post]; auto.
  destruct (get_description sn); cbn [ids_post]; auto.
  destruct (get_steps sn) as [steps|] eqn:Gs; cbn [ids_post]; auto.
  destruct (examples_of (get_items sn (KR RExamplesDefinition))) as [exs|] eqn:Ge; cbn [ids_post]; auto.
  apply post_new with (A := flat_map step_ids steps ++ flat_map ex_ids exs) (B := tag_ids tags ++ [i1]).
  - lia.
  - reflexivity.
  - unfold get_steps in Gs. rewrite (steps_of_ids _ _ Gs), (examples_of_ids _ _ Ge), !grp_items.
    eapply sub_trans; [apply (sub_two (node_items sn) (KR RStep) (KR RExamplesDefinition) eq_refl)|].
    rewrite <- nids_items. exact (sub_single_n n _ _ Gsn).
  - apply sub_tags_new; assumption.
Qed.

Lemma rows_split rs : match hd_error rs with Some r => [r_id r] | None => [] end ++ row_ids (tl rs) = row_ids rs.
Proof. destruct rs; reflexivity. Qed.

Lemma ids_examples n c i : node_rt n = KR RExamplesDefinition -> ids_post n i (transform_node n c i).
Proof.
  intros Rt. unfold transform_node. rewrite Rt. unfold tbind, opt_crash.
  pose proof (get_tags_ids n i) as Gt. destruct (get_tags n i) as [tags i1|e i1|]; cbn [ids_post]; auto; [|contradiction].
  destruct Gt as [Le Ht].
  destruct (get_single n (KR RExamples)) as [v|] eqn:Gen; [destruct v as [| en | | | | | | | | | | | |]|]; cbn [ids_post]; auto.
  destruct (get_token en KExamplesLine) as [[el|]|]; cbn [ids_post]; auto.
  destruct (m_keyword el); cbn [ids_post]; auto. destruct (m_text el); cbn [ids_post]; auto.
  destruct (get_description en); cbn [ids_post]; auto.
  assert (B : sub (tag_ids tags ++ [i1]) (seq i (S i1 - i))).
  { apply sub_tags_new; assumption. }
  destruct (get_single en (KR RExamplesTable)) as [v|] eqn:Gt2; [destruct v|]; cbn [ids_post]; auto.
  - apply post_new with (A := row_ids rs) (B := tag_ids tags ++ [i1]); [lia | | | exact B].
    + unfold vids, ex_ids. cbn [ex_header ex_body ex_tags ex_id]. now rewrite rows_split.
    + eapply sub_trans; [apply (sub_single_n en _ _ Gt2)|]. exact (sub_single_n n _ _ Gen).
  - apply post_new with (A := []) (B := tag_ids tags ++ [i1]); [lia | reflexivity | apply sub_nil | exact B].
Qed.

Lemma flat_rchild bgc scs : flat_map rchild_ids (bgc ++ map RCScenario scs) = flat_map rchild_ids bgc ++ flat_map sc_ids scs.
Proof. rewrite flat_map_app. f_equal. induction scs as [|s r IH]; cbn; [reflexivity|]. now rewrite IH. Qed.

Lemma ids_rule n c i : node_rt n = KR RRule -> ids_post n i (transform_node n c i).
Proof.
  intros Rt. unfold transform_node. rewrite Rt. unfold tbind, opt_crash.
  destruct (get_single n (KR RRuleHeader)) as [v|] eqn:Gh; [destruct v as [| hn | | | | | | | | | | | |]|]; cbn [ids_post]; auto;
    try (apply post_old with (A := []); [reflexivity | apply sub_nil]).
  pose proof (get_tags_ids hn i) as Gt. destruct (get_tags hn i) as [tags i1|e i1|]; cbn [ids_post]; auto; [|contradiction].
  destruct Gt as [Le Ht].
  destruct (get_token hn KRuleLine) as [[rl|]|]; cbn [ids_post]; auto.
  2:{ apply post_new with (A := []) (B := []); [exact Le | reflexivity | apply sub_nil | apply sub_nil]. }
  destruct (m_keyword rl); cbn [ids_post]; auto. destruct (m_text rl); cbn [ids_post]; auto.
  assert (Tg : sub (tag_ids tags ++ [i1]) (seq i (S i1 - i))) by (apply sub_tags_new; assumption).
  assert (Two : forall A, sub A (grp (node_items n) (KR RBackground)) ->
                sub (A ++ grp (node_items n) (KR RScenarioDefinition)) (nids n)).
  { intros A HA. eapply sub_trans; [apply sub_app; [exact HA | apply sub_refl]|].
    rewrite nids_items. apply (sub_two (node_items n) (KR RBackground) (KR RScenarioDefinition) eq_refl). }
  destruct (get_single n (KR RBackground)) as [v|] eqn:Gb; [destruct v|]; cbn [ids_post]; auto;
    destruct (scenarios_of (get_items n (KR RScenarioDefinition))) as [scs|] eqn:Gs; cbn [ids_post]; auto;
    destruct (get_description hn); cbn [ids_post]; auto.
  - apply post_new with (A := bg_ids b ++ flat_map sc_ids scs) (B := tag_ids tags ++ [i1]); [lia | | | exact Tg].
    + unfold vids, ru_ids. cbn [ru_children ru_tags ru_id]. rewrite flat_rchild. cbn [flat_map rchild_ids]. rewrite app_nil_r. reflexivity.
    + rewrite (scenarios_of_ids _ _ Gs), grp_items. apply Two. apply (sub_single n _ _ Gb).
  - apply post_new with (A := [] ++ flat_map sc_ids scs) (B := tag_ids tags ++ [i1]); [lia | | | exact Tg].
    + unfold vids, ru_ids. cbn [ru_children ru_tags ru_id]. rewrite flat_rchild. reflexivity.
    + rewrite (scenarios_of_ids _ _ Gs), grp_items. apply Two. apply sub_nil.
Qed.

Lemma flat_fchild bgc scs rls :
  flat_map fchild_ids (bgc ++ map FCScenario scs ++ flat_map (fun r => match r with Some x => [FCRule x] | None => [] end) rls)
  = flat_map fchild_ids bgc ++ flat_map sc_ids scs ++ flat_map (fun r => match r with Some x => ru_ids x | None => [] end) rls.
Proof.
  rewrite !flat_map_app. f_equal. f_equal.
  - induction scs as [|s r IH]; cbn; [reflexivity|]. now rewrite IH.
  - induction rls as [|[x|] r IH]; cbn; [reflexivity | now rewrite IH | exact IH].
Qed.

Lemma ids_feature n c i : node_rt n = KR RFeature -> ids_post n i (transform_node n c i).
Proof.
  intros Rt. unfold transform_node. rewrite Rt. unfold tbind, opt_crash.
  destruct (get_single n (KR RFeatureHeader)) as [v|] eqn:Gh; [destruct v as [| hn | | | | | | | | | | | |]|]; cbn [ids_post]; auto;
    try (apply post_old with (A := []); [reflexivity | apply sub_nil]).
  pose proof (get_tags_ids hn i) as Gt. destruct (get_tags hn i) as [tags i1|e i1|]; cbn [ids_post]; auto; [|contradiction].
  destruct Gt as [Le Ht].
  destruct (get_token hn KFeatureLine) as [[fl|]|]; cbn [ids_post]; auto.
  2:{ apply post_new with (A := []) (B := []); [exact Le | reflexivity | apply sub_nil | apply sub_nil]. }
  destruct (m_keyword fl); cbn [ids_post]; auto. destruct (m_text fl); cbn [ids_post]; auto.
  assert (Tg : sub (tag_ids tags) (seq i (i1 - i))) by (rewrite Ht; apply sub_refl).
  assert (Three : forall A, sub A (grp (node_items n) (KR RBackground)) ->
                sub (A ++ grp (node_items n) (KR RScenarioDefinition) ++ grp (node_items n) (KR RRule)) (nids n)).
  { intros A HA. eapply sub_trans; [apply sub_app; [exact HA | apply sub_refl]|].
    rewrite nids_items. apply (sub_three (node_items n) (KR RBackground) (KR RScenarioDefinition) (KR RRule) eq_refl eq_refl eq_refl). }
  destruct (get_single n (KR RBackground)) as [v|] eqn:Gb; [destruct v|]; cbn [ids_post]; auto;
    destruct (scenarios_of (get_items n (KR RScenarioDefinition))) as [scs|] eqn:Gs; cbn [ids_post]; auto;
    destruct (rules_of (get_items n (KR RRule))) as [rls|] eqn:Gr; cbn [ids_post]; auto;
    destruct (get_description hn); cbn [ids_post]; auto;
    destruct (forallb _ rls); cbn [ids_post]; auto.
  - apply post_new with (A := bg_ids b ++ flat_map sc_ids scs ++ flat_map (fun r => match r with Some x => ru_ids x | None => [] end) rls) (B := tag_ids tags);
      [exact Le | | | exact Tg].
    + unfold vids, f_ids. cbn [f_children f_tags]. rewrite flat_fchild. cbn [flat_map fchild_ids]. rewrite app_nil_r. now rewrite <- !app_assoc.
    + rewrite (scenarios_of_ids _ _ Gs), (rules_of_ids _ _ Gr), !grp_items. apply Three. apply (sub_single n _ _ Gb).
  - apply post_new with (A := [] ++ flat_map sc_ids scs ++ flat_map (fun r => match r with Some x => ru_ids x | None => [] end) rls) (B := tag_ids tags);
      [exact Le | | | exact Tg].
    + unfold vids, f_ids. cbn [f_children f_tags]. rewrite flat_fchild. cbn [flat_map app]. reflexivity.
    + rewrite (scenarios_of_ids _ _ Gs), (rules_of_ids _ _ Gr), !grp_items. apply Three. apply sub_nil.
Qed.

Lemma ids_document n c i : node_rt n = KR RGherkinDocument -> ids_post n i (transform_node n c i).
Proof.
  intros Rt. unfold transform_node. rewrite Rt.
  destruct (get_single n (KR RFeature)) as [v|] eqn:Gf; [destruct v|]; cbn [ids_post]; auto;
    try (apply post_old with (A := []); [reflexivity | apply sub_nil]).
  apply post_old with (A := f_ids f); [reflexivity | exact (sub_single_n n _ _ Gf)].
Qed.

Theorem transform_ids n c i : ids_post n i (transform_node n c i).
Proof.
  destruct (node_rt n) as [k|r|] eqn:Rt.
  - unfold transform_node. rewrite Rt. apply post_old with (A := nids n); [reflexivity | apply sub_refl].
  - destruct r; try (unfold transform_node; rewrite Rt; apply post_old with (A := nids n); [reflexivity | apply sub_refl]).
    + apply ids_document, Rt.
    + apply ids_feature, Rt.
    + apply ids_rule, Rt.
    + apply ids_background, Rt.
    + apply ids_scenario, Rt.
    + apply ids_examples, Rt.
    + apply ids_rows. now right.
    + apply ids_step, Rt.
    + apply ids_rows. now left.
    + apply ids_noids. now left.
    + apply ids_noids. now right.
  - unfold transform_node. rewrite Rt. apply post_old with (A := nids n); [reflexivity | apply sub_refl].
Qed.

(* ---- the builder stack ---- *)
Definition good (lo hi : nat) (L : list nat) : Prop :=
  forall x, count_occ Nat.eq_dec L x <= 1 /\ (In x L -> lo <= x < hi).
Definition bgood (lo : nat) (b : bstate) : Prop := lo <= b_idc b /\ good lo (b_idc b) (flat_map nids (b_stack b)).

Lemma nids_add n k v : nids (node_add n k v) = nids n ++ vids v.
Proof. destruct n as [rt items]. cbn [node_add]. rewrite !nids_eq. unfold iids. rewrite flat_map_app. cbn. now rewrite app_nil_r. Qed.

Lemma count_seq_le a k x : count_occ Nat.eq_dec (seq a k) x <= 1.
Proof. pose proof (seq_NoDup k a) as N. rewrite (NoDup_count_occ Nat.eq_dec) in N. apply N. Qed.
Lemma count_seq_in a k x : count_occ Nat.eq_dec (seq a k) x >= 1 -> a <= x < a + k.
Proof. intros H. apply in_seq. apply (count_occ_In Nat.eq_dec). lia. Qed.

Lemma good_end lo i i' Ln Lc Lr A B :
  lo <= i -> i <= i' -> good lo i (Ln ++ Lc ++ Lr) -> sub A Ln -> sub B (seq i (i' - i)) -> good lo i' ((Lc ++ A ++ B) ++ Lr).
Proof.
  intros Llo Le G SA SB x. specialize (G x) as [Gc Gr]. specialize (SA x). specialize (SB x).
  pose proof (count_seq_le i (i' - i) x) as S1. pose proof (count_seq_in i (i' - i) x) as S2.
  rewrite !count_occ_app in *.
  assert (Old : count_occ Nat.eq_dec Ln x + count_occ Nat.eq_dec Lc x + count_occ Nat.eq_dec Lr x >= 1 -> lo <= x < i).
  { intros H. apply Gr. apply (count_occ_In Nat.eq_dec). rewrite !count_occ_app. lia. }
  destruct (Nat.eq_dec (count_occ Nat.eq_dec B x) 0) as [Z|NZ].
  - split; [lia|]. intros Hin. apply (count_occ_In Nat.eq_dec) in Hin. rewrite !count_occ_app in Hin.
    assert (lo <= x < i) by (apply Old; lia). lia.
  - assert (R : i <= x < i + (i' - i)) by (apply S2; lia).
    split; [|intros _; lia].
    destruct (Nat.eq_dec (count_occ Nat.eq_dec Ln x + count_occ Nat.eq_dec Lc x + count_occ Nat.eq_dec Lr x) 0); [lia|].
    assert (lo <= x < i) by (apply Old; lia). lia.
Qed.

Lemma good_sub lo hi hi' L M : hi <= hi' -> good lo hi M -> sub L M -> good lo hi' L.
Proof.
  intros Le G S x. specialize (G x) as [Gc Gr]. specialize (S x). split; [lia|].
  intros Hin. apply (count_occ_In Nat.eq_dec) in Hin. assert (In x M) by (apply (count_occ_In Nat.eq_dec); lia). specialize (Gr H). lia.
Qed.

Lemma bgood_start lo r b : bgood lo b -> match builder_start r b with BoOk b' | BoRaise _ b' => bgood lo b' | BoCrash => True end.
Proof. intros [L G]. unfold builder_start. split; [exact L|]. cbn [b_idc b_stack flat_map]. rewrite nids_eq. exact G. Qed.

Lemma bgood_build lo t b : bgood lo b -> match builder_build t b with BoOk b' | BoRaise _ b' => bgood lo b' | BoCrash => True end.
Proof.
  intros [L G]. unfold builder_build. destruct (m_type t) as [k|]; [|exact I].
  assert (Gen : match b_stack b with
                | [] => True
                | cur :: stk => bgood lo (mk_bstate (node_add cur (KT k) (VTok t) :: stk) (b_comments b) (b_idc b))
                end).
  { destruct (b_stack b) as [|cur stk] eqn:S; [exact I|]. split; [exact L|]. cbn [b_idc b_stack flat_map]. rewrite nids_add. cbn [vids].
    rewrite app_nil_r. exact G. }
  destruct k; try (destruct (b_stack b); [exact I | exact Gen]).
  destruct (m_text t); [|exact I]. split; [exact L | exact G].
Qed.

Lemma bgood_end lo r b : bgood lo b -> match builder_end r b with BoOk b' | BoRaise _ b' => bgood lo b' | BoCrash => True end.
Proof.
  intros [L G]. unfold builder_end. destruct (b_stack b) as [|n stk] eqn:S; [exact I|].
  pose proof (transform_ids n (b_comments b) (b_idc b)) as T.
  destruct (transform_node n (b_comments b) (b_idc b)) as [v i'|e i'|]; cbn [ids_post] in T; [| |exact I].
  - destruct T as (Le & A & B & Ev & SA & SB). destruct stk as [|cur stk']; [exact I|].
    split; [cbn; lia|]. cbn [b_idc b_stack flat_map]. rewrite nids_add, Ev. cbn [flat_map] in G.
    apply (good_end lo (b_idc b) i' (nids n) (nids cur) (flat_map nids stk') A B L Le G SA SB).
  - split; [cbn; lia|]. cbn [b_idc b_stack]. cbn [flat_map] in G. apply (good_sub lo (b_idc b) i' _ _ T G). apply sub_app_r.
Qed.

(* ---- through the interpreter ---- *)
Require Import Automaton AutoFacts InterpInv Pipeline PipelineFacts Dialects Table Compiler CompilerSpec.

Lemma lift_good lo o : match o with BoOk b' | BoRaise _ b' => bgood lo b' | BoCrash => True end ->
  forall c : pctx, match lift_bout o with BOk b' | BRaise _ b' => bgood lo (bs (set_bs b' c)) | BCrash => True end.
Proof. destruct o; cbn; auto. Qed.

Theorem pipeline_ids stop toks m b lo : bgood lo (reset_builder b) ->
  sat (parse_tokens stop toks m b) (fun _ c => bgood lo (bs c)) (fun c => bgood lo (bs c)) True.
Proof.
  intros G. unfold parse_tokens, parse_tokens_with.
  apply (parse_J (pipeline_params Table.table) (fun c => bgood lo (bs c))).
  - intros c c' _ Eb H. rewrite Eb. exact H.
  - intros k t c H. cbn [matchf pipeline_params]. destruct (p_matchf k (ms c) t); exact H.
  - intros r c H. cbn [b_start pipeline_params]. unfold p_bstart. apply lift_good, bgood_start, H.
  - intros r c H. cbn [b_end pipeline_params]. unfold p_bend. apply lift_good, bgood_end, H.
  - intros t c H. cbn [b_build pipeline_params]. unfold p_bbuild. apply lift_good, bgood_build, H.
  - exact G.
Qed.

Lemma reset_good b : bgood (b_idc b) (reset_builder b).
Proof. split; [cbn; lia|]. intros x. cbn. split; [lia | intros []]. Qed.

Lemma result_ids lo b d : bgood lo b -> builder_result b = Some d ->
  NoDup (doc_ids d) /\ Forall (fun x => lo <= x < b_idc b) (doc_ids d).
Proof.
  intros [L G] R. unfold builder_result in R. destruct (b_stack b) as [|cur stk] eqn:S; [discriminate|].
  destruct (get_single cur (KR RGherkinDocument)) as [v|] eqn:Gs; [|discriminate]. destruct v; try discriminate. inversion R; subst d0.
  assert (Sb : sub (doc_ids d) (nids cur ++ flat_map nids stk)).
  { eapply sub_trans; [exact (sub_single_n cur _ _ Gs) | apply sub_app_l]. }
  cbn [flat_map] in G. split.
  - apply (NoDup_count_occ Nat.eq_dec). intros x. specialize (G x) as [Gc _]. specialize (Sb x). lia.
  - apply Forall_forall. intros x Hx. apply (G x). apply (sub_In _ _ x Sb Hx).
Qed.

(* the ids of the AST of an accepted document: pairwise distinct, all drawn during this parse *)
Theorem ast_ids stop m b src d m1 b1 n : parse_source stop m b src = POk d m1 b1 n ->
  b_idc b <= b_idc b1 /\ NoDup (doc_ids d) /\ Forall (fun x => b_idc b <= x < b_idc b1) (doc_ids d).
Proof.
  unfold parse_source. pose proof (pipeline_ids stop (scan src) m b (b_idc b) (reset_good b)) as P.
  destruct (parse_tokens stop (scan src) m b) as [[] c|e c|es c|c|]; cbn [sat] in P; try discriminate.
  destruct (builder_result (bs c)) as [d0|] eqn:R; [|discriminate]. intros H. inversion H; subst.
  destruct (result_ids _ _ _ P R) as [N F]. destruct P as [L _]. auto.
Qed.

(* all ids of one accepted source -- its AST and its pickles -- are pairwise distinct *)
Lemma NoDup_app' {A} (l1 l2 : list A) : NoDup l1 -> NoDup l2 -> (forall x, In x l1 -> In x l2 -> False) -> NoDup (l1 ++ l2).
Proof.
  induction l1 as [|a l1 IH]; intros N1 N2 D; [exact N2|]. inversion N1 as [|a' l' Na Nl]; subst. cbn. constructor.
  - intros X. apply in_app_or in X as [X|X]; [contradiction | apply (D a); [now left | exact X]].
  - apply IH; auto. intros x Hx1 Hx2. apply (D x); [now right | exact Hx2].
Qed.

Theorem source_ids_distinct stop m b src d m1 b1 n uri ps i :
  parse_source stop m b src = POk d m1 b1 n -> compile uri d (b_idc b1) = Some (ps, i) ->
  NoDup (doc_ids d ++ flat_map pickle_ids ps)
  /\ Forall (fun x => b_idc b <= x < i) (doc_ids d ++ flat_map pickle_ids ps).
Proof.
  intros Hp Hc. destruct (ast_ids _ _ _ _ _ _ _ _ Hp) as (L & N & F).
  destruct (pickles_ids uri d (b_idc b1) ps i Hc) as [Li Hs]. rewrite Hs. rewrite Forall_forall in F. split.
  - apply NoDup_app'; [exact N | apply seq_NoDup|]. intros x Hx Hy. apply in_seq in Hy. specialize (F x Hx). lia.
  - apply Forall_forall. intros x Hx. apply in_app_or in Hx as [Hx|Hx]; [specialize (F x Hx); lia | apply in_seq in Hx; lia].
Qed.
