(* Declarative reading of pickles/compiler.py and the proof that the
   accumulator-style model (theories/Compiler.v) computes it.

   A document is flattened, in document order, into *units*: one per scenario
   without examples, one per body row of each examples table that has a header.
   Each unit knows the tags and background steps in scope.  The compiler is a
   threaded map (the id counter is the thread) of `compile_unit` over the units;
   every property of C06..C11 about pickles is then a pointwise fact about
   `compile_unit`. *)
From Coq Require Import List Bool Arith NArith Lia.
Import ListNotations.
Require Import PyStr Matcher Ast Compiler.

(* ---------------------------------------------------------------- threaded map *)
Fixpoint tmap {A B} (f : A -> nat -> option (B * nat)) (l : list A) (idc : nat) : option (list B * nat) :=
  match l with
  | [] => Some ([], idc)
  | a :: r =>
    match f a idc with
    | None => None
    | Some (b, i) =>
      match tmap f r i with
      | None => None
      | Some (bs, i') => Some (b :: bs, i')
      end
    end
  end.

Lemma tmap_app {A B} (f : A -> nat -> option (B * nat)) l1 l2 idc :
  tmap f (l1 ++ l2) idc =
  match tmap f l1 idc with
  | None => None
  | Some (bs, i) => match tmap f l2 i with None => None | Some (bs', i') => Some (bs ++ bs', i') end
  end.
Proof.
  revert idc. induction l1 as [|a l1 IH]; intros idc; simpl.
  - destruct (tmap f l2 idc) as [[bs i]|]; reflexivity.
  - destruct (f a idc) as [[b i]|]; [|reflexivity]. rewrite IH.
    destruct (tmap f l1 i) as [[bs i1]|]; [|reflexivity].
    destruct (tmap f l2 i1) as [[bs' i2]|]; reflexivity.
Qed.

Lemma tmap_map {A B C} (f : A -> nat -> option (B * nat)) (g : B -> C) (h : A -> C) :
  (forall a i b i', f a i = Some (b, i') -> g b = h a) ->
  forall l idc bs i', tmap f l idc = Some (bs, i') -> map g bs = map h l.
Proof.
  intros H. induction l as [|a l IH]; intros idc bs i' E; simpl in E.
  - inversion E. reflexivity.
  - destruct (f a idc) as [[b i]|] eqn:F; [|discriminate].
    destruct (tmap f l i) as [[bs0 i0]|] eqn:T; [|discriminate]. inversion E; subst.
    simpl. f_equal; eauto.
Qed.

Lemma tmap_length {A B} (f : A -> nat -> option (B * nat)) l idc bs i' :
  tmap f l idc = Some (bs, i') -> length bs = length l.
Proof.
  revert idc bs i'. induction l as [|a l IH]; intros idc bs i' E; simpl in E.
  - inversion E. reflexivity.
  - destruct (f a idc) as [[b i]|]; [|discriminate].
    destruct (tmap f l i) as [[bs0 i0]|] eqn:T; [|discriminate]. inversion E; subst. simpl. f_equal. eauto.
Qed.

Lemma tmap_forall {A B} (f : A -> nat -> option (B * nat)) (Q : B -> Prop) :
  (forall a i b i', f a i = Some (b, i') -> Q b) ->
  forall l idc bs i', tmap f l idc = Some (bs, i') -> Forall Q bs.
Proof.
  intros H. induction l as [|a l IH]; intros idc bs i' E; simpl in E.
  - inversion E. constructor.
  - destruct (f a idc) as [[b i]|] eqn:F; [|discriminate].
    destruct (tmap f l i) as [[bs0 i0]|] eqn:T; [|discriminate]. inversion E; subst.
    constructor; eauto.
Qed.

(* ids: if every element consumes the ids [i, i') and reports them as `ids b`,
   the whole map reports seq idc (i' - idc) *)
Lemma tmap_ids {A B} (f : A -> nat -> option (B * nat)) (ids : B -> list nat) :
  (forall a i b i', f a i = Some (b, i') -> i <= i' /\ ids b = seq i (i' - i)) ->
  forall l idc bs i', tmap f l idc = Some (bs, i') ->
    idc <= i' /\ flat_map ids bs = seq idc (i' - idc).
Proof.
  intros H. induction l as [|a l IH]; intros idc bs i' E; simpl in E.
  - inversion E; subst. split; [lia|]. rewrite Nat.sub_diag. reflexivity.
  - destruct (f a idc) as [[b i]|] eqn:F; [|discriminate].
    destruct (tmap f l i) as [[bs0 i0]|] eqn:T; [|discriminate]. inversion E; subst.
    destruct (H _ _ _ _ F) as [L1 E1]. destruct (IH _ _ _ T) as [L2 E2].
    split; [lia|]. simpl. rewrite E1, E2.
    replace (i' - idc) with ((i - idc) + (i' - i)) by lia. rewrite seq_app. f_equal. f_equal. lia.
Qed.

(* ---------------------------------------------------------------- units *)
Record sctx := mk_sctx { x_tags : list tag; x_bg : list step; x_sc : scenario }.

Fixpoint rule_ctxs (tags : list tag) (bg : list step) (cs : list rchild) : list sctx :=
  match cs with
  | [] => []
  | RCBackground b :: r => rule_ctxs tags (bg ++ bg_steps b) r
  | RCScenario sc :: r => mk_sctx tags bg sc :: rule_ctxs tags bg r
  end.

Fixpoint feature_ctxs (ftags : list tag) (bg : list step) (cs : list fchild) : list sctx :=
  match cs with
  | [] => []
  | FCBackground b :: r => feature_ctxs ftags (bg ++ bg_steps b) r
  | FCRule ru :: r => rule_ctxs (ftags ++ ru_tags ru) bg (ru_children ru) ++ feature_ctxs ftags bg r
  | FCScenario sc :: r => mk_sctx ftags bg sc :: feature_ctxs ftags bg r
  end.

Definition doc_ctxs (d : document) : list sctx :=
  match doc_feature d with
  | None => []
  | Some f => feature_ctxs (f_tags f) [] (f_children f)
  end.

(* one pickle-to-be: a plain scenario, or one body row of one examples table *)
Inductive unit_ :=
  | UPlain (x : sctx)
  | URow (x : sctx) (ex : examples) (hdr : row) (r : row).

Definition rows_of (x : sctx) (exs : list examples) : list unit_ :=
  flat_map (fun ex => match ex_header ex with
                      | None => []
                      | Some h => map (URow x ex h) (ex_body ex)
                      end) exs.

Definition units_of (x : sctx) : list unit_ :=
  match sc_examples (x_sc x) with
  | [] => [UPlain x]
  | exs => rows_of x exs
  end.

Definition doc_units (d : document) : list unit_ := flat_map units_of (doc_ctxs d).

Definition compile_unit (uri language : str) (u : unit_) (idc : nat) : option (pickle * nat) :=
  match u with
  | UPlain x =>
    match compile_scenario uri (x_tags x) (x_bg x) (x_sc x) language idc with
    | Some ([p], i) => Some (p, i)
    | _ => None
    end
  | URow x ex h r => compile_row uri (x_tags x) (x_bg x) (x_sc x) ex (r_cells h) r language idc
  end.

(* ---------------------------------------------------------------- the model is the threaded map *)
Lemma compile_rows_tmap uri tags bg sc ex h language rows idc :
  compile_rows uri tags bg sc ex (r_cells h) rows language idc
  = tmap (compile_unit uri language) (map (URow (mk_sctx tags bg sc) ex h) rows) idc.
Proof.
  revert idc. induction rows as [|r rows IH]; intros idc; simpl; [reflexivity|].
  destruct (compile_row uri tags bg sc ex (r_cells h) r language idc) as [[p i]|]; [|reflexivity].
  rewrite IH. reflexivity.
Qed.

Lemma compile_examples_tmap uri tags bg sc language exs idc :
  compile_examples uri tags bg sc exs language idc
  = tmap (compile_unit uri language) (rows_of (mk_sctx tags bg sc) exs) idc.
Proof.
  revert idc. induction exs as [|ex exs IH]; intros idc; simpl; [reflexivity|].
  destruct (ex_header ex) as [h|]; simpl; [|apply IH].
  rewrite tmap_app, compile_rows_tmap.
  destruct (tmap _ (map _ (ex_body ex)) idc) as [[ps i]|]; [|reflexivity].
  rewrite IH. reflexivity.
Qed.

Lemma compile_scenario_def_tmap uri tags bg sc language idc :
  compile_scenario_def uri tags bg sc language idc
  = tmap (compile_unit uri language) (units_of (mk_sctx tags bg sc)) idc.
Proof.
  unfold compile_scenario_def, units_of. simpl.
  destruct (sc_examples sc) as [|ex exs] eqn:E.
  - simpl. unfold compile_scenario.
    destruct (match sc_steps sc with [] => _ | _ => _ end) as [[[steps l] i]|]; reflexivity.
  - rewrite compile_examples_tmap. reflexivity.
Qed.

Lemma compile_rule_children_tmap uri tags language cs : forall bg idc,
  compile_rule_children uri tags bg cs language idc
  = tmap (compile_unit uri language) (flat_map units_of (rule_ctxs tags bg cs)) idc.
Proof.
  induction cs as [|c cs IH]; intros bg idc; simpl; [reflexivity|].
  destruct c as [b|sc]; simpl; [apply IH|].
  rewrite tmap_app, compile_scenario_def_tmap.
  destruct (tmap _ (units_of _) idc) as [[ps i]|]; [|reflexivity].
  rewrite IH. reflexivity.
Qed.

Lemma compile_children_tmap uri ftags language cs : forall bg idc,
  compile_children uri ftags bg cs language idc
  = tmap (compile_unit uri language) (flat_map units_of (feature_ctxs ftags bg cs)) idc.
Proof.
  induction cs as [|c cs IH]; intros bg idc; simpl; [reflexivity|].
  destruct c as [b|sc|ru]; simpl.
  - apply IH.
  - rewrite tmap_app, compile_scenario_def_tmap.
    destruct (tmap _ (units_of _) idc) as [[ps i]|]; [|reflexivity]. rewrite IH. reflexivity.
  - rewrite flat_map_app, tmap_app, compile_rule_children_tmap.
    destruct (tmap _ (flat_map units_of (rule_ctxs _ _ _)) idc) as [[ps i]|]; [|reflexivity].
    rewrite IH. reflexivity.
Qed.

Definition doc_language (d : document) : str :=
  match doc_feature d with Some f => f_language f | None => [] end.

Theorem compile_is_tmap uri d idc :
  compile uri d idc = tmap (compile_unit uri (doc_language d)) (doc_units d) idc.
Proof.
  unfold compile, doc_units, doc_ctxs, doc_language. destruct (doc_feature d) as [f|]; [|reflexivity].
  apply compile_children_tmap.
Qed.

(* ---------------------------------------------------------------- total interpolation *)
(* the replacement chain over the columns both lists have *)
Fixpoint interp (name : str) (vars vals : list cell) : str :=
  match vars, vals with
  | h :: vars', v :: vals' => interp (replace_all (LT :: c_value h ++ [GT]) (c_value v) name) vars' vals'
  | _, _ => name
  end.

Lemma interpolate_some name vars vals s : interpolate name vars vals = Some s -> s = interp name vars vals.
Proof.
  revert name vals. induction vars as [|h vars IH]; intros name vals E; simpl in *.
  - inversion E. destruct vals; reflexivity.
  - destruct vals as [|v vals]; [discriminate|]. apply IH. exact E.
Qed.

Lemma interpolate_total name vars vals : length vars <= length vals -> interpolate name vars vals = Some (interp name vars vals).
Proof.
  revert name vals. induction vars as [|h vars IH]; intros name vals L; simpl in *.
  - destruct vals; reflexivity.
  - destruct vals as [|v vals]; [simpl in L; lia|]. apply IH. simpl in L. lia.
Qed.

Lemma interpolate_none_iff name vars vals : interpolate name vars vals = None <-> length vals < length vars.
Proof.
  revert name vals. induction vars as [|h vars IH]; intros name vals; simpl.
  - split; [discriminate | lia].
  - destruct vals as [|v vals]; simpl; [split; [lia | reflexivity]|]. rewrite IH. lia.
Qed.

Lemma interp_nil name vals : interp name [] vals = name.
Proof. destruct vals; reflexivity. Qed.

(* ---------------------------------------------------------------- arguments *)
Definition arg_spec (s : step) (vars vals : list cell) : parg :=
  match st_arg s with
  | ArgNone => PArgNone
  | ArgTable _ rows => PArgTable (map (fun r => map (fun c => interp (c_value c) vars vals) (r_cells r)) rows)
  | ArgDoc d => PArgDoc (interp (ds_content d) vars vals) (option_map (fun mt => interp mt vars vals) (ds_media d))
  end.

Lemma map_opt_some {A B} (f : A -> option B) (g : A -> B) l r :
  (forall a b, f a = Some b -> b = g a) -> map_opt f l = Some r -> r = map g l.
Proof.
  intros H. revert r. induction l as [|a l IH]; intros r E; simpl in E.
  - inversion E. reflexivity.
  - destruct (f a) eqn:F; [|discriminate]. destruct (map_opt f l) eqn:M; [|discriminate].
    inversion E. simpl. f_equal; auto.
Qed.

Lemma pickle_argument_some s vars vals a : pickle_argument s vars vals = Some a -> a = arg_spec s vars vals.
Proof.
  unfold pickle_argument, arg_spec. destruct (st_arg s) as [|l rows|d].
  - intros E. inversion E. reflexivity.
  - intros E. destruct (map_opt _ rows) as [rs|] eqn:M; [|discriminate]. inversion E. f_equal.
    eapply map_opt_some; [|exact M]. intros r cs Hr. cbv beta in Hr.
    eapply map_opt_some; [|exact Hr]. intros c b Hc. now apply interpolate_some.
  - destruct (interpolate (ds_content d) vars vals) as [c|] eqn:C; [|discriminate].
    apply interpolate_some in C. subst c.
    destruct (ds_media d) as [mt|]; simpl.
    + destruct (interpolate mt vars vals) as [m|] eqn:M; [|discriminate]. apply interpolate_some in M. subst m.
      intros E. inversion E. reflexivity.
    + intros E. inversion E. reflexivity.
Qed.

(* without example columns nothing is substituted: the argument is copied cell by cell *)
Definition arg_copy (s : step) : parg :=
  match st_arg s with
  | ArgNone => PArgNone
  | ArgTable _ rows => PArgTable (map (fun r => map c_value (r_cells r)) rows)
  | ArgDoc d => PArgDoc (ds_content d) (ds_media d)
  end.

Lemma arg_spec_nil s : arg_spec s [] [] = arg_copy s.
Proof.
  unfold arg_spec, arg_copy. destruct (st_arg s) as [|l rows|d]; auto.
  destruct (ds_media d); reflexivity.
Qed.

(* ---------------------------------------------------------------- step lists *)
(* the type chain: and/but take the type of the step before; the first falls back to `last`.
   Returns the types and the type in force afterwards. *)
Fixpoint carry (last : ptype) (kts : list ktype) : list ptype * ptype :=
  match kts with
  | [] => ([], last)
  | k :: r => let ty := pickle_type last k in let (l, e) := carry ty r in (ty :: l, e)
  end.

Lemma carry_app last a b :
  carry last (a ++ b) = (fst (carry last a) ++ fst (carry (snd (carry last a)) b), snd (carry (snd (carry last a)) b)).
Proof.
  revert last. induction a as [|k a IH]; intros last; simpl.
  - destruct (carry last b); reflexivity.
  - rewrite IH. destruct (carry (pickle_type last k) a) as [l e]. simpl. reflexivity.
Qed.

Lemma carry_length last kts : length (fst (carry last kts)) = length kts.
Proof.
  revert last. induction kts as [|k r IH]; intros last; simpl; [reflexivity|].
  specialize (IH (pickle_type last k)). destruct (carry (pickle_type last k) r). simpl in *. now rewrite IH.
Qed.

Record steps_spec (ps : list pstep) (steps : list step) (nodes : step -> list nat) (text : step -> str)
       (arg : step -> parg) (last : ptype) (idc : nat) (l : ptype) (i : nat) : Prop := {
  ss_types : map ps_type ps = fst (carry last (map st_ktype steps));
  ss_last : l = snd (carry last (map st_ktype steps));
  ss_idc : i = idc + length steps;
  ss_ids : map ps_id ps = seq idc (length steps);
  ss_nodes : map ps_nodes ps = map nodes steps;
  ss_text : map ps_text ps = map text steps;
  ss_arg : map ps_arg ps = map arg steps
}.

Lemma plain_steps_spec steps : forall last idc ps l i,
  plain_steps steps last idc = Some (ps, l, i) ->
  steps_spec ps steps (fun s => [st_id s]) st_text arg_copy last idc l i.
Proof.
  induction steps as [|s r IH]; intros last idc ps l i E; simpl in E.
  - inversion E; subst. constructor; simpl; auto.
  - destruct (pickle_argument s [] []) as [a|] eqn:A; [|discriminate].
    destruct (plain_steps r (pickle_type last (st_ktype s)) (S idc)) as [[[ps0 l0] i0]|] eqn:R; [|discriminate].
    inversion E; subst. apply pickle_argument_some in A. rewrite arg_spec_nil in A. subst a.
    destruct (IH _ _ _ _ _ R) as [T L I D N X G]. simpl in *.
    destruct (carry (pickle_type last (st_ktype s)) (map st_ktype r)) as [tl e] eqn:C. simpl in *.
    constructor; simpl; try congruence; try lia.
    all: try (rewrite C; simpl; congruence).
Qed.

Lemma outline_steps_spec vars vals row_id steps : forall last idc ps l i,
  outline_steps steps vars vals row_id last idc = Some (ps, l, i) ->
  steps_spec ps steps (fun s => [st_id s; row_id]) (fun s => interp (st_text s) vars vals)
             (fun s => arg_spec s vars vals) last idc l i.
Proof.
  induction steps as [|s r IH]; intros last idc ps l i E; simpl in E.
  - inversion E; subst. constructor; simpl; auto.
  - destruct (interpolate (st_text s) vars vals) as [tx|] eqn:Tx; [|discriminate].
    destruct (pickle_argument s vars vals) as [a|] eqn:A; [|discriminate].
    destruct (outline_steps r vars vals row_id (pickle_type last (st_ktype s)) (S idc)) as [[[ps0 l0] i0]|] eqn:R; [|discriminate].
    inversion E; subst. apply pickle_argument_some in A. apply interpolate_some in Tx. subst a tx.
    destruct (IH _ _ _ _ _ R) as [T L I D N X G]. simpl in *.
    destruct (carry (pickle_type last (st_ktype s)) (map st_ktype r)) as [tl e] eqn:C. simpl in *.
    constructor; simpl; try congruence; try lia.
    all: try (rewrite C; simpl; congruence).
Qed.

(* ---------------------------------------------------------------- what one unit yields *)
Definition u_ctx (u : unit_) : sctx := match u with UPlain x => x | URow x _ _ _ => x end.
Definition u_sc (u : unit_) : scenario := x_sc (u_ctx u).
Definition u_vars (u : unit_) : list cell := match u with UPlain _ => [] | URow _ _ h _ => r_cells h end.
Definition u_vals (u : unit_) : list cell := match u with UPlain _ => [] | URow _ _ _ r => r_cells r end.

(* C06 *)
Definition u_nodes (u : unit_) : list nat :=
  match u with UPlain x => [sc_id (x_sc x)] | URow x _ _ r => [sc_id (x_sc x); r_id r] end.
Definition u_name (u : unit_) : str :=
  match u with UPlain x => sc_name (x_sc x) | URow x _ h r => interp (sc_name (x_sc x)) (r_cells h) (r_cells r) end.
(* C08 *)
Definition u_tags (u : unit_) : list tag :=
  match u with
  | UPlain x => x_tags x ++ sc_tags (x_sc x)
  | URow x ex _ _ => x_tags x ++ sc_tags (x_sc x) ++ ex_tags ex
  end.
(* C07: a scenario without steps of its own gets no background steps *)
Definition u_has_steps (u : unit_) : bool := match sc_steps (u_sc u) with [] => false | _ => true end.
Definition u_step_nodes (u : unit_) : list (list nat) :=
  if u_has_steps u then
    map (fun s => [st_id s]) (x_bg (u_ctx u))
    ++ match u with
       | UPlain x => map (fun s => [st_id s]) (sc_steps (x_sc x))
       | URow x _ _ r => map (fun s => [st_id s; r_id r]) (sc_steps (x_sc x))
       end
  else [].
Definition u_step_args (u : unit_) : list parg :=
  if u_has_steps u then
    map arg_copy (x_bg (u_ctx u))
    ++ match u with
       | UPlain x => map arg_copy (sc_steps (x_sc x))
       | URow x _ h r => map (fun s => arg_spec s (r_cells h) (r_cells r)) (sc_steps (x_sc x))
       end
  else [].
(* C09 *)
Definition u_step_texts (u : unit_) : list str :=
  if u_has_steps u then
    map st_text (x_bg (u_ctx u))
    ++ match u with
       | UPlain x => map st_text (sc_steps (x_sc x))
       | URow x _ h r => map (fun s => interp (st_text s) (r_cells h) (r_cells r)) (sc_steps (x_sc x))
       end
  else [].
(* C10: one chain over background steps then own steps, starting from Unknown *)
Definition u_step_types (u : unit_) : list ptype :=
  if u_has_steps u then fst (carry PUnknown (map st_ktype (x_bg (u_ctx u) ++ sc_steps (u_sc u)))) else [].

Record unit_spec (uri language : str) (u : unit_) (idc : nat) (p : pickle) (i : nat) : Prop := {
  us_nodes : p_nodes p = u_nodes u;
  us_uri : p_uri p = uri;
  us_language : p_language p = language;
  us_name : p_name p = u_name u;
  us_tags : p_tags p = pickle_tags (u_tags u);
  us_step_nodes : map ps_nodes (p_steps p) = u_step_nodes u;
  us_step_args : map ps_arg (p_steps p) = u_step_args u;
  us_step_texts : map ps_text (p_steps p) = u_step_texts u;
  us_step_types : map ps_type (p_steps p) = u_step_types u;
  us_step_ids : map ps_id (p_steps p) = seq idc (length (p_steps p));
  us_id : p_id p = idc + length (p_steps p);
  us_idc : i = S (p_id p)
}.

Lemma seq_app' a n m : seq a (n + m) = seq a n ++ seq (a + n) m.
Proof. apply seq_app. Qed.

Lemma has_steps_false u : sc_steps (u_sc u) = [] -> u_has_steps u = false.
Proof. unfold u_has_steps. intros ->. reflexivity. Qed.
Lemma has_steps_true u s ss : sc_steps (u_sc u) = s :: ss -> u_has_steps u = true.
Proof. unfold u_has_steps. intros ->. reflexivity. Qed.

Lemma compile_unit_spec uri language u idc p i :
  compile_unit uri language u idc = Some (p, i) -> unit_spec uri language u idc p i.
Proof.
  destruct u as [x|x ex h r]; simpl.
  - unfold compile_scenario.
    destruct (sc_steps (x_sc x)) as [|s0 ss] eqn:Own.
    + intros E. inversion E; subst.
      pose proof (has_steps_false (UPlain x) Own) as HS.
      constructor; simpl; auto; unfold u_step_nodes, u_step_args, u_step_texts, u_step_types; rewrite HS; reflexivity.
    + pose proof (has_steps_true (UPlain x) _ _ Own) as HS. rewrite <- Own.
      destruct (plain_steps (x_bg x ++ sc_steps (x_sc x)) PUnknown idc) as [[[ps l] i0]|] eqn:PS; [|discriminate].
      intros E. inversion E; subst. apply plain_steps_spec in PS. destruct PS as [T L I D N X G].
      assert (Len : length ps = length (x_bg x ++ sc_steps (x_sc x))).
      { rewrite <- (map_length ps_id), D, seq_length. reflexivity. }
      constructor; simpl; auto; unfold u_step_nodes, u_step_args, u_step_texts, u_step_types; rewrite ?HS;
        rewrite <- ?map_app; unfold u_sc, u_ctx; try congruence.
  - unfold compile_row.
    destruct (sc_steps (x_sc x)) as [|s0 ss] eqn:Own.
    + destruct (interpolate (sc_name (x_sc x)) (r_cells h) (r_cells r)) as [nm|] eqn:Nm; [|discriminate].
      apply interpolate_some in Nm. subst nm.
      pose proof (has_steps_false (URow x ex h r) Own) as HS.
      intros E. inversion E; subst.
      constructor; simpl; auto; unfold u_step_nodes, u_step_args, u_step_texts, u_step_types; rewrite HS; reflexivity.
    + pose proof (has_steps_true (URow x ex h r) _ _ Own) as HS. rewrite <- Own.
      destruct (plain_steps (x_bg x) PUnknown idc) as [[[bs last] i1]|] eqn:PS; [|discriminate].
      destruct (outline_steps (sc_steps (x_sc x)) (r_cells h) (r_cells r) (r_id r) last i1) as [[[os l] i2]|] eqn:OS; [|discriminate].
      destruct (interpolate (sc_name (x_sc x)) (r_cells h) (r_cells r)) as [nm|] eqn:Nm; [|discriminate].
      apply interpolate_some in Nm. subst nm.
      intros E. inversion E; subst.
      apply plain_steps_spec in PS. destruct PS as [T1 L1 I1 D1 N1 X1 G1].
      apply outline_steps_spec in OS. destruct OS as [T2 L2 I2 D2 N2 X2 G2].
      assert (Len1 : length bs = length (x_bg x)) by (rewrite <- (map_length ps_id), D1, seq_length; reflexivity).
      assert (Len2 : length os = length (sc_steps (x_sc x))) by (rewrite <- (map_length ps_id), D2, seq_length; reflexivity).
      constructor; simpl; auto; unfold u_step_nodes, u_step_args, u_step_texts, u_step_types; rewrite ?HS;
        unfold u_sc, u_ctx; rewrite ?map_app; try congruence.
      * rewrite T1, T2, L1, carry_app. reflexivity.
      * rewrite D1, D2, app_length, seq_app', Len1, Len2. subst i1. reflexivity.
      * rewrite app_length, Len1, Len2. lia.
Qed.

(* ---------------------------------------------------------------- lifted to documents *)
Section Doc.
  Variables (uri : str) (d : document) (idc : nat) (ps : list pickle) (i : nat).
  Hypothesis H : compile uri d idc = Some (ps, i).

  Let T : tmap (compile_unit uri (doc_language d)) (doc_units d) idc = Some (ps, i).
  Proof. rewrite <- compile_is_tmap. exact H. Qed.

  Lemma lift_map {C} (g : pickle -> C) (h : unit_ -> C) :
    (forall u k p k', unit_spec uri (doc_language d) u k p k' -> g p = h u) ->
    map g ps = map h (doc_units d).
  Proof.
    intros G. eapply tmap_map; [|exact T]. intros a k b k' E. apply compile_unit_spec in E. eauto.
  Qed.

  Lemma pickles_count : length ps = length (doc_units d).
  Proof. eapply tmap_length; exact T. Qed.
  Lemma pickles_nodes : map p_nodes ps = map u_nodes (doc_units d).
  Proof. apply lift_map. intros u k p k' []. assumption. Qed.
  Lemma pickles_names : map p_name ps = map u_name (doc_units d).
  Proof. apply lift_map. intros u k p k' []. assumption. Qed.
  Lemma pickles_tags : map p_tags ps = map (fun u => pickle_tags (u_tags u)) (doc_units d).
  Proof. apply lift_map. intros u k p k' []. assumption. Qed.
  Lemma pickles_step_nodes : map (fun p => map ps_nodes (p_steps p)) ps = map u_step_nodes (doc_units d).
  Proof. apply lift_map. intros u k p k' []. assumption. Qed.
  Lemma pickles_step_args : map (fun p => map ps_arg (p_steps p)) ps = map u_step_args (doc_units d).
  Proof. apply lift_map. intros u k p k' []. assumption. Qed.
  Lemma pickles_step_texts : map (fun p => map ps_text (p_steps p)) ps = map u_step_texts (doc_units d).
  Proof. apply lift_map. intros u k p k' []. assumption. Qed.
  Lemma pickles_step_types : map (fun p => map ps_type (p_steps p)) ps = map u_step_types (doc_units d).
  Proof. apply lift_map. intros u k p k' []. assumption. Qed.
  Lemma pickles_uri_language : Forall (fun p => p_uri p = uri /\ p_language p = doc_language d) ps.
  Proof.
    eapply tmap_forall; [|exact T]. intros a k b k' E. apply compile_unit_spec in E. destruct E. auto.
  Qed.

  (* ids: each pickle's step ids then its own id, consecutively from the counter *)
  Definition pickle_ids (p : pickle) : list nat := map ps_id (p_steps p) ++ [p_id p].
  Lemma pickles_ids : idc <= i /\ flat_map pickle_ids ps = seq idc (i - idc).
  Proof.
    eapply tmap_ids; [|exact T]. intros a k b k' E. apply compile_unit_spec in E.
    destruct E as [_ _ _ _ _ _ _ _ _ SI PI KI]. subst k'. split; [lia|].
    unfold pickle_ids. rewrite SI, PI.
    replace (S (k + length (p_steps b)) - k) with (length (p_steps b) + 1) by lia.
    rewrite seq_app'. reflexivity.
  Qed.
End Doc.

(* ---------------------------------------------------------------- when does compile fail *)
(* Compiler.compile raises (IndexError) exactly when some body row used by an outline that has
   something to substitute is shorter than its header *)
Definition rectangular_unit (u : unit_) : Prop := length (u_vars u) <= length (u_vals u).

Lemma map_opt_total {A B} (f : A -> option B) l : (forall a, In a l -> f a <> None) -> map_opt f l <> None.
Proof.
  induction l as [|a l IH]; intros H; simpl; [discriminate|].
  destruct (f a) eqn:F; [|exfalso; eapply H; [now left | exact F]].
  destruct (map_opt f l) eqn:M; [discriminate|]. exfalso. apply IH; auto. intros x Hx. apply H. now right.
Qed.

Lemma pickle_argument_total s vars vals : length vars <= length vals -> pickle_argument s vars vals <> None.
Proof.
  intros L. unfold pickle_argument. destruct (st_arg s) as [|l rows|dd]; [discriminate| |].
  - destruct (map_opt _ rows) eqn:M; [discriminate|]. exfalso. revert M. apply map_opt_total.
    intros r _. apply map_opt_total. intros c _. rewrite interpolate_total by assumption. discriminate.
  - rewrite interpolate_total by assumption. destruct (ds_media dd); [|discriminate].
    rewrite interpolate_total by assumption. discriminate.
Qed.

Lemma plain_steps_total steps : forall last idc, plain_steps steps last idc <> None.
Proof.
  induction steps as [|s r IH]; intros last idc; simpl; [discriminate|].
  destruct (pickle_argument s [] []) eqn:A; [|exfalso; revert A; apply pickle_argument_total; simpl; lia].
  specialize (IH (pickle_type last (st_ktype s)) (S idc)).
  destruct (plain_steps r _ _) as [[[? ?] ?]|]; [discriminate | congruence].
Qed.

Lemma outline_steps_total vars vals rid steps : length vars <= length vals ->
  forall last idc, outline_steps steps vars vals rid last idc <> None.
Proof.
  intros L. induction steps as [|s r IH]; intros last idc; simpl; [discriminate|].
  rewrite interpolate_total by assumption.
  destruct (pickle_argument s vars vals) eqn:A; [|exfalso; revert A; now apply pickle_argument_total].
  specialize (IH (pickle_type last (st_ktype s)) (S idc)).
  destruct (outline_steps r _ _ _ _ _) as [[[? ?] ?]|]; [discriminate | congruence].
Qed.

Lemma compile_unit_total uri language u idc : rectangular_unit u -> compile_unit uri language u idc <> None.
Proof.
  unfold rectangular_unit. destruct u as [x|x ex h r]; simpl; intros L.
  - unfold compile_scenario. destruct (sc_steps (x_sc x)) eqn:Own; [discriminate|]. rewrite <- Own.
    pose proof (plain_steps_total (x_bg x ++ sc_steps (x_sc x)) PUnknown idc) as P.
    destruct (plain_steps _ _ _) as [[[? ?] ?]|]; [discriminate | congruence].
  - unfold compile_row. rewrite interpolate_total by assumption.
    destruct (sc_steps (x_sc x)) eqn:Own; [discriminate|]. rewrite <- Own.
    pose proof (plain_steps_total (x_bg x) PUnknown idc) as P.
    destruct (plain_steps (x_bg x) PUnknown idc) as [[[bs last] i1]|]; [|congruence].
    pose proof (outline_steps_total (r_cells h) (r_cells r) (r_id r) (sc_steps (x_sc x)) L last i1) as O.
    destruct (outline_steps _ _ _ _ _ _) as [[[? ?] ?]|]; [discriminate | congruence].
Qed.

Lemma tmap_total {A B} (f : A -> nat -> option (B * nat)) l :
  (forall a i, In a l -> f a i <> None) -> forall idc, tmap f l idc <> None.
Proof.
  induction l as [|a l IH]; intros H idc; simpl; [discriminate|].
  destruct (f a idc) as [[b i]|] eqn:F; [|exfalso; eapply H; [now left | exact F]].
  specialize (IH (fun x k Hx => H x k (or_intror Hx)) i).
  destruct (tmap f l i) as [[? ?]|]; [discriminate | congruence].
Qed.

Theorem compile_total uri d idc :
  Forall rectangular_unit (doc_units d) -> compile uri d idc <> None.
Proof.
  intros R. rewrite compile_is_tmap. apply tmap_total. intros a i Ha.
  apply compile_unit_total. rewrite Forall_forall in R. auto.
Qed.

(* ---------------------------------------------------------------- parser-shaped documents *)
(* the grammar puts a background first: Feature = header, Background?, Scenario*, Rule*;
   Rule = header, Background?, Scenario*.  For such documents the contexts are: *)
Definition bg_steps_opt (b : option background) : list step :=
  match b with Some x => bg_steps x | None => [] end.
Definition rule_children_of (b : option background) (scs : list scenario) : list rchild :=
  match b with Some x => [RCBackground x] | None => [] end ++ map RCScenario scs.

Lemma rule_ctxs_scenarios tags bg scs : rule_ctxs tags bg (map RCScenario scs) = map (mk_sctx tags bg) scs.
Proof. induction scs as [|s scs IH]; simpl; [reflexivity|]. now rewrite IH. Qed.

Lemma rule_ctxs_shape tags bg b scs :
  rule_ctxs tags bg (rule_children_of b scs) = map (mk_sctx tags (bg ++ bg_steps_opt b)) scs.
Proof.
  unfold rule_children_of. destruct b as [x|]; simpl.
  - apply rule_ctxs_scenarios.
  - rewrite app_nil_r. apply rule_ctxs_scenarios.
Qed.

Record prule := mk_prule { pr_rule : grule; pr_bg : option background; pr_scs : list scenario;
                           pr_ok : ru_children pr_rule = rule_children_of pr_bg pr_scs }.

Lemma feature_ctxs_rules ftags bg (rs : list prule) :
  feature_ctxs ftags bg (map (fun r => FCRule (pr_rule r)) rs)
  = flat_map (fun r => map (mk_sctx (ftags ++ ru_tags (pr_rule r)) (bg ++ bg_steps_opt (pr_bg r))) (pr_scs r)) rs.
Proof.
  induction rs as [|r rs IH]; simpl; [reflexivity|].
  rewrite (pr_ok r), rule_ctxs_shape, IH. reflexivity.
Qed.

Lemma feature_ctxs_scenarios ftags bg scs rest :
  feature_ctxs ftags bg (map FCScenario scs ++ rest) = map (mk_sctx ftags bg) scs ++ feature_ctxs ftags bg rest.
Proof. induction scs as [|s scs IH]; simpl; [reflexivity|]. now rewrite IH. Qed.

(* the background in scope of a scenario is the feature background followed by the background of
   *its own* rule; nothing from another rule *)
Theorem feature_ctxs_shape ftags (fb : option background) (scs : list scenario) (rs : list prule) :
  feature_ctxs ftags []
    (match fb with Some x => [FCBackground x] | None => [] end
     ++ map FCScenario scs ++ map (fun r => FCRule (pr_rule r)) rs)
  = map (mk_sctx ftags (bg_steps_opt fb)) scs
    ++ flat_map (fun r => map (mk_sctx (ftags ++ ru_tags (pr_rule r)) (bg_steps_opt fb ++ bg_steps_opt (pr_bg r))) (pr_scs r)) rs.
Proof.
  destruct fb as [x|]; simpl; rewrite feature_ctxs_scenarios, feature_ctxs_rules; reflexivity.
Qed.

(* C10: an example row's pickle has the same step types as the plain pickle of the same steps *)
Theorem types_outline_eq_plain x ex h r : u_step_types (URow x ex h r) = u_step_types (UPlain x).
Proof. reflexivity. Qed.

(* the pickle step type is one of the four values by typing; and/but never survive *)
Lemma carry_no_conjunction : forall kts last, Forall (fun t => t = PUnknown \/ t = PContext \/ t = PAction \/ t = POutcome) (fst (carry last kts)).
Proof. intros kts last. apply Forall_forall. intros t _. destruct t; auto. Qed.

(* first step and/but => Unknown; given/when/then/"*" => their category *)
Lemma carry_head last k r :
  fst (carry last (k :: r)) = pickle_type last k :: fst (carry (pickle_type last k) r).
Proof. simpl. destruct (carry (pickle_type last k) r). reflexivity. Qed.

(* a run of and/but steps, however long, repeats the type before it -- and hands it on to what follows *)
Lemma carry_conjunction_run last n r :
  fst (carry last (repeat Conjunction n ++ r)) = repeat last n ++ fst (carry last r).
Proof.
  induction n as [|n IH]; [reflexivity|]. cbn [repeat app]. rewrite carry_head. cbn [pickle_type]. rewrite IH. reflexivity.
Qed.

