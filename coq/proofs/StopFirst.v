(* C14: stop-at-first-error mode raises precisely the first error that collecting mode lists.
   Generic interpreter; the two runs are identical up to the first error, and the collecting run only
   ever appends to its error list. *)
From Coq Require Import List Bool Arith Lia.
Import ListNotations.
Require Import Kinds Automaton AutoFacts.

Section StopFirst.
  Context {Tok MS BS Err : Type}.
  Variable P : params Tok MS BS Err.
  Notation ctx := (ctx Tok MS BS Err).
  Notation res := (res Tok MS BS Err).

  (* ---- the collecting run only appends ---- *)
  Definition ext (c c' : ctx) : Prop := exists l, errs c' = errs c ++ l.
  Lemma ext_refl c : ext c c. Proof. exists []. now rewrite app_nil_r. Qed.
  Lemma ext_trans a b c : ext a b -> ext b c -> ext a c.
  Proof. intros [l1 H1] [l2 H2]. exists (l1 ++ l2). rewrite H2, H1, app_assoc. reflexivity. Qed.
  Lemma ext_same c c' : errs c' = errs c -> ext c c'.
  Proof. intros H. exists []. now rewrite app_nil_r. Qed.

  Definition extr {A} (c : ctx) (r : res A) : Prop :=
    match r with
    | Ok _ c' | Crash c' | Raise1 _ c' => ext c c'
    | RaiseC es c' => ext c c' /\ es = errs c'
    | OutOfFuel => True
    end.
  Lemma extr_bind {A B} c (r : res A) (f : A -> ctx -> res B) :
    extr c r -> (forall a c1, extr c1 (f a c1)) -> extr c (bind r f).
  Proof.
    destruct r as [a c1|e c1|es c1|c1|]; cbn [bind extr]; auto. intros E H. specialize (H a c1).
    destruct (f a c1) as [b c2|e c2|es c2|c2|]; cbn [extr] in *; try (eapply ext_trans; eauto); auto.
    destruct H as [H1 H2]. split; [eapply ext_trans; eauto | exact H2].
  Qed.
  Lemma extr_weaken {A} c c0 (r : res A) : ext c c0 -> extr c0 r -> extr c r.
  Proof.
    intros E. destruct r; cbn [extr]; auto; try (intros H; eapply ext_trans; eauto).
    intros [H1 H2]. split; [eapply ext_trans; eauto | exact H2].
  Qed.

  Lemma add_error_ext e c : extr c (add_error P e c).
  Proof.
    unfold add_error. destruct (existsb _ _); cbn [extr]; [apply ext_refl|].
    destruct (_ <? _); cbn [extr errs set_errs]; [split; [|reflexivity]|]; exists [e]; reflexivity.
  Qed.
  Lemma match_k_ext k t c : extr c (match_k P false k t c).
  Proof.
    unfold match_k. destruct (_ && _); cbn [extr]; [apply ext_refl|].
    destruct (matchf P k (ms (bump c)) t) as [b t' m'|e t' m']; cbn [extr]; [apply ext_same; reflexivity|].
    eapply extr_weaken with (c0 := set_ms m' (bump c)); [apply ext_same; reflexivity|].
    apply extr_bind; [apply add_error_ext|]. intros _ c1. cbn [extr]. apply ext_refl.
  Qed.
  Lemma any_match_ext ks : forall t c, extr c (any_match P false ks t c).
  Proof.
    induction ks as [|k ks IH]; intros t c; cbn [any_match extr]; [apply ext_refl|].
    apply extr_bind; [apply match_k_ext|]. intros [b t1] c1. cbn [fst snd]. destruct b; [cbn [extr]; apply ext_refl | apply IH].
  Qed.
  Lemma read_errs c : errs (snd (read P c)) = errs c.
  Proof. unfold read. destruct (queue c); [destruct (rest c)|]; reflexivity. Qed.
  Lemma la_loop_ext h : forall fuel c acc, extr c (la_loop P fuel false h c acc).
  Proof.
    induction fuel as [|f IH]; intros c acc; cbn [la_loop extr]; [exact Logic.I|].
    pose proof (read_errs c) as R. destruct (read P c) as [t c1]. cbn [snd] in R.
    eapply extr_weaken; [apply ext_same; exact R|].
    apply extr_bind; [apply any_match_ext|]. intros [b t1] c2. cbn [fst snd]. destruct b; [cbn [extr]; apply ext_refl|].
    apply extr_bind; [apply any_match_ext|]. intros [b' t2] c3. cbn [fst snd]. destruct b'; [apply IH | cbn [extr]; apply ext_refl].
  Qed.
  Lemma lookahead_ext h c : extr c (lookahead P false h c).
  Proof.
    unfold lookahead. destruct (find_la P h); [|cbn [extr]; apply ext_refl].
    apply extr_bind; [apply la_loop_ext|]. intros r c1. cbn [extr]. apply ext_same. reflexivity.
  Qed.
  Lemma b_call_ext f c : extr c (b_call P false f c).
  Proof.
    unfold b_call. destruct (f (bs c)) as [b'|e b'|]; cbn [extr]; [apply ext_same; reflexivity | | apply ext_refl].
    eapply extr_weaken with (c0 := set_bs b' c); [apply ext_same; reflexivity | apply add_error_ext].
  Qed.
  Lemma exec_ext t k : forall ps c, extr c (exec P false t k ps c).
  Proof.
    induction ps as [|p ps IH]; intros c; cbn [exec extr]; [apply ext_refl|].
    apply extr_bind; [|intros _ c1; apply IH].
    destruct p; (eapply extr_weaken; [|apply b_call_ext]); apply ext_same; reflexivity.
  Qed.
  Lemma run_tests_ext : forall tests t c, extr c (run_tests P false tests t c).
  Proof.
    induction tests as [|x xs IH]; intros t c; cbn [run_tests extr]; [apply ext_refl|].
    apply extr_bind; [apply match_k_ext|]. intros [b t1] c1. cbn [fst snd]. destruct b; [|apply IH].
    destruct (t_guard x) as [h|].
    - apply extr_bind; [apply lookahead_ext|]. intros bb c2. destruct bb; [|apply IH].
      apply extr_bind; [apply exec_ext|]. intros _ c3. cbn [extr]. apply ext_refl.
    - apply extr_bind; [apply exec_ext|]. intros _ c3. cbn [extr]. apply ext_refl.
  Qed.
  Lemma match_token_ext s t c : extr c (match_token P false s t c).
  Proof.
    unfold match_token. destruct (find_state P s) as [x|]; [|cbn [extr]; apply ext_refl].
    apply extr_bind; [apply run_tests_ext|]. intros [o t1] c1. cbn [fst snd]. destruct o; [cbn [extr]; apply ext_refl|].
    eapply extr_weaken with (c0 := emit (EvX t1 s) c1); [apply ext_same; reflexivity|].
    apply extr_bind; [apply add_error_ext|]. intros _ c3. cbn [extr]. apply ext_refl.
  Qed.
  Lemma loop_ext : forall fuel s c, extr c (loop P fuel false s c).
  Proof.
    induction fuel as [|f IH]; intros s c; cbn [loop extr]; [exact Logic.I|].
    pose proof (read_errs c) as R. destruct (read P c) as [t c1]. cbn [snd] in R.
    eapply extr_weaken; [apply ext_same; exact R|].
    apply extr_bind; [apply match_token_ext|]. intros s' c2. destruct (is_eof P t); [cbn [extr]; apply ext_refl | apply IH].
  Qed.

  (* ---- the two runs agree up to the first error ---- *)
  Definition head_is {A} (e : Err) (r : res A) : Prop :=
    match r with
    | Ok _ c | Crash c | Raise1 _ c => exists l, errs c = e :: l
    | RaiseC es c => (exists l, errs c = e :: l) /\ es = errs c
    | OutOfFuel => True
    end.
  Lemma head_keep {A} e l c (r : res A) : errs c = e :: l -> extr c r -> head_is e r.
  Proof.
    intros H. destruct r; cbn [extr head_is]; auto; try (intros [l' X]; rewrite X, H; eexists; reflexivity).
    intros [[l' X] Y]. split; [rewrite X, H; eexists; reflexivity | exact Y].
  Qed.

  (* rt: the run that stops at the first error; rf: the collecting run *)
  Definition sim {A} (rt rf : res A) : Prop :=
    match rt with
    | Ok a c => rf = Ok a c /\ errs c = []
    | Raise1 e _ => head_is e rf
    | RaiseC _ _ => False
    | Crash c => rf = Crash c
    | OutOfFuel => rf = OutOfFuel
    end.

  Lemma sim_bind {A B} (rt rf : res A) (ft ff : A -> ctx -> res B) :
    sim rt rf -> (forall a c, errs c = [] -> sim (ft a c) (ff a c)) -> (forall a c, extr c (ff a c)) ->
    sim (bind rt ft) (bind rf ff).
  Proof.
    intros S Hs He. destruct rt as [a c|e ct|es ct|ct|]; cbn [sim bind] in *.
    - destruct S as [-> E]. cbn [bind]. apply Hs. exact E.
    - destruct rf as [a c'|e' c'|es' c'|c'|]; cbn [head_is bind] in *; auto.
      destruct S as [l E]. exact (head_keep e l c' _ E (He a c')).
    - destruct S.
    - rewrite S. reflexivity.
    - rewrite S. reflexivity.
  Qed.

  Lemma add_error_first {A} e c (f : unit -> ctx -> res A) : errs c = [] -> (forall a c1, extr c1 (f a c1)) ->
    head_is e (bind (add_error P e c) f).
  Proof.
    intros E Hf. unfold add_error. rewrite E. cbn [existsb app].
    set (c' := set_errs [e] c). assert (E' : errs c' = [e]) by reflexivity.
    destruct (_ <? _); cbn [bind head_is].
    - split; [exists []; exact E' | reflexivity].
    - exact (head_keep e [] c' _ E' (Hf tt c')).
  Qed.

  Lemma sim_ok {A} (a : A) c : errs c = [] -> sim (Ok a c) (Ok a c).
  Proof. intros E. split; [reflexivity | exact E]. Qed.

  Lemma match_k_sim k t c : errs c = [] -> sim (match_k P true k t c) (match_k P false k t c).
  Proof.
    intros E. unfold match_k. destruct (_ && _); [apply sim_ok; exact E|].
    destruct (matchf P k (ms (bump c)) t) as [b t' m'|e t' m']; [apply sim_ok; exact E|].
    cbn [sim]. apply add_error_first; [exact E|]. intros _ c1. cbn [extr]. apply ext_refl.
  Qed.
  Lemma any_match_sim ks : forall t c, errs c = [] -> sim (any_match P true ks t c) (any_match P false ks t c).
  Proof.
    induction ks as [|k ks IH]; intros t c E; cbn [any_match]; [apply sim_ok; exact E|].
    apply sim_bind; [apply match_k_sim; exact E | |].
    - intros [b t1] c1 E1. cbn [fst snd]. destruct b; [apply sim_ok; exact E1 | apply IH; exact E1].
    - intros [b t1] c1. cbn [fst snd]. destruct b; [cbn [extr]; apply ext_refl | apply any_match_ext].
  Qed.
  Lemma la_loop_sim h : forall fuel c acc, errs c = [] -> sim (la_loop P fuel true h c acc) (la_loop P fuel false h c acc).
  Proof.
    induction fuel as [|f IH]; intros c acc E; cbn [la_loop]; [reflexivity|].
    pose proof (read_errs c) as R. destruct (read P c) as [t c1]. cbn [snd] in R. rewrite E in R.
    apply sim_bind; [apply any_match_sim; exact R | |].
    - intros [b t1] c2 E2. cbn [fst snd]. destruct b; [apply sim_ok; exact E2|].
      apply sim_bind; [apply any_match_sim; exact E2 | |].
      + intros [b' t2] c3 E3. cbn [fst snd]. destruct b'; [apply IH; exact E3 | apply sim_ok; exact E3].
      + intros [b' t2] c3. cbn [fst snd]. destruct b'; [apply la_loop_ext | cbn [extr]; apply ext_refl].
    - intros [b t1] c2. cbn [fst snd]. destruct b; [cbn [extr]; apply ext_refl|].
      apply extr_bind; [apply any_match_ext|]. intros [b' t2] c3. cbn [fst snd]. destruct b'; [apply la_loop_ext | cbn [extr]; apply ext_refl].
  Qed.
  Lemma lookahead_sim h c : errs c = [] -> sim (lookahead P true h c) (lookahead P false h c).
  Proof.
    intros E. unfold lookahead. destruct (find_la P h); [|reflexivity].
    apply sim_bind; [apply la_loop_sim; exact E | |].
    - intros r c1 E1. apply sim_ok. exact E1.
    - intros r c1. cbn [extr]. apply ext_same. reflexivity.
  Qed.
  Lemma b_call_sim f c : errs c = [] -> sim (b_call P true f c) (b_call P false f c).
  Proof.
    intros E. unfold b_call. destruct (f (bs c)) as [b'|e b'|]; [apply sim_ok; exact E | | reflexivity].
    cbn [sim]. pose proof (add_error_first e (set_bs b' c) (fun a c1 => Ok a c1) E) as H.
    assert (X : bind (add_error P e (set_bs b' c)) (fun a c1 => Ok a c1) = add_error P e (set_bs b' c))
      by (destruct (add_error P e (set_bs b' c)) as [[] ?| | | |]; reflexivity).
    rewrite X in H. apply H. intros a c1. cbn [extr]. apply ext_refl.
  Qed.
  Lemma exec_sim t k : forall ps c, errs c = [] -> sim (exec P true t k ps c) (exec P false t k ps c).
  Proof.
    induction ps as [|p ps IH]; intros c E; cbn [exec]; [apply sim_ok; exact E|].
    apply sim_bind; [destruct p; apply b_call_sim; exact E | intros _ c1 E1; apply IH; exact E1 | intros _ c1; apply exec_ext].
  Qed.
  Lemma run_tests_sim : forall tests t c, errs c = [] -> sim (run_tests P true tests t c) (run_tests P false tests t c).
  Proof.
    induction tests as [|x xs IH]; intros t c E; cbn [run_tests]; [apply sim_ok; exact E|].
    apply sim_bind; [apply match_k_sim; exact E | |].
    - intros [b t1] c1 E1. cbn [fst snd]. destruct b; [|apply IH; exact E1].
      destruct (t_guard x) as [h|].
      + apply sim_bind; [apply lookahead_sim; exact E1 | |].
        * intros bb c2 E2. destruct bb; [|apply IH; exact E2].
          apply sim_bind; [apply exec_sim; exact E2 | intros _ c3 E3; apply sim_ok; exact E3 | intros _ c3; cbn [extr]; apply ext_refl].
        * intros bb c2. destruct bb; [|apply run_tests_ext].
          apply extr_bind; [apply exec_ext|]. intros _ c3. cbn [extr]. apply ext_refl.
      + apply sim_bind; [apply exec_sim; exact E1 | intros _ c3 E3; apply sim_ok; exact E3 | intros _ c3; cbn [extr]; apply ext_refl].
    - intros [b t1] c1. cbn [fst snd]. destruct b; [|apply run_tests_ext].
      destruct (t_guard x) as [h|].
      + apply extr_bind; [apply lookahead_ext|]. intros bb c2. destruct bb; [|apply run_tests_ext].
        apply extr_bind; [apply exec_ext|]. intros _ c3. cbn [extr]. apply ext_refl.
      + apply extr_bind; [apply exec_ext|]. intros _ c3. cbn [extr]. apply ext_refl.
  Qed.
  Lemma match_token_sim s t c : errs c = [] -> sim (match_token P true s t c) (match_token P false s t c).
  Proof.
    intros E. unfold match_token. destruct (find_state P s) as [x|]; [|reflexivity].
    apply sim_bind; [apply run_tests_sim; exact E | |].
    - intros [o t1] c1 E1. cbn [fst snd]. destruct o; [apply sim_ok; exact E1|].
      cbn [sim]. apply add_error_first; [exact E1|]. intros _ c3. cbn [extr]. apply ext_refl.
    - intros [o t1] c1. cbn [fst snd]. destruct o; [cbn [extr]; apply ext_refl|].
      eapply extr_weaken with (c0 := emit (EvX t1 s) c1); [apply ext_same; reflexivity|].
      apply extr_bind; [apply add_error_ext|]. intros _ c3. cbn [extr]. apply ext_refl.
  Qed.
  Lemma loop_sim : forall fuel s c, errs c = [] -> sim (loop P fuel true s c) (loop P fuel false s c).
  Proof.
    induction fuel as [|f IH]; intros s c E; cbn [loop]; [reflexivity|].
    pose proof (read_errs c) as R. destruct (read P c) as [t c1]. cbn [snd] in R. rewrite E in R.
    apply sim_bind; [apply match_token_sim; exact R | |].
    - intros s' c2 E2. destruct (is_eof P t); [apply sim_ok; exact E2 | apply IH; exact E2].
    - intros s' c2. destruct (is_eof P t); [cbn [extr]; apply ext_refl | apply loop_ext].
  Qed.

  Lemma parse_sim toks m b : sim (parse P true toks m b) (parse P false toks m b).
  Proof.
    unfold parse.
    apply sim_bind; [apply b_call_sim; reflexivity | |].
    - intros _ c1 E1. apply sim_bind; [apply loop_sim; exact E1 | |].
      + intros _ c2 E2. apply sim_bind; [apply b_call_sim; exact E2 | |].
        * intros _ c3 E3. rewrite E3. apply sim_ok. exact E3.
        * intros _ c3. destruct (errs c3) eqn:Ee; cbn [extr]; [apply ext_refl | split; [apply ext_refl | symmetry; exact Ee]].
      + intros _ c2. apply extr_bind; [eapply extr_weaken; [|apply b_call_ext]; apply ext_same; reflexivity|].
        intros _ c3. destruct (errs c3) eqn:Ee; cbn [extr]; [apply ext_refl | split; [apply ext_refl | symmetry; exact Ee]].
    - intros _ c1. apply extr_bind; [apply loop_ext|]. intros _ c2.
      apply extr_bind; [eapply extr_weaken; [|apply b_call_ext]; apply ext_same; reflexivity|].
      intros _ c3. destruct (errs c3) eqn:Ee; cbn [extr]; [apply ext_refl | split; [apply ext_refl | symmetry; exact Ee]].
  Qed.

  (* collecting mode lists errors es  ==>  stop mode raises exactly the first of them *)
  Theorem stop_first toks m b es c : parse P false toks m b = RaiseC es c ->
    exists e l c', es = e :: l /\ parse P true toks m b = Raise1 e c'.
  Proof.
    intros H. pose proof (parse_sim toks m b) as S. rewrite H in S.
    destruct (parse P true toks m b) as [a ct|e ct|es' ct|ct|]; cbn [sim head_is] in S.
    - destruct S as [X _]. discriminate X.
    - destruct S as [[l E] ->]. exists e, l, ct. auto.
    - destruct S.
    - discriminate S.
    - discriminate S.
  Qed.
  (* and the two modes accept the same inputs, with the same result *)
  Theorem stop_accepts toks m b c : parse P true toks m b = Ok tt c -> parse P false toks m b = Ok tt c.
  Proof. intros H. pose proof (parse_sim toks m b) as S. rewrite H in S. apply S. Qed.
End StopFirst.

Require Import PyStr Line Matcher Builder Pipeline Dialects.

Theorem source_stop_first m b src es m1 b1 n : parse_source false m b src = PErrs es m1 b1 n ->
  exists e l m2 b2 n2, es = e :: l /\ parse_source true m b src = PErr1 e m2 b2 n2.
Proof.
  unfold parse_source, parse_tokens, parse_tokens_with. intros H.
  destruct (parse (pipeline_params Table.table) false (scan src) (reset_matcher dialects m) (reset_builder b)) as [[] c|e c|es' c|c|] eqn:Pf;
    try discriminate H.
  - destruct (builder_result (bs c)); discriminate H.
  - inversion H; subst. destruct (stop_first _ _ _ _ _ _ Pf) as (e & l & c' & -> & Pt).
    rewrite Pt. exists e, l, (ms c'), (bs c'), (calls c'). auto.
Qed.

Theorem source_stop_accepts m b src d m1 b1 n : parse_source true m b src = POk d m1 b1 n ->
  parse_source false m b src = POk d m1 b1 n.
Proof.
  unfold parse_source, parse_tokens, parse_tokens_with. intros H.
  destruct (parse (pipeline_params Table.table) true (scan src) (reset_matcher dialects m) (reset_builder b)) as [[] c|e c|es' c|c|] eqn:Pt;
    try discriminate H.
  rewrite (stop_accepts _ _ _ _ _ Pt). exact H.
Qed.
