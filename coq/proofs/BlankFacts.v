(* A blank line is never reported as unexpected: every state can take it (as #Empty, or as #Other inside a
   doc string).  Hence Parser.parse does not depend on what mk_unexpected would answer for blank tokens.
   Generic interpreter. *)
From Coq Require Import List Bool Arith Lia.
Import ListNotations.
Require Import Kinds Automaton AutoFacts Delivery.

Section Blank.
  Context {Tok MS BS Err : Type}.
  Variable P : params Tok MS BS Err.
  Notation ctx := (ctx Tok MS BS Err).
  Notation res := (res Tok MS BS Err).
  Variable bk : Tok -> bool.

  Hypothesis bk_stable : forall k m t, bk (mtok (matchf P k m t)) = bk t.
  Hypothesis bk_not_eof : forall t, bk t = true -> is_eof P t = false.
  Hypothesis fires : forall x, In x (table P) -> exists pre y post, s_tests x = pre ++ y :: post /\ t_guard y = None /\
    forall m t, bk t = true -> exists t' m', matchf P (t_kind y) m t = MR true t' m'.

  Variable u : Tok -> list kind -> Err.
  Hypothesis agree : forall t exp, bk t = false -> u t exp = mk_unexpected P t exp.

  Definition P' : params Tok MS BS Err :=
    mk_params Tok MS BS Err (is_eof P) (mk_eof P) (matchf P) (b_start P) (b_end P) (b_build P) (err_same_msg P) u
              (table P) (lookaheads P) (error_cap P) (start_state P).

  (* ---- everything but match_token is the same function (the two differ in a field those never read) ---- *)
  Lemma run_tests_eq stop tests t c : run_tests P' stop tests t c = run_tests P stop tests t c.
  Proof. reflexivity. Qed.
  Lemma read_eq c : read P' c = read P c. Proof. reflexivity. Qed.

  (* the token keeps its blankness through the tests *)
  Lemma match_k_bk stop k t c : sat (match_k P stop k t c) (fun r _ => bk (snd r) = bk t) (fun _ => True) True.
  Proof.
    unfold match_k. destruct (_ && _); cbn [sat snd]; [reflexivity|]. cbn [ms bump].
    pose proof (bk_stable k (ms c) t) as B.
    destruct (matchf P k (ms c) t) as [b t' m'|e t' m']; cbn [sat snd mtok] in *; [exact B|].
    destruct stop; cbn [sat]; [exact I|].
    destruct (add_error P e _) as [[] c'| | | |]; cbn [bind sat snd]; auto.
  Qed.
  Lemma run_tests_bk stop : forall tests t c, sat (run_tests P stop tests t c) (fun r _ => bk (snd r) = bk t) (fun _ => True) True.
  Proof.
    induction tests as [|x xs IH]; intros t c; cbn [run_tests sat snd]; [reflexivity|].
    eapply sat_bind; [apply match_k_bk|]. intros [b t1] c1 B1. cbn [fst snd] in *. destruct b.
    - destruct (t_guard x) as [h|].
      + destruct (lookahead P stop h c1) as [bb c2| | | |]; cbn [bind sat]; auto. destruct bb.
        * destruct (exec P stop t1 (t_kind x) (t_prods x) c2) as [[] c3| | | |]; cbn [bind sat snd]; auto.
        * eapply sat_weaken; [apply IH | | auto | auto]. intros r c' H. cbn beta in *. congruence.
      + destruct (exec P stop t1 (t_kind x) (t_prods x) c1) as [[] c3| | | |]; cbn [bind sat snd]; auto.
    - eapply sat_weaken; [apply IH | | auto | auto]. intros r c' H. cbn beta in *. congruence.
  Qed.

  (* a blank token always fires a test *)
  Lemma run_tests_blank stop : forall pre y post t c, bk t = true -> t_guard y = None ->
    (forall m t, bk t = true -> exists t' m', matchf P (t_kind y) m t = MR true t' m') ->
    sat (run_tests P stop (pre ++ y :: post) t c) (fun r _ => fst r <> None) (fun _ => True) True.
  Proof.
    induction pre as [|x xs IH]; intros y post t c Bt Gy Fy; cbn [app run_tests].
    - unfold match_k. rewrite (bk_not_eof t Bt), andb_false_r. cbn [ms bump].
      destruct (Fy (ms c) t Bt) as (t' & m' & M). rewrite M. cbn [bind fst snd]. rewrite Gy.
      destruct (exec P stop t' (t_kind y) (t_prods y) _) as [[] c3| | | |]; cbn [bind sat fst]; auto. discriminate.
    - eapply sat_bind; [apply match_k_bk|]. intros [b t1] c1 B1. cbn [fst snd] in *. rewrite Bt in B1. destruct b.
      + destruct (t_guard x) as [h|].
        * destruct (lookahead P stop h c1) as [bb c2| | | |]; cbn [bind sat]; auto. destruct bb.
          -- destruct (exec P stop t1 (t_kind x) (t_prods x) c2) as [[] c3| | | |]; cbn [bind sat fst]; auto. discriminate.
          -- apply IH; auto.
        * destruct (exec P stop t1 (t_kind x) (t_prods x) c1) as [[] c3| | | |]; cbn [bind sat fst]; auto. discriminate.
      + apply IH; auto.
  Qed.

  Lemma match_token_eq stop s t c : match_token P' stop s t c = match_token P stop s t c.
  Proof.
    unfold match_token. change (find_state P' s) with (find_state P s).
    destruct (find_state P s) as [x|] eqn:Fs; [|reflexivity].
    assert (Hx : In x (table P)) by (unfold find_state in Fs; apply find_some in Fs; tauto).
    change (run_tests P' stop (s_tests x) t c) with (run_tests P stop (s_tests x) t c).
    pose proof (run_tests_bk stop (s_tests x) t c) as Kp.
    destruct (fires x Hx) as (pre & y & post & Es & Gy & Fy).
    pose proof (fun Bt => run_tests_blank stop pre y post t c Bt Gy Fy) as Bl. rewrite <- Es in Bl.
    destruct (run_tests P stop (s_tests x) t c) as [[o t1] c1| | | |]; cbn [bind fst snd sat] in *; try reflexivity.
    destruct o as [s'|]; [reflexivity|].
    destruct (bk t) eqn:Bt; [exfalso; exact (Bl eq_refl eq_refl)|].
    change (mk_unexpected P' t1 (s_expected x)) with (u t1 (s_expected x)). rewrite (agree t1 (s_expected x) Kp). reflexivity.
  Qed.

  Lemma loop_eq stop : forall fuel s c, loop P' fuel stop s c = loop P fuel stop s c.
  Proof.
    induction fuel as [|f IH]; intros s c; cbn [loop]; [reflexivity|]. rewrite read_eq. destruct (read P c) as [t c1].
    rewrite match_token_eq. destruct (match_token P stop s t c1) as [s' c2| | | |]; cbn [bind]; try reflexivity.
    change (is_eof P' t) with (is_eof P t). destruct (is_eof P t); [reflexivity | apply IH].
  Qed.

  Theorem parse_eq stop toks m b : parse P' stop toks m b = parse P stop toks m b.
  Proof.
    unfold parse. change (b_call P' stop (b_start P' RGherkinDocument)) with (b_call P stop (b_start P RGherkinDocument)).
    destruct (b_call P stop (b_start P RGherkinDocument) _) as [[] c1| | | |]; cbn [bind]; try reflexivity.
    change (start_state P') with (start_state P). rewrite loop_eq. reflexivity.
  Qed.
End Blank.
