(* Markdown matcher (C19): steps behind a list bullet, and the backtick-quoted tags of a line -- unbounded statements. *)
From Coq Require Import List Bool Arith NArith Lia.
Import ListNotations.
Require Import Kinds PyStr Line Matcher MatcherMd CellsSpec KeywordFacts Dialects.
Local Open Scope N_scope.

Lemma bullet_not_space b : is_bullet b = true -> is_space b = false.
Proof.
  unfold is_bullet. intros H. apply orb_prop in H as [H|H]; [apply orb_prop in H as [H|H]|]; apply N.eqb_eq in H; subst; reflexivity.
Qed.

Lemma count_while_nil_head p c r : p c = false -> count_while p (c :: r) = 0%nat.
Proof. intros H. unfold count_while. cbn [take_while]. rewrite H. reflexivity. Qed.

Lemma count_while_app_stop p a r : forallb p a = true -> match r with [] => True | c :: _ => p c = false end ->
  count_while p (a ++ r) = length a.
Proof. intros H Hr. unfold count_while. now rewrite (take_while_app_stop p a r H Hr). Qed.

(* blanks, a bullet ('*', '+' or '-'), blanks, then text whose first listed keyword prefix is k: a step with keyword k,
   the trimmed rest as text, at the column of the keyword *)
Theorem md_step_recognised m t (ks : list str) (k ws bl rest : str) (b : N) n :
  let line := ws ++ [b] ++ bl ++ k ++ rest in
  forallb is_space ws = true -> is_bullet b = true -> forallb is_space bl = true ->
  match k ++ rest with [] => True | c :: _ => is_space c = false end ->
  first_kw ks [] (k ++ rest) = Some k ->
  md_title m t (make_line line n) false ks [] KStepLine
  = Some (set_matched m t KStepLine (Some (strip (dot_star rest))) (Some k) None (Some (length ws + 1 + length bl)%nat) []).
Proof.
  intros line WS Hb BL Hk FK.
  pose proof (bullet_not_space b Hb) as Nb.
  assert (HD : match [b] ++ bl ++ k ++ rest with [] => True | c :: _ => is_space c = false end) by exact Nb.
  destruct (make_line_blanks ws ([b] ++ bl ++ k ++ rest) n WS HD) as [Tr In_]. fold line in Tr, In_.
  unfold md_title. rewrite Tr, In_. unfold bullet_prefix. cbn [app].
  rewrite (count_while_nil_head is_space b _ Nb). cbn [skipn]. rewrite Hb.
  rewrite (count_while_app_stop is_space bl (k ++ rest) BL Hk).
  assert (T : try_blank_runs (length bl) ks (bl ++ k ++ rest) (length bl) = Some (length bl, k)).
  { destruct (length bl) eqn:L; cbn [try_blank_runs]; rewrite <- ?L, skipn_app_length, FK; reflexivity. }
  rewrite T. cbn [length Nat.add]. f_equal.
  replace (length bl + length k + 0)%nat with (length (bl ++ k)) by (rewrite app_length; lia).
  rewrite (app_assoc bl k rest). cbn [skipn]. rewrite skipn_app_length. f_equal. f_equal. lia.
Qed.

(* a line whose first non-blank character is not a bullet is not a step *)
Theorem md_no_bullet_no_step m t l ks ty :
  match l_trimmed l with [] => True | c :: _ => is_space c = false /\ is_bullet c = false end ->
  md_title m t l false ks [] ty = None.
Proof.
  intros H. unfold md_title, bullet_prefix. destruct (l_trimmed l) as [|c r]; [reflexivity|]. destruct H as [H1 H2].
  rewrite (count_while_nil_head is_space c r H1). cbn [skipn]. rewrite H2. reflexivity.
Qed.

(* ---- tags ---- *)
Definition tick_free (s : str) : bool := forallb (fun c => negb (c =? BACKTICK)) s.

Lemma find_close_spec body rest : tick_free body = true -> forall acc,
  find_close (body ++ BACKTICK :: rest) acc = Some (rev acc ++ body, rest).
Proof.
  induction body as [|c body IH]; intros F acc; cbn [app find_close].
  - rewrite N.eqb_refl, app_nil_r. reflexivity.
  - cbn [tick_free forallb] in F. apply andb_prop in F as [Fc Fb]. apply negb_true_iff in Fc. rewrite Fc.
    rewrite (IH Fb (c :: acc)). cbn [rev]. rewrite <- app_assoc. reflexivity.
Qed.

Lemma find_close_none s : tick_free s = true -> forall acc, find_close s acc = None.
Proof.
  induction s as [|c s IH]; intros F acc; [reflexivity|]. cbn [tick_free forallb] in F. apply andb_prop in F as [Fc Fs].
  apply negb_true_iff in Fc. cbn [find_close]. rewrite Fc. exact (IH Fs _).
Qed.

(* a line: text, `@tag`, text, `@tag`, ..., text -- the pieces and the tag bodies free of backticks *)
Fixpoint render (items : list (str * str)) (tail : str) : str :=
  match items with
  | [] => tail
  | (seg, body) :: r => seg ++ [BACKTICK; AT] ++ body ++ [BACKTICK] ++ render r tail
  end.
Fixpoint tag_positions (items : list (str * str)) (pos : nat) : list (nat * str) :=
  match items with
  | [] => []
  | (seg, body) :: r => ((pos + length seg)%nat, AT :: body) :: tag_positions r (pos + length seg + length body + 3)%nat
  end.
Definition item_ok (it : str * str) : bool := tick_free (fst it) && tick_free (snd it) && negb (Nat.eqb (length (snd it)) 0).

Lemma md_tags_skip seg : tick_free seg = true -> forall X fuel pos, (length seg <= fuel)%nat ->
  md_tags_from fuel (seg ++ X) pos = md_tags_from (fuel - length seg) X (pos + length seg)%nat.
Proof.
  induction seg as [|c seg IH]; intros F X fuel pos Lf.
  - cbn [app length]. rewrite Nat.sub_0_r, Nat.add_0_r. reflexivity.
  - cbn [tick_free forallb] in F. apply andb_prop in F as [Fc Fs]. apply negb_true_iff in Fc.
    destruct fuel as [|fuel]; [cbn in Lf; lia|]. cbn [app md_tags_from]. rewrite Fc.
    rewrite (IH Fs X fuel (S pos)) by (cbn in Lf; lia). cbn [length]. f_equal. lia.
Qed.

Lemma md_tags_none s : tick_free s = true -> forall fuel pos, md_tags_from fuel s pos = [].
Proof.
  induction s as [|c s IH]; intros F fuel pos; [destruct fuel; reflexivity|].
  cbn [tick_free forallb] in F. apply andb_prop in F as [Fc Fs]. apply negb_true_iff in Fc.
  destruct fuel as [|fuel]; [reflexivity|]. cbn [md_tags_from]. rewrite Fc. exact (IH Fs _ _).
Qed.

Theorem md_tags_spec : forall items tail fuel pos, forallb item_ok items = true -> tick_free tail = true ->
  (length (render items tail) <= fuel)%nat ->
  md_tags_from fuel (render items tail) pos = tag_positions items pos.
Proof.
  induction items as [|[seg body] items IH]; intros tail fuel pos Ok Ft Lf.
  - cbn [render tag_positions]. exact (md_tags_none tail Ft fuel pos).
  - cbn [forallb] in Ok. apply andb_prop in Ok as [Oi Os]. unfold item_ok in Oi. cbn [fst snd] in Oi.
    apply andb_prop in Oi as [Oi Nb]. apply andb_prop in Oi as [Fs Fb]. apply negb_true_iff in Nb. apply Nat.eqb_neq in Nb.
    cbn [render tag_positions] in *. rewrite !app_length in Lf. cbn [length] in Lf.
    rewrite (md_tags_skip seg Fs _ fuel pos) by lia.
    destruct (fuel - length seg)%nat as [|f] eqn:Ef; [lia|].
    cbn [app md_tags_from]. rewrite N.eqb_refl. rewrite N.eqb_refl.
    change (body ++ BACKTICK :: render items tail) with (body ++ BACKTICK :: render items tail).
    rewrite (find_close_spec body (render items tail) Fb []). cbn [rev app].
    destruct body as [|c body]; [cbn in Nb; congruence|].
    f_equal. rewrite (IH tail f _ Os Ft); [f_equal; cbn [length]; lia|]. cbn [length] in Lf. lia.
Qed.

(* no step keyword of any dialect is empty or begins with a blank *)
Definition kw_starts_nonblank (k : str) : bool := match k with [] => false | c :: _ => negb (is_space c) end.
Lemma step_keywords_start_nonblank : forallb (fun d => forallb kw_starts_nonblank (step_keywords d)) Dialects.dialects = true.
Proof. vm_compute. reflexivity. Qed.

(* ---- the header prefix, exactly: one to six '#', then a whitespace character ---- *)
Lemma count_while_spec p s : exists a r, s = a ++ r /\ forallb p a = true /\ count_while p s = length a
                                         /\ match r with [] => True | c :: _ => p c = false end.
Proof.
  unfold count_while. induction s as [|c s IH]; [exists [], []; auto|]. cbn [take_while]. destruct (p c) eqn:E.
  - destruct IH as (a & r & Es & Fa & L & Hr). exists (c :: a), r. cbn [app forallb length]. rewrite E, Fa, L, <- Es. auto.
  - exists [], (c :: s). cbn. auto.
Qed.

Theorem header_prefix_exact s n : header_prefix s = Some n <->
  exists d sp rest, s = repeat HASH d ++ sp :: rest /\ (1 <= d <= 6)%nat /\ is_space sp = true /\ n = S d.
Proof.
  split.
  - unfold header_prefix. destruct (count_while_spec (fun c => c =? HASH) s) as (a & r & Es & Fa & L & Hr). rewrite L.
    destruct ((1 <=? length a)%nat && (length a <=? 6)%nat) eqn:B; [|discriminate]. apply andb_prop in B as [B1 B2].
    apply Nat.leb_le in B1. apply Nat.leb_le in B2. rewrite Es, skipn_app_length.
    destruct r as [|c r]; [discriminate|]. destruct (is_space c) eqn:Sp; [|discriminate]. intros H. inversion H; subst n.
    exists (length a), c, r. split; [|auto]. f_equal. clear - Fa. induction a as [|x a IH]; [reflexivity|]. cbn [forallb] in Fa.
    apply andb_prop in Fa as [Ex Fa]. apply N.eqb_eq in Ex. subst x. cbn [length repeat]. f_equal. exact (IH Fa).
  - intros (d & sp & rest & -> & Hd & Hsp & ->). unfold header_prefix.
    rewrite count_while_repeat by (cbn; destruct (sp =? HASH) eqn:E; [apply N.eqb_eq in E; subst; discriminate | reflexivity]).
    assert (B : ((1 <=? d)%nat && (d <=? 6)%nat) = true) by (apply andb_true_intro; split; apply Nat.leb_le; lia).
    rewrite B, skipn_repeat_app, Hsp. reflexivity.
Qed.

(* a Markdown table row is indented by two to five whitespace characters, exactly *)
Theorem md_table_indent_exact text : md_table_indent text = true <->
  exists ws r, text = ws ++ PIPE :: r /\ forallb is_space ws = true /\ (2 <= length ws <= 5)%nat.
Proof.
  split.
  - unfold md_table_indent. destruct (count_while_spec is_space text) as (a & r & Es & Fa & L & Hr). rewrite L.
    intros H. apply andb_prop in H as [H H3]. apply andb_prop in H as [H1 H2]. apply Nat.leb_le in H1. apply Nat.leb_le in H2.
    rewrite Es, skipn_app_length in H3. destruct r as [|c r]; [discriminate|]. apply N.eqb_eq in H3. subst c.
    exists a, r. auto.
  - intros (ws & r & -> & Fw & Hl). unfold md_table_indent.
    rewrite (count_while_app_stop is_space ws (PIPE :: r) Fw eq_refl), skipn_app_length, N.eqb_refl.
    assert (B : ((2 <=? length ws)%nat && (length ws <=? 5)%nat) = true) by (apply andb_true_intro; split; apply Nat.leb_le; lia).
    rewrite B. reflexivity.
Qed.
