(* C01: the builder-shape certificate for the regenerated table. *)
From Coq Require Import List Bool Arith.
Import ListNotations.
Require Import Kinds Table TableFacts BuilderSafe ShapeDefs.

Definition dstates : list nat := Eval vm_compute in docstring_states table.
Definition beta : bmap :=
  Eval vm_compute in rounds table dstates 60 [(start_state, [(RGherkinDocument, [])])].

Lemma beta_ok : shape_ok table dstates start_state beta = true.
Proof. vm_compute. reflexivity. Qed.
