(* C15: a parse started with the id counter at i + k is the parse started at i with every id shifted by k --
   the relational parametricity of the interpreter (ParamGlue), instantiated with "equal tokens" and
   "the builder state shifted by k". *)
From Coq Require Import String List Bool Arith Lia.
Import ListNotations.
From Param Require Import Param.
Require Import Kinds PyStr Line Matcher Ast Builder Automaton Pipeline PipelineFacts Dialects Table ParamGlue IdShift LineEndings.

Definition any_m (m : mstate) : Prop := True.

Section K.
  Variable k : nat.
  Definition BRk (b b' : bstate) : Prop := b' = bshift k b.

  Lemma lift_sh o : lift_bout (bout_sh k o) = match lift_bout o with BOk b => BOk (bshift k b) | BRaise e b => BRaise e (bshift k b) | BCrash => BCrash end.
  Proof. destruct o; reflexivity. Qed.

  Lemma eq_match kd m t t' : any_m m -> t = t' ->
    match p_matchf kd m t, p_matchf kd m t' with
    | MR b t1 m1, MR b' t1' m1' => b = b' /\ t1 = t1' /\ m1 = m1' /\ any_m m1
    | MRaise e t1 m1, MRaise e' t1' m1' => e = e' /\ t1 = t1' /\ m1 = m1' /\ any_m m1
    | _, _ => False
    end.
  Proof. intros _ <-. destruct (p_matchf kd m t); repeat split; exact I. Qed.

  Lemma BRk_start r b b' : BRk b b' ->
    match p_bstart r b, p_bstart r b' with
    | BOk b1, BOk b1' => BRk b1 b1'
    | BRaise e b1, BRaise e' b1' => e = e' /\ BRk b1 b1'
    | BCrash, BCrash => True
    | _, _ => False
    end.
  Proof. intros ->. unfold p_bstart. rewrite builder_start_shift, lift_sh. destruct (lift_bout (builder_start r b)); unfold BRk; auto. Qed.
  Lemma BRk_end r b b' : BRk b b' ->
    match p_bend r b, p_bend r b' with
    | BOk b1, BOk b1' => BRk b1 b1'
    | BRaise e b1, BRaise e' b1' => e = e' /\ BRk b1 b1'
    | BCrash, BCrash => True
    | _, _ => False
    end.
  Proof. intros ->. unfold p_bend. rewrite builder_end_shift, lift_sh. destruct (lift_bout (builder_end r b)); unfold BRk; auto. Qed.
  Lemma BRk_build t t' b b' : t = t' -> BRk b b' ->
    match p_bbuild t b, p_bbuild t' b' with
    | BOk b1, BOk b1' => BRk b1 b1'
    | BRaise e b1, BRaise e' b1' => e = e' /\ BRk b1 b1'
    | BCrash, BCrash => True
    | _, _ => False
    end.
  Proof. intros <- ->. unfold p_bbuild. rewrite builder_build_shift, lift_sh. destruct (lift_bout (builder_build t b)); unfold BRk; auto. Qed.

  (* what the caller observes, shifted *)
  Definition pshift (r : presult) : presult :=
    match r with
    | POk d m b n => POk (sh_doc k d) m (bshift k b) n
    | PErrs es m b n => PErrs es m (bshift k b) n
    | PErr1 e m b n => PErr1 e m (bshift k b) n
    | x => x
    end.

  Lemma list_R_eq' (l l' : list token) : list_R token token eq l l' -> l = l'.
  Proof. apply list_R_eq. auto. Qed.
  Lemma list_R_refl' (l : list token) : list_R token token eq l l.
  Proof. apply list_R_refl. reflexivity. Qed.

  Theorem parse_tokens_shift stop toks m b :
    presult_of (parse_tokens stop toks m (bshift k b)) = pshift (presult_of (parse_tokens stop toks m b)).
  Proof.
    unfold parse_tokens, parse_tokens_with. rewrite reset_builder_shift.
    pose proof (parse_related eq BRk any_m unexpected (fun t t' H => f_equal tok_is_eof H) (fun n => eq_refl)
                  eq_match (fun t t' exp H => f_equal (fun x => unexpected x exp) H) BRk_start BRk_end BRk_build
                  stop toks toks (reset_matcher dialects m) (reset_builder b) (bshift k (reset_builder b)) (list_R_refl' toks) I eq_refl) as R.
    change (params_u unexpected) with (pipeline_params Table.table) in R.
    destruct R as [a a' _ c c' Hc|e e' He c c' Hc|es es' Hes c c' Hc|c c' Hc|]; cbn [presult_of pshift]; try reflexivity.
    - destruct Hc as [q q' _ r r' _ ln ln' _ er er' _ ms1 ms1' Hms bs1 bs1' Hbs cl cl' Hcl lg lg' _]. cbn [bs ms calls].
      unfold BRk in Hbs. subst bs1'. rewrite builder_result_shift. destruct Hms as [-> _]. apply nat_R_eq in Hcl. subst cl'.
      destruct (builder_result bs1); reflexivity.
    - destruct Hc as [q q' _ r r' _ ln ln' _ er er' _ ms1 ms1' Hms bs1 bs1' Hbs cl cl' Hcl lg lg' _]. cbn [bs ms calls].
      unfold BRk in Hbs. subst bs1'. destruct Hms as [-> _]. apply nat_R_eq in Hcl. subst cl'. unfold ER in He. subst e'. reflexivity.
    - destruct Hc as [q q' _ r r' _ ln ln' _ er er' _ ms1 ms1' Hms bs1 bs1' Hbs cl cl' Hcl lg lg' _]. cbn [bs ms calls].
      unfold BRk in Hbs. subst bs1'. destruct Hms as [-> _]. apply nat_R_eq in Hcl. subst cl'. apply ER_list in Hes. subst es'. reflexivity.
  Qed.

  (* the id counter is only an offset: same documents, same errors, every id k higher *)
  Theorem parse_source_shift stop m b src : parse_source stop m (bshift k b) src = pshift (parse_source stop m b src).
  Proof. rewrite !parse_source_of. apply parse_tokens_shift. Qed.
End K.
