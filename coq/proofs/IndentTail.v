(* C16: indentation.  Two physical lines with the same text after their leading whitespace (lstrip) are,
   for the token matcher, the same line up to columns: every match_* method gives the same answer, matched
   tokens that differ only in columns (and in the physical line they carry), matcher states that differ only
   in the doc string indentation to remove, errors that differ only in their column -- for every question
   except "is this free text?" when the two texts (after removing the doc string's indentation) differ, and
   "is this a comment?" on a comment line whose text changed (the comment text is the whole line). *)
From Coq Require Import String List Bool Arith NArith Lia.
Import ListNotations.
Require Import Kinds PyStr Line Matcher MatcherFacts Ast Builder BuilderErase ColErase PipelineFacts Dialects.

(* matcher states that differ only in _indent_to_remove *)
Definition msim (m m' : mstate) : Prop :=
  ms_default m = ms_default m' /\ ms_name m = ms_name m' /\ ms_dialect m = ms_dialect m' /\ ms_sep m = ms_sep m'.
Lemma msim_refl m : msim m m. Proof. repeat split. Qed.

(* the two lines of a pair of twins *)
Definition LRi (o o' : option gline) : Prop :=
  match o, o' with
  | None, None => True
  | Some l, Some l' => l_trimmed l = l_trimmed l' /\ l_no l = l_no l'
  | _, _ => False
  end.
Definition twi (t t' : token) : Prop := tce t = tce t' /\ LRi (tk_line t) (tk_line t').
Lemma LRi_refl o : LRi o o. Proof. destruct o; cbn; auto. Qed.
Lemma twi_refl t : twi t t. Proof. split; [reflexivity | apply LRi_refl]. Qed.

Lemma tce_line t t' : tce t = tce t' -> loc_line (tk_loc t) = loc_line (tk_loc t').
Proof. unfold tce, ce_loc. intros H. inversion H. reflexivity. Qed.

Lemma sm_ce m m' t t' ty text text' kw kt ind ind' items items' :
  loc_line (tk_loc t) = loc_line (tk_loc t') -> option_map rstrip_crlf text = option_map rstrip_crlf text' ->
  map ce_item items = map ce_item items' -> ms_name m = ms_name m' ->
  tce (set_matched m t ty text kw kt ind items) = tce (set_matched m' t' ty text' kw kt ind' items').
Proof.
  intros L T I N. unfold set_matched, tce, ce_loc. cbn [tk_loc loc_line m_type m_text m_keyword m_ktype m_items m_dialect].
  rewrite L, T, I, N. reflexivity.
Qed.
Lemma sm_line m t ty text kw kt ind items : tk_line (set_matched m t ty text kw kt ind items) = tk_line t.
Proof. reflexivity. Qed.

(* ---- tags and cells: the same items, other columns ---- *)
Lemma tags_items_ce its : forall col col' acc acc', map ce_item acc = map ce_item acc' ->
  match tags_items its col acc, tags_items its col' acc' with
  | TagsOk i, TagsOk i' => map ce_item i = map ce_item i'
  | TagsErr _, TagsErr _ => True
  | _, _ => False
  end.
Proof.
  induction its as [|item rest IH]; intros col col' acc acc' H; cbn [tags_items].
  - rewrite !map_rev, H. reflexivity.
  - destruct (existsb is_space (AT :: rstrip item)); [exact I|]. apply IH. cbn [map ce_item snd]. now rewrite H.
Qed.
Lemma line_tags_ce l l' : l_trimmed l = l_trimmed l' ->
  match line_tags l, line_tags l' with
  | TagsOk i, TagsOk i' => map ce_item i = map ce_item i'
  | TagsErr _, TagsErr _ => True
  | _, _ => False
  end.
Proof. intros H. unfold line_tags. rewrite H. apply tags_items_ce. reflexivity. Qed.
Lemma table_cells_ce l l' : l_trimmed l = l_trimmed l' -> map ce_item (table_cells l) = map ce_item (table_cells l').
Proof. intros H. unfold table_cells. rewrite H, !map_map. apply map_ext. intros cc. reflexivity. Qed.

(* ---- the matcher ---- *)
Definition mouti_rel (t t' : token) (o o' : mout) : Prop :=
  match o, o' with
  | MNo, MNo => True
  | MYes t1 m1, MYes t1' m1' => msim m1 m1' /\ tce t1 = tce t1' /\ tk_line t1 = tk_line t /\ tk_line t1' = tk_line t'
  | MErr e t1 m1, MErr e' t1' m1' => ce_err e = ce_err e' /\ msim m1 m1' /\ tce t1 = tce t1' /\ tk_line t1 = tk_line t /\ tk_line t1' = tk_line t'
  | _, _ => False
  end.

(* the questions whose answer may depend on the indentation *)
Definition iblind (k : kind) (m m' : mstate) (l l' : gline) : Prop :=
  match k with
  | KOther => get_line_text l (Some (ms_indent m)) = get_line_text l' (Some (ms_indent m'))
  | KComment => line_startswith l [HASH] = true -> l_text l = l_text l'
  | _ => True
  end.

Section MatcherI.
  Variables l l' : gline.
  Hypothesis Htr : l_trimmed l = l_trimmed l'.
  Hypothesis Hno : l_no l = l_no l'.
  Variables m m' : mstate.
  Hypothesis Hm : msim m m'.
  Variables t t' : token.
  Hypothesis Hl : tk_line t = Some l.
  Hypothesis Hl' : tk_line t' = Some l'.
  Hypothesis He : tce t = tce t'.

  Let Hline : loc_line (tk_loc t) = loc_line (tk_loc t') := tce_line t t' He.
  Let Hname : ms_name m = ms_name m' := proj1 (proj2 Hm).

  Lemma iyes ty text text' kw kt ind ind' items items' m1 m1' :
    msim m1 m1' -> option_map rstrip_crlf text = option_map rstrip_crlf text' -> map ce_item items = map ce_item items' ->
    mouti_rel t t' (MYes (set_matched m1 t ty text kw kt ind items) m1) (MYes (set_matched m1' t' ty text' kw kt ind' items') m1').
  Proof.
    intros M T I. cbn [mouti_rel]. split; [exact M|]. split; [apply sm_ce; [exact Hline | exact T | exact I | exact (proj1 (proj2 M))]|].
    split; reflexivity.
  Qed.

  Lemma sw_same p : line_startswith l p = line_startswith l' p.
  Proof. unfold line_startswith. now rewrite Htr. Qed.
  Lemma rest_same k : get_rest_trimmed l k = get_rest_trimmed l' k.
  Proof. unfold get_rest_trimmed. now rewrite Htr. Qed.
  Lemma ftk_same ks : first_title_keyword l ks = first_title_keyword l' ks.
  Proof. induction ks as [|k ks IH]; cbn [first_title_keyword]; [reflexivity|]. unfold startswith_title_keyword. rewrite Htr, IH. reflexivity. Qed.
  Lemma fp_same ks : first_prefix l ks = first_prefix l' ks.
  Proof. induction ks as [|k ks IH]; cbn [first_prefix]; [reflexivity|]. rewrite sw_same, IH. reflexivity. Qed.

  Lemma ititle ty ks : mouti_rel t t' (match_title_line m t l ty ks) (match_title_line m' t' l' ty ks).
  Proof.
    unfold match_title_line. rewrite ftk_same. destruct (first_title_keyword l' ks) as [k|]; [|exact I].
    apply iyes; [exact Hm | now rewrite rest_same | reflexivity].
  Qed.
  Lemma idocsep sep b : mouti_rel t t' (match_docsep m t l sep b) (match_docsep m' t' l' sep b).
  Proof.
    unfold match_docsep. rewrite sw_same. destruct (line_startswith l' sep); [|exact I].
    destruct Hm as (D & N & Di & Sp). destruct b.
    - rewrite rest_same. apply iyes; [repeat split; cbn; auto | reflexivity | reflexivity].
    - apply iyes; [repeat split; cbn; auto | reflexivity | reflexivity].
  Qed.

  Theorem matcher_indent k : iblind k m m' l l' -> mouti_rel t t' (matcher dialects k m t) (matcher dialects k m' t').
  Proof.
    intros Bk. unfold matcher. rewrite Hl, Hl'. destruct Hm as (D & N & Di & Sp).
    destruct k; cbn [iblind] in Bk; rewrite <- ?Di.
    - (* EOF *) exact I.
    - (* Empty *) unfold line_is_empty. rewrite Htr. destruct (l_trimmed l'); [|exact I]. apply iyes; [exact Hm | reflexivity | reflexivity].
    - (* Comment *) rewrite sw_same. destruct (line_startswith l' [HASH]) eqn:S; [|exact I].
      rewrite <- sw_same in S. rewrite (Bk S). apply iyes; [exact Hm | reflexivity | reflexivity].
    - (* TagLine *) rewrite sw_same. destruct (line_startswith l' [AT]); [|exact I].
      pose proof (line_tags_ce l l' Htr) as T. destruct (line_tags l) as [items|col], (line_tags l') as [items'|col']; try contradiction.
      + apply iyes; [exact Hm | reflexivity | exact T].
      + cbn [mouti_rel]. split; [|split; [exact Hm | split; [exact He | split; reflexivity]]].
        rewrite !ce_err_pe. unfold ce_loc. cbn [loc_line]. now rewrite Hno.
    - apply ititle.
    - apply ititle.
    - apply ititle.
    - (* ScenarioLine *)
      pose proof (ititle KScenarioLine (d_scenario (ms_dialect m))) as R1.
      pose proof (ititle KScenarioLine (d_scenarioOutline (ms_dialect m))) as R2.
      destruct (match_title_line m t l KScenarioLine (d_scenario (ms_dialect m))) as [|ta ma|ea ta ma],
               (match_title_line m' t' l' KScenarioLine (d_scenario (ms_dialect m))) as [|tb mb|eb tb mb]; try contradiction; auto.
    - apply ititle.
    - (* StepLine *) rewrite fp_same. destruct (first_prefix l' (step_keywords (ms_dialect m))) as [k|]; [|exact I].
      apply iyes; [exact Hm | now rewrite rest_same | reflexivity].
    - (* DocStringSeparator *)
      rewrite <- Sp. destruct (ms_sep m) as [sep|].
      + apply idocsep.
      + pose proof (idocsep DQ3 true) as R1. pose proof (idocsep BT3 true) as R2.
        destruct (match_docsep m t l DQ3 true) as [|ta ma|ea ta ma], (match_docsep m' t' l' DQ3 true) as [|tb mb|eb tb mb]; try contradiction; auto.
    - (* TableRow *) rewrite sw_same. destruct (line_startswith l' [PIPE]); [|exact I].
      apply iyes; [exact Hm | reflexivity | apply table_cells_ce, Htr].
    - (* Language *)
      cbn [get_line_text]. rewrite Htr. destruct (language_header (l_trimmed l')) as [name|]; [|exact I].
      assert (Te : tce (set_matched m t KLanguage (Some name) None None None []) = tce (set_matched m' t' KLanguage (Some name) None None None []))
        by (apply sm_ce; [exact Hline | reflexivity | reflexivity | exact N]).
      rewrite <- D, <- Sp.
      destruct (find_dialect dialects name) as [d|].
      + cbn [mouti_rel]. split; [repeat split; cbn; auto|]. split; [exact Te | split; reflexivity].
      + cbn [mouti_rel]. split; [|split; [exact Hm | split; [exact Te | split; reflexivity]]].
        rewrite !ce_err_pe. unfold set_matched, ce_loc. cbn [tk_loc loc_line]. now rewrite Hline.
    - (* Other *)
      rewrite Bk. assert (U : unescape_docstring m (get_line_text l' (Some (ms_indent m'))) = unescape_docstring m' (get_line_text l' (Some (ms_indent m'))))
        by (unfold unescape_docstring; now rewrite Sp).
      rewrite U. apply iyes; [exact Hm | reflexivity | reflexivity].
  Qed.
End MatcherI.

(* the unexpected-token error of twins: the same up to the column *)
Lemma unexpected_ce t t' exp : twi t t' -> ce_err (unexpected t exp) = ce_err (unexpected t' exp).
Proof.
  intros [He Hl]. pose proof (tce_line t t' He) as L. unfold unexpected, token_value.
  destruct (tk_line t) as [l|], (tk_line t') as [l'|]; cbn [LRi] in Hl; try contradiction.
  - destruct Hl as [Htr Hno]. cbn [get_line_text]. rewrite Htr, !ce_err_pe. f_equal.
    destruct (loc_col (tk_loc t)) as [[|c]|], (loc_col (tk_loc t')) as [[|c']|]; unfold ce_loc; cbn [loc_line]; now rewrite L.
  - rewrite !ce_err_pe. unfold ce_loc. now rewrite L.
Qed.
