(* C15: the id counter enters the AST builder only as an offset.  Running any builder operation on a state
   whose ids (and counter) are shifted by k gives the shifted result; with the relational parametricity of
   the interpreter (ParamGlue) the same holds for whole parses. *)
From Coq Require Import String List Bool Arith NArith Lia.
Import ListNotations.
Require Import Kinds PyStr Line Matcher Ast Builder.

Section Shift.
  Variable k : nat.

  Definition sh_tag (t : tag) : tag := mk_tag (tg_id t + k) (tg_loc t) (tg_name t).
  Definition sh_row (r : row) : row := mk_row (r_id r + k) (r_loc r) (r_cells r).
  Definition sh_arg (a : steparg) : steparg :=
    match a with ArgTable l rows => ArgTable l (map sh_row rows) | _ => a end.
  Definition sh_step (s : step) : step :=
    mk_step (st_id s + k) (st_loc s) (st_keyword s) (st_ktype s) (st_text s) (sh_arg (st_arg s)).
  Definition sh_bg (b : background) : background :=
    mk_background (bg_id b + k) (bg_loc b) (bg_keyword b) (bg_name b) (bg_desc b) (map sh_step (bg_steps b)).
  Definition sh_ex (e : examples) : examples :=
    mk_examples (ex_id e + k) (map sh_tag (ex_tags e)) (ex_loc e) (ex_keyword e) (ex_name e) (ex_desc e)
                (option_map sh_row (ex_header e)) (map sh_row (ex_body e)).
  Definition sh_sc (s : scenario) : scenario :=
    mk_scenario (sc_id s + k) (map sh_tag (sc_tags s)) (sc_loc s) (sc_keyword s) (sc_name s) (sc_desc s)
                (map sh_step (sc_steps s)) (map sh_ex (sc_examples s)).
  Definition sh_rchild (c : rchild) : rchild :=
    match c with RCBackground b => RCBackground (sh_bg b) | RCScenario s => RCScenario (sh_sc s) end.
  Definition sh_rule (r : grule) : grule :=
    mk_grule (ru_id r + k) (map sh_tag (ru_tags r)) (ru_loc r) (ru_keyword r) (ru_name r) (ru_desc r)
             (map sh_rchild (ru_children r)).
  Definition sh_fchild (c : fchild) : fchild :=
    match c with FCBackground b => FCBackground (sh_bg b) | FCScenario s => FCScenario (sh_sc s) | FCRule r => FCRule (sh_rule r) end.
  Definition sh_feature (f : feature) : feature :=
    mk_feature (map sh_tag (f_tags f)) (f_loc f) (f_language f) (f_keyword f) (f_name f) (f_desc f) (map sh_fchild (f_children f)).
  Definition sh_doc (d : document) : document := mk_document (option_map sh_feature (doc_feature d)) (doc_comments d).

  Fixpoint vshift (v : value) : value :=
    match v with
    | VNode n => VNode (nshift n)
    | VStep s => VStep (sh_step s)
    | VDataTable l rows => VDataTable l (map sh_row rows)
    | VBackground b => VBackground (sh_bg b)
    | VScenario s => VScenario (sh_sc s)
    | VExamples e => VExamples (sh_ex e)
    | VRows rs => VRows (map sh_row rs)
    | VRule r => VRule (sh_rule r)
    | VFeature f => VFeature (sh_feature f)
    | VDocument d => VDocument (sh_doc d)
    | _ => v
    end
  with nshift (n : node) : node :=
    match n with
    | Node rt items => Node rt ((fix go (l : list (key * value)) : list (key * value) :=
                                   match l with [] => [] | (q, v) :: r => (q, vshift v) :: go r end) items)
    end.
  Definition ishift (l : list (key * value)) : list (key * value) := map (fun kv => (fst kv, vshift (snd kv))) l.
  Lemma nshift_eq rt items : nshift (Node rt items) = Node rt (ishift items).
  Proof. cbn [nshift]. f_equal. induction items as [|[q v] r IH]; cbn; [reflexivity|]. now rewrite IH. Qed.

  Definition bshift (b : bstate) : bstate := mk_bstate (map nshift (b_stack b)) (b_comments b) (b_idc b + k).

  Lemma node_rt_shift n : node_rt (nshift n) = node_rt n.
  Proof. destruct n. rewrite nshift_eq. reflexivity. Qed.
  Lemma node_items_shift n : node_items (nshift n) = ishift (node_items n).
  Proof. destruct n. rewrite nshift_eq. reflexivity. Qed.
  Lemma node_add_shift n q v : nshift (node_add n q v) = node_add (nshift n) q (vshift v).
  Proof. destruct n. cbn [node_add]. rewrite !nshift_eq. cbn [node_add]. unfold ishift. rewrite map_app. reflexivity. Qed.

  Lemma get_items_shift n q : get_items (nshift n) q = map vshift (get_items n q).
  Proof.
    unfold get_items. rewrite node_items_shift. unfold ishift. induction (node_items n) as [|[k0 v] r IH]; cbn [map filter fst snd]; [reflexivity|].
    destruct (key_beq k0 q); cbn [map fst snd]; now rewrite IH.
  Qed.
  Lemma get_single_shift n q : get_single (nshift n) q = option_map vshift (get_single n q).
  Proof. unfold get_single. rewrite get_items_shift. destruct (get_items n q); reflexivity. Qed.

  Lemma toks_of_shift vs : toks_of (map vshift vs) = toks_of vs.
  Proof. induction vs as [|v r IH]; cbn; [reflexivity|]. destruct v; cbn; try reflexivity. now rewrite IH. Qed.
  Lemma get_tokens_shift n q : get_tokens (nshift n) q = get_tokens n q.
  Proof. unfold get_tokens. rewrite get_items_shift. apply toks_of_shift. Qed.
  Lemma get_token_shift n q : get_token (nshift n) q = get_token n q.
  Proof. unfold get_token. rewrite get_single_shift. destruct (get_single n (KT q)) as [v|]; [destruct v|]; reflexivity. Qed.
  Lemma get_description_shift n : get_description (nshift n) = get_description n.
  Proof. unfold get_description. rewrite get_single_shift. destruct (get_single n (KR RDescription)) as [v|]; [destruct v|]; reflexivity. Qed.

  Lemma steps_of_shift vs : steps_of (map vshift vs) = option_map (map sh_step) (steps_of vs).
  Proof. induction vs as [|v r IH]; cbn; [reflexivity|]. destruct v; cbn; try reflexivity. rewrite IH. destruct (steps_of r); reflexivity. Qed.
  Lemma scenarios_of_shift vs : scenarios_of (map vshift vs) = option_map (map sh_sc) (scenarios_of vs).
  Proof. induction vs as [|v r IH]; cbn; [reflexivity|]. destruct v; cbn; try reflexivity. rewrite IH. destruct (scenarios_of r); reflexivity. Qed.
  Lemma examples_of_shift vs : examples_of (map vshift vs) = option_map (map sh_ex) (examples_of vs).
  Proof. induction vs as [|v r IH]; cbn; [reflexivity|]. destruct v; cbn; try reflexivity. rewrite IH. destruct (examples_of r); reflexivity. Qed.
  Lemma rules_of_shift vs : rules_of (map vshift vs) = option_map (map (option_map sh_rule)) (rules_of vs).
  Proof. induction vs as [|v r IH]; cbn; [reflexivity|]. destruct v; cbn; try reflexivity; rewrite IH; destruct (rules_of r); reflexivity. Qed.
  Lemma get_steps_shift n : get_steps (nshift n) = option_map (map sh_step) (get_steps n).
  Proof. unfold get_steps. rewrite get_items_shift. apply steps_of_shift. Qed.

  Lemma tags_of_items_shift t its : forall i, tags_of_items t its (i + k) = (map sh_tag (fst (tags_of_items t its i)), snd (tags_of_items t its i) + k).
  Proof.
    induction its as [|[c x] r IH]; intros i; cbn; [reflexivity|].
    change (S (i + k)) with (S i + k). rewrite IH. destruct (tags_of_items t r (S i)) as [tl j]. reflexivity.
  Qed.
  Lemma tags_of_tokens_shift ts : forall i, tags_of_tokens ts (i + k) = (map sh_tag (fst (tags_of_tokens ts i)), snd (tags_of_tokens ts i) + k).
  Proof.
    induction ts as [|t r IH]; intros i; cbn [tags_of_tokens]; [reflexivity|].
    rewrite tags_of_items_shift. destruct (tags_of_items t (m_items t) i) as [a i1]. cbn [fst snd].
    rewrite IH. destruct (tags_of_tokens r i1) as [b i2]. cbn [fst snd]. now rewrite map_app.
  Qed.
  Lemma rows_of_tokens_shift ts : forall i, rows_of_tokens ts (i + k) = (map sh_row (fst (rows_of_tokens ts i)), snd (rows_of_tokens ts i) + k).
  Proof.
    induction ts as [|t r IH]; intros i; cbn [rows_of_tokens]; [reflexivity|].
    change (S (i + k)) with (S i + k). rewrite IH. destruct (rows_of_tokens r (S i)) as [rs j]. reflexivity.
  Qed.

  Definition tsh {A} (f : A -> A) (r : tres A) : tres A :=
    match r with TOk a i => TOk (f a) (i + k) | TRaise e i => TRaise e (i + k) | TCrash => TCrash end.

  Lemma get_tags_shift n i : get_tags (nshift n) (i + k) = tsh (map sh_tag) (get_tags n i).
  Proof.
    unfold get_tags. rewrite get_single_shift. destruct (get_single n (KR RTags)) as [v|]; [destruct v|]; try reflexivity.
    cbn [option_map vshift]. rewrite get_tokens_shift. destruct (get_tokens n0 KTagLine); [|reflexivity].
    rewrite tags_of_tokens_shift. destruct (tags_of_tokens l i). reflexivity.
  Qed.
  Lemma find_sh_row f l : (forall x, f (sh_row x) = f x) -> find f (map sh_row l) = option_map sh_row (find f l).
  Proof. intros H. induction l as [|x xs IH]; [reflexivity|]. cbn [map find]. rewrite H. destruct (f x); [reflexivity | exact IH]. Qed.
  Lemma first_ragged_shift rows : first_ragged (map sh_row rows) = option_map sh_row (first_ragged rows).
  Proof.
    unfold first_ragged. destruct rows as [|r0 rs]; [reflexivity|]. rewrite <- find_sh_row by reflexivity. reflexivity.
  Qed.
  Lemma get_table_rows_shift n i : get_table_rows (nshift n) (i + k) = tsh (map sh_row) (get_table_rows n i).
  Proof.
    unfold get_table_rows. rewrite get_tokens_shift. destruct (get_tokens n KTableRow) as [ts|]; [|reflexivity].
    rewrite rows_of_tokens_shift. destruct (rows_of_tokens ts i) as [rows j]. cbn [fst snd].
    rewrite first_ragged_shift. destruct (first_ragged rows); reflexivity.
  Qed.

  Lemma hd_error_map {A B} (f : A -> B) l : hd_error (map f l) = option_map f (hd_error l).
  Proof. destruct l; reflexivity. Qed.
  Lemma tl_map {A B} (f : A -> B) (l : list A) : tl (map f l) = map f (tl l).
  Proof. destruct l; reflexivity. Qed.
  Lemma forallb_some_shift rls : forallb (fun r => match r with Some _ => true | None => false end) (map (option_map sh_rule) rls)
                                 = forallb (fun r : option grule => match r with Some _ => true | None => false end) rls.
  Proof. induction rls as [|[x|] r IH]; cbn; [reflexivity | exact IH | reflexivity]. Qed.
  Lemma rules_children_shift rls :
    flat_map (fun r => match r with Some x => [FCRule x] | None => [] end) (map (option_map sh_rule) rls)
    = map sh_fchild (flat_map (fun r => match r with Some x => [FCRule x] | None => [] end) rls).
  Proof. induction rls as [|[x|] r IH]; cbn; [reflexivity | now rewrite IH | exact IH]. Qed.

  Ltac shr := repeat progress rewrite ?get_token_shift, ?get_tags_shift, ?get_table_rows_shift, ?get_description_shift, ?get_steps_shift,
                ?get_single_shift, ?get_items_shift, ?get_tokens_shift, ?scenarios_of_shift, ?examples_of_shift, ?rules_of_shift, ?steps_of_shift,
                ?hd_error_map, ?tl_map, ?forallb_some_shift, ?rules_children_shift, ?map_app, ?map_map.
  Ltac plain x := lazymatch x with
                  | context [vshift] => fail
                  | context [nshift] => fail
                  | context [sh_row] => fail
                  | context [sh_step] => fail
                  | context [sh_sc] => fail
                  | context [sh_ex] => fail
                  | context [sh_rule] => fail
                  | context [sh_tag] => fail
                  | context [match _ with _ => _ end] => fail
                  | _ => idtac
                  end.
  Ltac crunch :=
    repeat (shr; cbn beta iota delta [option_map tsh vshift nshift] fix; shr;
            try reflexivity;
            match goal with
            | |- context [match ?x with _ => _ end] => plain x; destruct x
            | |- context [forallb ?f ?l] => plain l; destruct (forallb f l)
            end).

  Lemma transform_shift n c i : transform_node (nshift n) c (i + k) = tsh vshift (transform_node n c i).
  Proof.
    unfold transform_node. rewrite node_rt_shift. destruct (node_rt n) as [q|r|]; try reflexivity.
    destruct r; try reflexivity; unfold opt_crash, tbind; crunch.
    all: cbn [option_map tsh vshift]; unfold sh_feature, sh_rule;
      cbn [f_tags f_loc f_language f_keyword f_name f_desc f_children ru_id ru_tags ru_loc ru_keyword ru_name ru_desc ru_children map app];
      rewrite ?map_app, ?map_map; try reflexivity.
  Qed.
End Shift.

(* ---- the builder operations commute with the shift ---- *)
Definition bout_sh (k : nat) (o : bout) : bout :=
  match o with BoOk b => BoOk (bshift k b) | BoRaise e b => BoRaise e (bshift k b) | BoCrash => BoCrash end.

Lemma builder_start_shift k r b : builder_start r (bshift k b) = bout_sh k (builder_start r b).
Proof. reflexivity. Qed.

Lemma builder_end_shift k r b : builder_end r (bshift k b) = bout_sh k (builder_end r b).
Proof.
  unfold builder_end, bshift. cbn [b_stack b_comments b_idc]. destruct (b_stack b) as [|n stk]; [reflexivity|].
  cbn [map]. rewrite transform_shift. destruct (transform_node n (b_comments b) (b_idc b)) as [v i|e i|]; cbn [tsh bout_sh]; try reflexivity.
  destruct stk as [|cur stk']; [reflexivity|]. cbn [map bout_sh]. unfold bshift. cbn [map b_stack b_comments b_idc].
  rewrite node_add_shift, node_rt_shift. reflexivity.
Qed.

Lemma builder_build_shift k t b : builder_build t (bshift k b) = bout_sh k (builder_build t b).
Proof.
  unfold builder_build. destruct (m_type t) as [kd|]; [|reflexivity].
  assert (G : match b_stack (bshift k b) with
              | [] => BoCrash
              | cur :: stk => BoOk (mk_bstate (node_add cur (KT kd) (VTok t) :: stk) (b_comments (bshift k b)) (b_idc (bshift k b)))
              end = bout_sh k match b_stack b with
                              | [] => BoCrash
                              | cur :: stk => BoOk (mk_bstate (node_add cur (KT kd) (VTok t) :: stk) (b_comments b) (b_idc b))
                              end).
  { unfold bshift. cbn [b_stack b_comments b_idc]. destruct (b_stack b) as [|cur stk]; [reflexivity|]. cbn [map bout_sh]. unfold bshift. cbn [map b_stack b_comments b_idc].
    rewrite node_add_shift. reflexivity. }
  destruct kd; try exact G. destruct (m_text t); reflexivity.
Qed.

Lemma builder_result_shift k b : builder_result (bshift k b) = option_map (sh_doc k) (builder_result b).
Proof.
  unfold builder_result, bshift. cbn [b_stack]. destruct (b_stack b) as [|cur stk]; [reflexivity|]. cbn [map].
  rewrite get_single_shift. destruct (get_single cur (KR RGherkinDocument)) as [v|]; [destruct v|]; reflexivity.
Qed.

Lemma reset_builder_shift k b : reset_builder (bshift k b) = bshift k (reset_builder b).
Proof. reflexivity. Qed.
