(* C02 (language), the remaining link: the deterministic machine that resolves the guarded
   #TagLine tests by peeking at the coming lines accepts exactly the words the nondeterministic
   view of the table accepts -- because the look-ahead hints are exact.  Exactness is a pair of
   language facts per guarded test, each decided by a verified product-closure certificate. *)
From Coq Require Import List Bool Arith Lia.
Import ListNotations.
Require Import Kinds Automaton Stub NFA Table TableFacts.

Definition ans (test k : kind) : bool := answers test (k, 0).

(* ---- the nondeterministic view, as a union over states ---- *)
Section Union.
  Variable tbl : list st.

  Lemma insert_in n l x : In x (insert n l) <-> n = x \/ In x l.
  Proof.
    induction l as [|m l IH]; simpl; [tauto|].
    destruct (n <? m); simpl; [tauto|]. destruct (n =? m) eqn:E.
    - apply Nat.eqb_eq in E. subst. simpl. tauto.
    - simpl. rewrite IH. tauto.
  Qed.
  Lemma norm_in l x : In x (norm l) <-> In x l.
  Proof. induction l as [|n l IH]; simpl; [tauto|]. rewrite insert_in, IH. tauto. Qed.

  Lemma existsb_ext_in {A} (f : A -> bool) l1 l2 : (forall x, In x l1 <-> In x l2) -> existsb f l1 = existsb f l2.
  Proof.
    intros H. apply eq_true_iff_eq. rewrite !existsb_exists. split; intros (x & Hx & Fx); exists x; split; auto; now apply H.
  Qed.

  Lemma runN_nil u : runN tbl [] u = false.
  Proof. destruct u; reflexivity. Qed.

  Lemma runN_step S k u : runN tbl S (k :: u) = runN tbl (stepN tbl S k) u.
  Proof. simpl. destruct (stepN tbl S k) eqn:E; [now rewrite runN_nil | reflexivity]. Qed.

  Lemma runN_union u : forall S, runN tbl S u = existsb (fun s => runN tbl [s] u) S.
  Proof.
    induction u as [|k u IH]; intros S.
    - simpl. unfold is_end. induction S as [|s S IHS]; simpl; [reflexivity|]. rewrite orb_false_r. now rewrite IHS.
    - rewrite runN_step, IH. unfold stepN.
      rewrite (existsb_ext_in _ _ _ (norm_in _)).
      induction S as [|s S IHS]; [reflexivity|]. cbn [flat_map existsb]. rewrite existsb_app, IHS. f_equal.
      rewrite runN_step, IH. unfold stepN. cbn [flat_map]. rewrite app_nil_r.
      now rewrite (existsb_ext_in _ _ _ (norm_in _)).
  Qed.

  Lemma runN_single_step s k u : runN tbl [s] (k :: u) = existsb (fun s' => runN tbl [s'] u) (targets tbl s k).
  Proof.
    rewrite runN_step, runN_union. unfold stepN. cbn [flat_map]. rewrite app_nil_r.
    now rewrite (existsb_ext_in _ _ _ (norm_in _)).
  Qed.
End Union.

(* ---- the look-ahead as an automaton over the coming kinds ---- *)
Inductive pst := PScan | PYes | PNo.
Definition pst_beq (a b : pst) : bool :=
  match a, b with PScan, PScan | PYes, PYes | PNo, PNo => true | _, _ => false end.

Definition pstep (h : la) (p : pst) (k : kind) : pst :=
  match p with
  | PScan => if existsb (fun e => ans e k) (la_expected h) then PYes
             else if existsb (fun s => ans s k) (la_skip h) then PScan else PNo
  | _ => p
  end.
Fixpoint prun (h : la) (p : pst) (u : list kind) : pst :=
  match u with [] => p | k :: r => prun h (pstep h p k) r end.

(* peeking at the coming lines w (the end of file follows them) *)
Fixpoint la_peek (h : la) (w : list kind) : bool :=
  match w with
  | [] => false
  | k :: r => if existsb (fun e => ans e k) (la_expected h) then true
              else if existsb (fun s => ans s k) (la_skip h) then la_peek h r else false
  end.

Lemma prun_absorb h p u : p <> PScan -> prun h p u = p.
Proof. intros H. induction u as [|k u IH]; simpl; [reflexivity|]. destruct p; try congruence; exact IH. Qed.

(* the end of file is neither waited for nor skipped *)
Definition la_eof_free (h : la) : bool :=
  negb (existsb (fun e => ans e KEOF) (la_expected h)) && negb (existsb (fun s => ans s KEOF) (la_skip h)).

Lemma la_peek_prun h w : la_eof_free h = true -> la_peek h w = pst_beq (prun h PScan (w ++ [KEOF])) PYes.
Proof.
  intros F. apply andb_prop in F as [F1 F2]. apply negb_true_iff in F1. apply negb_true_iff in F2.
  induction w as [|k w IH]; cbn [la_peek app prun pstep].
  - rewrite F1, F2. reflexivity.
  - destruct (existsb (fun e => ans e k) (la_expected h)); [rewrite prun_absorb by discriminate; reflexivity|].
    destruct (existsb (fun s => ans s k) (la_skip h)); [exact IH | rewrite prun_absorb by discriminate; reflexivity].
Qed.

(* ---- product closure: every word accepted from S drives the look-ahead automaton from p into `good` ---- *)
Section Product.
  Variable tbl : list st.
  Variable h : la.
  Variable good : pst -> bool.

  Definition ppair := (list nat * pst)%type.
  Definition ppair_beq (a b : ppair) : bool :=
    (if list_eq_dec Nat.eq_dec (fst a) (fst b) then true else false) && pst_beq (snd a) (snd b).
  Definition ppmem (x : ppair) (R : list ppair) := existsb (ppair_beq x) R.

  Definition pclosed (R : list ppair) : bool :=
    forallb (fun x =>
      (negb (is_end tbl (fst x)) || good (snd x))
      && forallb (fun k => match stepN tbl (fst x) k with
                           | [] => true
                           | S' => ppmem (S', pstep h (snd x) k) R
                           end) all_kinds) R.

  Fixpoint pexplore (fuel : nat) (todo : list ppair) (R : list ppair) : list ppair :=
    match fuel with
    | 0 => R
    | S f =>
      match todo with
      | [] => R
      | x :: t =>
        if ppmem x R then pexplore f t R
        else pexplore f (flat_map (fun k => match stepN tbl (fst x) k with
                                            | [] => []
                                            | S' => [(S', pstep h (snd x) k)]
                                            end) all_kinds ++ t) (x :: R)
      end
    end.

  Lemma ppair_beq_eq a b : ppair_beq a b = true -> a = b.
  Proof.
    destruct a as [S p], b as [S' p']. unfold ppair_beq. simpl. intros H. apply andb_prop in H as [H1 H2].
    destruct (list_eq_dec Nat.eq_dec S S'); [|discriminate]. destruct p, p'; try discriminate; congruence.
  Qed.

  Lemma pclosed_sound R : pclosed R = true -> forall u S p, In (S, p) R -> runN tbl S u = true -> good (prun h p u) = true.
  Proof.
    intros C. unfold pclosed in C. rewrite forallb_forall in C.
    induction u as [|k u IH]; intros S p Hin Hr.
    - specialize (C _ Hin). apply andb_prop in C as [C _]. cbn [fst snd] in C. simpl in Hr. rewrite Hr in C. exact C.
    - specialize (C _ Hin). apply andb_prop in C as [_ C]. rewrite forallb_forall in C. specialize (C k (all_kinds_complete k)).
      cbn [fst snd] in C. rewrite runN_step in Hr. cbn [prun].
      destruct (stepN tbl S k) as [|n S'] eqn:E; [rewrite runN_nil in Hr; discriminate|].
      unfold ppmem in C. rewrite existsb_exists in C. destruct C as (y & Hy & By). apply ppair_beq_eq in By. subst y.
      apply (IH _ _ Hy Hr).
  Qed.
End Product.

(* ---- the deterministic machine ---- *)
Section Det.
  Variable tbl : list st.
  Variable las : list la.
  Definition flook (hn : nat) := find (fun x => Nat.eqb (la_id x) hn) las.

  Fixpoint dsel (tests : list test) (k : kind) (w' : list kind) : option nat :=
    match tests with
    | [] => None
    | y :: ys =>
      if ans (t_kind y) k then
        match t_guard y with
        | None => Some (t_tgt y)
        | Some hn => match flook hn with
                     | Some h => if la_peek h w' then Some (t_tgt y) else dsel ys k w'
                     | None => None
                     end
        end
      else dsel ys k w'
    end.

  Definition dstep (s : nat) (k : kind) (w' : list kind) : option nat :=
    match find_state tbl s with Some x => dsel (s_tests x) k w' | None => None end.

  (* w: the lines (no EOF among them); the end of file follows *)
  Fixpoint dacc (s : nat) (w : list kind) : bool :=
    match w with
    | [] => match dstep s KEOF [] with Some s' => is_end tbl [s'] | None => false end
    | k :: w' => match dstep s k w' with Some s' => dacc s' w' | None => false end
    end.

  (* exactness of the hints, as language facts about the nondeterministic view:
     for every state and every guarded test y on a kind k, with T = t_tgt y:
       E1  a word accepted from T makes y's look-ahead say yes;
       E2  a word accepted from any target the nondeterministic view offers for k after y (the later
           tests answering k, up to the first unguarded one) makes y's look-ahead not say yes. *)
  Definition exact_at (tests : list test) : Prop :=
    forall pre y post, tests = pre ++ y :: post ->
      match t_guard y with
      | None => True
      | Some hn =>
        exists h, flook hn = Some h /\ la_eof_free h = true /\
          (forall u, runN tbl [t_tgt y] u = true -> prun h PScan u = PYes) /\
          (forall k, ans (t_kind y) k = true -> forall s', In s' (targets_tests post k) ->
             forall u, runN tbl [s'] u = true -> prun h PScan u <> PYes)
      end.

  Hypothesis Hexact : forall x, In x tbl -> exact_at (s_tests x).

  Lemma dsel_runN tests k w' u : exact_at tests ->
    (forall h, la_eof_free h = true -> la_peek h w' = pst_beq (prun h PScan u) PYes) ->
    existsb (fun s' => runN tbl [s'] u) (targets_tests tests k)
    = match dsel tests k w' with Some s' => runN tbl [s'] u | None => false end.
  Proof.
    intros Ex0 Pk0. revert Ex0. induction tests as [|y ys IH]; intros Ex; [reflexivity|].
    assert (Exs : exact_at ys).
    { intros pre z post E. apply (Ex (y :: pre) z post). now rewrite E. }
    cbn [targets_tests dsel]. unfold kmatches. fold (ans (t_kind y) k).
    destruct (ans (t_kind y) k) eqn:A; [|apply IH; exact Exs].
    pose proof (Ex [] y ys eq_refl) as Ey.
    destruct (t_guard y) as [hn|]; [|cbn [existsb]; now rewrite orb_false_r].
    destruct Ey as (h & Fl & Ef & E1 & E2). rewrite Fl. cbn [existsb].
    rewrite (Pk0 h Ef).
    destruct (runN tbl [t_tgt y] u) eqn:Ry.
    - (* accepted through the guarded target: its look-ahead says yes *)
      rewrite (E1 _ Ry). cbn [pst_beq orb]. exact (eq_sym Ry).
    - cbn [orb]. destruct (pst_beq (prun h PScan u) PYes) eqn:Pk.
      + (* the look-ahead says yes: no later alternative accepts *)
        rewrite Ry. apply not_true_is_false. intros X. rewrite existsb_exists in X. destruct X as (s' & Hs' & Rs').
        apply (E2 k A s' Hs' _ Rs'). destruct (prun h PScan u); try discriminate. reflexivity.
      + apply IH. exact Exs.
  Qed.

  Theorem dacc_runN : forall w s, dacc s w = runN tbl [s] (w ++ [KEOF]).
  Proof.
    induction w as [|k w IH]; intros s; cbn [dacc app]; rewrite runN_single_step; unfold dstep, targets;
      change (find_state tbl s) with (NFA.find_state tbl s);
      (destruct (NFA.find_state tbl s) as [x|] eqn:F; [|reflexivity]);
      assert (Hx : In x tbl) by (unfold NFA.find_state in F; apply find_some in F; tauto).
    - rewrite (dsel_runN (s_tests x) KEOF [] [] (Hexact x Hx)); [|intros h _; reflexivity].
      destruct (dsel (s_tests x) KEOF []); reflexivity.
    - rewrite (dsel_runN (s_tests x) k w (w ++ [KEOF]) (Hexact x Hx)); [|intros h Ef; apply la_peek_prun; exact Ef].
      destruct (dsel (s_tests x) k w) as [s'|]; [apply IH | reflexivity].
  Qed.
End Det.
(* ---- exactness certificates ---- *)
Section Cert.
  Variable tbl : list st.
  Variable las : list la.
  Variable fuel : nat.

  Definition cert1 (T : nat) (h : la) (good : pst -> bool) : bool :=
    let R := pexplore tbl h fuel [([T], PScan)] [] in
    ppmem ([T], PScan) R && pclosed tbl h good R.

  Lemma cert1_sound T h good : cert1 T h good = true -> forall u, runN tbl [T] u = true -> good (prun h PScan u) = true.
  Proof.
    unfold cert1. generalize (pexplore tbl h fuel [([T], PScan)] []). intros R C u Hr. apply andb_prop in C as [M C].
    unfold ppmem in M. rewrite existsb_exists in M. destruct M as (y & Hy & By). apply ppair_beq_eq in By. subst y.
    exact (pclosed_sound tbl h good R C u [T] PScan Hy Hr).
  Qed.

  Fixpoint exact_tests (tests : list test) : bool :=
    match tests with
    | [] => true
    | y :: post =>
      match t_guard y with
      | None => true
      | Some hn =>
        match flook las hn with
        | None => false
        | Some h =>
          la_eof_free h && cert1 (t_tgt y) h (fun p => pst_beq p PYes)
          && forallb (fun k => negb (ans (t_kind y) k)
                               || forallb (fun s' => cert1 s' h (fun p => negb (pst_beq p PYes))) (targets_tests post k)) all_kinds
        end
      end && exact_tests post
    end.

  Lemma exact_tests_sound tests : exact_tests tests = true -> exact_at tbl las tests.
  Proof.
    induction tests as [|y0 ys IH]; intros C pre y post E; [destruct pre; discriminate|].
    cbn [exact_tests] in C. apply andb_prop in C as [C0 Cs].
    destruct pre as [|p pre]; cbn [app] in E; inversion E; subst.
    - destruct (t_guard y) as [hn|]; [|exact I].
      destruct (flook las hn) as [h|]; [|discriminate]. apply andb_prop in C0 as [C0 C2]. apply andb_prop in C0 as [Ce C1].
      exists h. split; [reflexivity|]. split; [exact Ce|]. split.
      + intros u Hr. pose proof (cert1_sound _ _ _ C1 u Hr) as G. destruct (prun h PScan u); try discriminate; reflexivity.
      + intros k A1 s' Hs' u Hr. rewrite forallb_forall in C2. specialize (C2 k (all_kinds_complete k)).
        rewrite A1 in C2. cbn [negb orb] in C2. rewrite forallb_forall in C2. specialize (C2 s' Hs').
        pose proof (cert1_sound _ _ _ C2 u Hr) as G. intros X. rewrite X in G. discriminate.
    - apply (IH Cs pre y post eq_refl).
  Qed.
End Cert.

Definition cert_fuel := 60 * 50.
Lemma table_exact : forallb (fun x => exact_tests Table.table Table.lookaheads cert_fuel (s_tests x)) Table.table = true.
Proof. vm_compute. reflexivity. Qed.

Theorem det_language : forall w, dacc Table.table Table.lookaheads Table.start_state w = runN Table.table [Table.start_state] (w ++ [KEOF]).
Proof.
  intros w. apply dacc_runN. intros x Hx. apply (exact_tests_sound Table.table Table.lookaheads cert_fuel).
  pose proof table_exact as T. rewrite forallb_forall in T. exact (T x Hx).
Qed.
