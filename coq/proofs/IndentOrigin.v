(* C16, indentation: a sufficient condition for IndentParse.indent_safe that is read off the text and off what the
   run builds: comment lines keep their text, doc-string delimiter lines keep their indentation, and no line whose
   text changed is handed to the builder as free text (kind Other).  (The flag version, C16_indentation, also covers a
   doc string that moves as one block.)  Instance of FlagOrigin for the paired run IA. *)
From Param Require Import Param.
From Coq Require Import String List Bool Arith NArith Lia.
Import ListNotations.
Require Import Kinds Automaton AutoFacts PyStr Line Matcher MatcherFacts Ast Builder Pipeline PipelineFacts Table Dialects
               BuilderErase ColErase ParamGlue Delivery LineEndings AgreeUpTo StopIndep IndentTail BlankParse IndentParse FlagOrigin BlankOrigin.

Definition ichg (x : itok) : bool :=
  match tk_line (fst x), tk_line (snd x) with
  | Some l, Some l' => negb (str_eqb (l_text l) (l_text l'))
  | _, _ => false
  end.
(* static: same text after the indentation; a comment line keeps its text; a line that begins with a doc-string
   delimiter keeps its indentation *)
Definition isok (x : itok) : Prop :=
  match tk_line (fst x), tk_line (snd x) with
  | Some l, Some l' =>
    l_trimmed l = l_trimmed l'
    /\ (line_startswith l [HASH] = true -> l_text l = l_text l')
    /\ (line_startswith l DQ3 = true \/ line_startswith l BT3 = true -> l_indent l = l_indent l')
    /\ (l_text l = l_text l' -> l = l')
  | None, None => True
  | _, _ => False
  end.
Definition imq (s : ims) : Prop := msim (im1 s) (im2 s) /\ ms_indent (im1 s) = ms_indent (im2 s).

Lemma rtok_imatchA k s x : rtok (imatchA k s x) = (mtok (p_matchf k (im1 s) (fst x)), mtok (p_matchf k (im2 s) (snd x))).
Proof. unfold imatchA. destruct (p_matchf k (im1 s) (fst x)); reflexivity. Qed.
Lemma ms_imatchA k s x : mres_ms (imatchA k s x) =
  (mres_ms (p_matchf k (im1 s) (fst x)), mres_ms (p_matchf k (im2 s) (snd x)), iflag s || iunblind k (im1 s) (im2 s) (fst x) (snd x)).
Proof. unfold imatchA. rewrite ims_map. reflexivity. Qed.

(* the matcher states after a question about two lines with the same text after their indentation *)
Lemma matcher_state_indent k m m' t t' l l' : tk_line t = Some l -> tk_line t' = Some l' -> l_trimmed l = l_trimmed l' ->
  msim m m' -> ms_indent m = ms_indent m' ->
  (line_startswith l DQ3 = true \/ line_startswith l BT3 = true -> l_indent l = l_indent l') ->
  msim (mres_ms (p_matchf k m t)) (mres_ms (p_matchf k m' t')) /\ ms_indent (mres_ms (p_matchf k m t)) = ms_indent (mres_ms (p_matchf k m' t')).
Proof.
  intros L L' Htr Hm Hi Hd. pose proof Hm as (D & N & Di & Sp).
  assert (SW : forall p, line_startswith l' p = line_startswith l p) by (intros p; unfold line_startswith; now rewrite Htr).
  assert (E1 : line_is_empty l' = line_is_empty l) by (unfold line_is_empty; now rewrite Htr).
  assert (E2 : forall ks, first_title_keyword l' ks = first_title_keyword l ks).
  { induction ks as [|q ks IH]; cbn [first_title_keyword]; [reflexivity|]. unfold startswith_title_keyword. now rewrite Htr, IH. }
  assert (E3 : forall ks, first_prefix l' ks = first_prefix l ks).
  { induction ks as [|q ks IH]; cbn [first_prefix]; [reflexivity|]. now rewrite SW, IH. }
  pose proof (line_tags_ce l l' Htr) as Tg.
  unfold p_matchf, matcher. rewrite L, L'. rewrite <- Di, <- Sp, <- D.
  destruct k; unfold match_title_line, match_docsep; cbn [get_line_text]; rewrite ?SW, ?E1, ?E2, ?E3, <- ?Htr;
    repeat match goal with
           | |- context [if line_is_empty ?x then _ else _] => destruct (line_is_empty x)
           | |- context [if line_startswith ?x ?p then _ else _] => destruct (line_startswith x p) eqn:?
           | |- context [match first_title_keyword ?x ?ks with _ => _ end] => destruct (first_title_keyword x ks)
           | |- context [match first_prefix ?x ?ks with _ => _ end] => destruct (first_prefix x ks)
           | |- context [match language_header ?z with _ => _ end] => destruct (language_header z)
           | |- context [match find_dialect ?ds ?n with _ => _ end] => destruct (find_dialect ds n)
           | |- context [match ms_sep ?z with _ => _ end] => destruct (ms_sep z) eqn:?
           end; cbn [mres_ms]; try (split; [exact Hm | exact Hi]; fail);
    try (destruct (line_tags l), (line_tags l'); try contradiction; cbn [mres_ms]; (split; [exact Hm | exact Hi])).
  all: unfold msim; cbn [ms_default ms_name ms_dialect ms_sep ms_indent mres_ms]; repeat split; auto.
  all: try (apply Hd; auto; fail).
  all: try (repeat match goal with H : line_startswith _ _ = _ |- _ => rewrite SW in H end; congruence).
Qed.

Lemma p_matchf_state_eof k m t : tk_line t = None -> mres_ms (p_matchf k m t) = m.
Proof. intros L. unfold p_matchf, matcher. rewrite L. destruct k; reflexivity. Qed.

Lemma IA_q_m k s x : imq s -> isok x -> isok (rtok (imatchA k s x)) /\ imq (mres_ms (imatchA k s x)).
Proof.
  intros [Hm Hi] S. split.
  - rewrite rtok_imatchA. unfold isok in *. cbn [fst snd]. rewrite !p_matchf_line. exact S.
  - rewrite ms_imatchA. unfold imq, im1, im2 in *. cbn [fst snd]. unfold isok in S.
    destruct (tk_line (fst x)) as [l|] eqn:L, (tk_line (snd x)) as [l'|] eqn:L'; try contradiction.
    + destruct S as (Str & _ & Sd & _). exact (matcher_state_indent k _ _ (fst x) (snd x) l l' L L' Str Hm Hi Sd).
    + rewrite !p_matchf_state_eof by assumption. split; assumption.
Qed.
Lemma IA_chg k s x : ichg (rtok (imatchA k s x)) = ichg x.
Proof. rewrite rtok_imatchA. unfold ichg. cbn [fst snd]. rewrite !p_matchf_line. reflexivity. Qed.

Lemma skipn_same_text (a b : str) i : a = b -> skipn i a = skipn i b.
Proof. now intros ->. Qed.

Lemma IA_flag k s x : imq s -> isok x -> iflag s = false -> iflag (mres_ms (imatchA k s x)) = true ->
  k = KOther /\ ichg x = true /\ exists t' m', imatchA k s x = MR true t' m'.
Proof.
  intros [Hm Hi] S F0 F1. rewrite ms_imatchA in F1. unfold iflag in F1 at 1. cbn [snd] in F1. rewrite F0 in F1. cbn [orb] in F1.
  unfold iunblind in F1. unfold isok, ichg in *. unfold im1, im2 in *.
  destruct (tk_line (fst x)) as [l|] eqn:L, (tk_line (snd x)) as [l'|] eqn:L'; try discriminate F1; try contradiction.
  destruct S as (Str & Sh & Sd & Se). destruct k; try discriminate F1.
  - (* Comment *) apply andb_prop in F1 as [H1 H2]. rewrite (Sh H1), str_eqb_refl in H2. discriminate H2.
  - (* Other *) split; [reflexivity|]. split.
    + destruct (str_eqb (l_text l) (l_text l')) eqn:E; [|reflexivity]. exfalso. apply str_eqb_eq in E.
      apply negb_true_iff in F1. rewrite <- (Se E), <- Hi, str_eqb_refl in F1. discriminate F1.
    + assert (E : exists t1 m1, p_matchf KOther (fst (fst s)) (fst x) = MR true t1 m1).
      { unfold p_matchf, matcher. rewrite L. eexists; eexists; reflexivity. }
      destruct E as (t1 & m1 & E). unfold imatchA, im1. rewrite E. cbn [imap]. eexists; eexists; reflexivity.
Qed.

(* a token whose text changed was handed to the builder as free text *)
Definition ibuilt_changed_other {A} (r : res itok ims bstate perror A) : Prop :=
  match r with
  | Ok _ c | Raise1 _ c | RaiseC _ c | Crash c => exists x, In (EvB x KOther) (log c) /\ ichg x = true
  | OutOfFuel => True
  end.

Theorem indent_safe_of_built xs m b : Forall isok xs -> ~ ibuilt_changed_other (ipaired_run xs m b) -> indent_safe xs m b.
Proof.
  intros S N. unfold indent_safe, ipaired_run in *.
  pose proof (parse_flag_origin IA iflag ichg isok imq (fun n => I) IA_q_m IA_chg IA_flag A_other A_start A_la A_guard true xs
                (reset_matcher dialects m, reset_matcher dialects m, false) (reset_builder b) S (conj (msim_refl _) eq_refl) eq_refl) as G.
  destruct (parse IA true xs (reset_matcher dialects m, reset_matcher dialects m, false) (reset_builder b)) as [a c|e c|es c|c|];
    cbn [good ibuilt_changed_other] in *;
    try (destruct (iflag (ms c)) eqn:F; [exfalso; apply N; exact (G eq_refl) | reflexivity]).
  apply N. exact I.
Qed.

(* ---- lines ---- *)
Definition istatic (a b : str) : Prop :=
  lstrip a = lstrip b
  /\ (starts_with [HASH] (lstrip a) = true -> a = b)
  /\ (starts_with DQ3 (lstrip a) = true \/ starts_with BT3 (lstrip a) = true -> length a - length (lstrip a) = length b - length (lstrip b)).
Lemma ipair_lines_isok : forall ls ls', Forall2 istatic ls ls' -> forall n, Forall isok (ipair_lines ls ls' n).
Proof.
  induction 1 as [|a b ls ls' R H IH]; intros n; cbn [ipair_lines]; constructor; [|apply IH].
  destruct R as (R1 & R2 & R3). unfold isok. cbn [fst snd raw_token tk_line make_line l_trimmed l_text l_indent line_startswith].
  repeat split; auto. intros E. now rewrite E.
Qed.
Lemma istatic_same a b : istatic a b -> same_text a b. Proof. intros H. apply H. Qed.

Theorem indentation_built m b src src' :
  Forall2 istatic (py_lines src) (py_lines src') ->
  ~ ibuilt_changed_other (ipaired_run (ipair_lines (py_lines src) (py_lines src') 1) m b) ->
  psimc (parse_source true m b src) (parse_source true m b src').
Proof.
  intros S N. apply indentation_neutral.
  - clear N. induction S as [|a b0 ls ls' H S IH]; constructor; [exact (istatic_same a b0 H) | exact IH].
  - apply indent_safe_of_built; [apply ipair_lines_isok, S | exact N].
Qed.

(* boolean versions, for examples *)
Definition istaticb (a b : str) : bool :=
  str_eqb (lstrip a) (lstrip b)
  && (negb (starts_with [HASH] (lstrip a)) || str_eqb a b)
  && (negb (starts_with DQ3 (lstrip a) || starts_with BT3 (lstrip a)) || Nat.eqb (length a - length (lstrip a)) (length b - length (lstrip b))).
Lemma istaticb_ok a b : istaticb a b = true -> istatic a b.
Proof.
  unfold istaticb. intros H. apply andb_prop in H as [H H3]. apply andb_prop in H as [H1 H2]. apply str_eqb_eq in H1.
  split; [exact H1|]. split.
  - intros Hh. rewrite Hh in H2. cbn in H2. now apply str_eqb_eq.
  - intros Hd. apply orb_prop in H3 as [H3|H3]; [|now apply Nat.eqb_eq]. apply negb_true_iff in H3.
    destruct Hd as [Hd|Hd]; rewrite Hd in H3; cbn in H3; [discriminate H3 | rewrite orb_true_r in H3; discriminate H3].
Qed.
Definition iev_changed_other (e : ev itok) : bool := match e with EvB x KOther => ichg x | _ => false end.
Definition ino_changed_other {A} (r : res itok ims bstate perror A) : bool :=
  match r with
  | Ok _ c | Raise1 _ c | RaiseC _ c | Crash c => negb (existsb iev_changed_other (log c))
  | OutOfFuel => false
  end.
Lemma ino_changed_other_ok {A} (r : res itok ims bstate perror A) : ino_changed_other r = true -> ~ ibuilt_changed_other r.
Proof.
  destruct r as [a c|e c|es c|c|]; cbn [ino_changed_other ibuilt_changed_other]; try discriminate;
    intros H (x & I & C); apply negb_true_iff in H;
    (assert (X : existsb iev_changed_other (log c) = true) by (apply existsb_exists; exists (EvB x KOther); split; [exact I | exact C]));
    rewrite X in H; discriminate H.
Qed.
