(* The generic ordered-children argument behind C11 (ids) and C03 (elements): if the content-bearing items
   of every open node arrive in the order of the node's pattern, then the content of the builder's stack,
   read bottom-up in insertion order, only ever grows at its end -- by the content of each token built and by
   whatever a finished node adds of its own (`fresh`). *)
From Coq Require Import List Bool Arith Lia.
Import ListNotations.
Require Import Kinds PyStr Line Matcher Ast Builder BuilderSafe DenseDefs DenseFacts DenseStack OrdDefs.

Section OrdFacts.
  Context {X : Type}.
  Variable ic : key * value -> list X.            (* content of an item *)
  Variable pat : rule -> list (key * bool).
  Variable rfree : rule -> bool.
  Variable tfree : kind -> bool.
  Variable xr : rule -> list (key * key).
  Variable fo : rule -> list key.
  Variable fresh : nat -> nat -> list X.          (* content a finished node adds of its own: counter before, after *)

  Definition ciids (items : list (key * value)) : list X := flat_map ic items.
  Definition cgrp (items : list (key * value)) (k : key) : list X := flat_map ic (kfilter k items).
  Fixpoint cgroups (p : list (key * bool)) (items : list (key * value)) : list X :=
    match p with [] => [] | (k, _) :: r => cgrp items k ++ cgroups r items end.

  Lemma cgrp_snoc items k k' v : cgrp (items ++ [(k', v)]) k = cgrp items k ++ (if key_beq k' k then ic (k', v) else []).
  Proof.
    unfold cgrp. rewrite kfilter_app, flat_map_app. f_equal. cbn. destruct (key_beq k' k); cbn; [now rewrite app_nil_r | reflexivity].
  Qed.
  Lemma ciids_snoc items k v : ciids (items ++ [(k, v)]) = ciids items ++ ic (k, v).
  Proof. unfold ciids. rewrite flat_map_app. cbn. now rewrite app_nil_r. Qed.

  Lemma cgroups_snoc_notin p items k v : pindex p k = None -> cgroups p (items ++ [(k, v)]) = cgroups p items.
  Proof.
    induction p as [|[k0 m0] r IH]; intros H; cbn [cgroups]; [reflexivity|]. cbn [pindex] in H.
    destruct (key_beq k0 k) eqn:E; [discriminate|]. destruct (pindex r k) as [[j m]|] eqn:Pr; [discriminate|].
    rewrite cgrp_snoc, key_beq_sym, E, app_nil_r, (IH eq_refl). reflexivity.
  Qed.
  Lemma cgroups_empty p items : (forall k pos many, pindex p k = Some (pos, many) -> kfilter k items = []) -> cgroups p items = [].
  Proof.
    induction p as [|[k0 m0] r IH]; intros H; cbn [cgroups]; [reflexivity|].
    assert (E0 : kfilter k0 items = []).
    { apply (H k0 0 m0). cbn. now rewrite key_beq_refl. }
    unfold cgrp at 1. rewrite E0. cbn. apply IH. intros k pos many Hp.
    destruct (key_beq k0 k) eqn:E; [apply key_beq_eq in E; subst; exact E0|].
    apply (H k (S pos) many). cbn. rewrite E, Hp. reflexivity.
  Qed.
  Lemma cgroups_snoc_in p : pnodup p = true -> forall items k v pos many, pindex p k = Some (pos, many) ->
    (forall k' pos' m', pindex p k' = Some (pos', m') -> pos < pos' -> kfilter k' items = []) ->
    cgroups p (items ++ [(k, v)]) = cgroups p items ++ ic (k, v).
  Proof.
    induction p as [|[k0 m0] r IH]; intros N items k v pos many Hp He; [discriminate|]. cbn [cgroups]. cbn [pindex] in Hp.
    cbn [pnodup] in N. destruct (pindex r k0) eqn:N0; [discriminate|].
    rewrite cgrp_snoc, (key_beq_sym k k0).
    destruct (key_beq k0 k) eqn:E.
    - inversion Hp; subst pos many. apply key_beq_eq in E. subst k0.
      rewrite (cgroups_snoc_notin r items k v N0).
      assert (Er : cgroups r items = []).
      { apply cgroups_empty. intros k' pos' m' Hp'.
        destruct (key_beq k k') eqn:E'; [apply key_beq_eq in E'; subst k'; congruence|].
        apply (He k' (S pos') m'); [cbn; rewrite E', Hp'; reflexivity | lia]. }
      rewrite Er, !app_nil_r. reflexivity.
    - destruct (pindex r k) as [[j m]|] eqn:Pr; [|discriminate]. inversion Hp; subst pos many.
      rewrite app_nil_r, (IH N items k v j m Pr); [now rewrite app_assoc|].
      intros k' pos' m' Hp' L.
      destruct (key_beq k0 k') eqn:E'; [apply key_beq_eq in E'; subst k'; congruence|].
      apply (He k' (S pos') m'); [cbn; rewrite E', Hp'; reflexivity | lia].
  Qed.

  Lemma single_cgrp n k v : length (kfilter k (node_items n)) <= 1 -> get_single n k = Some v -> cgrp (node_items n) k = ic (k, v).
  Proof.
    unfold get_single, get_items, cgrp. fold (kfilter k (node_items n)). intros L H.
    destruct (kfilter k (node_items n)) as [|[k0 v0] [|x r]] eqn:Fl; cbn in *; try discriminate; try lia.
    inversion H; subst v0.
    assert (In (k0, v) (kfilter k (node_items n))) by (rewrite Fl; now left).
    apply filter_In in H0 as [_ Hk]. cbn in Hk. apply key_beq_eq in Hk. subst k0. now rewrite app_nil_r.
  Qed.
  Lemma none_cgrp n k : get_single n k = None -> cgrp (node_items n) k = [].
  Proof. intros H. unfold cgrp. rewrite (none_kfilter _ _ H). reflexivity. Qed.

  (* ---- the concrete meaning of an abstract frame ---- *)
  Definition cflat (r : rule) (m : node) : Prop :=
    ciids (node_items m) = cgroups (pat r) (node_items m)
    /\ (forall k pos, pindex (pat r) k = Some (pos, false) -> length (kfilter k (node_items m)) <= 1).

  Definition citem_ok (kv : key * value) : Prop :=
    match fst kv with
    | KT _ => exists t, snd kv = VTok t
    | KR x => match snd kv with
              | VNode m => node_rt m = KR x /\ cflat x m
                           /\ (forall x' m', In (KR x', VNode m') (node_items m) -> cflat x' m')
                           /\ match hdr_line x with Some k => has_line m k | None => True end
              | _ => True
              end
    | KNone => True
    end.

  (* of a first-only key, only the first item carries content *)
  Definition fo_inv (items : list (key * value)) (k : key) : Prop :=
    match kfilter k items with [] => True | _ :: rest => flat_map ic rest = [] end.

  Definition ccore (r : rule) (st : pstate) (n : node) : Prop :=
    node_rt n = KR r
    /\ ciids (node_items n) = cgroups (pat r) (node_items n)
    /\ seg_ok (pat r) st (node_items n)
    /\ Forall citem_ok (node_items n)
    /\ Forall (fun pr => kfilter (fst pr) (node_items n) = [] \/ kfilter (snd pr) (node_items n) = []) (xr r)
    /\ Forall (fo_inv (node_items n)) (fo r).
  Definition cnrel (af : aframe) (n : node) : Prop :=
    ccore (af_rule af) (af_st af) n
    /\ (af_line af = true -> match hdr_line (af_rule af) with Some k => has_line n k | None => True end)
    /\ (af_hdr af = true -> match hdr_of (af_rule af) with Some h => kfilter (KR h) (node_items n) <> [] | None => True end).

  Lemma cnrel_flat af n : cnrel af n -> cflat (af_rule af) n.
  Proof.
    intros ((_ & A & S & _) & _). split; [exact A|]. intros k pos Hp. apply (S k pos false Hp). reflexivity.
  Qed.

  Hypothesis Hnodup : forall r, pnodup (pat r) = true.
  Hypothesis Hxr : forall r k1 k2, In (k1, k2) (xr r) -> key_beq k1 k2 = false.
  Hypothesis Hrfree : forall r, rfree r = true -> pat r = [].
  Hypothesis Htfree : forall k t, tfree k = true -> ic (KT k, VTok t) = [].
  Hypothesis Htrans : forall af n c i v i', cnrel af n -> ready af -> transform_node n c i = TOk v i' ->
    i <= i' /\ ic (KR (af_rule af), v) = ciids (node_items n) ++ fresh i i'.
  Hypothesis Hfresh : forall af n c i v i', rfree (af_rule af) = true -> cnrel af n -> transform_node n c i = TOk v i' -> fresh i i' = [].

  (* adding an item: a pattern key advances the progress, any other key must carry nothing *)
  Lemma abs_empty_sound p st items q : seg_ok p st items -> abs_empty p st q = true -> kfilter q items = [].
  Proof.
    unfold abs_empty. intros S. destruct (pindex p q) as [[pos many]|] eqn:Px; [|discriminate]. intros H.
    apply (S q pos many Px). apply orb_prop in H as [H|H]; [left; now apply Nat.ltb_lt|].
    apply andb_prop in H as [H1 H2]. apply Nat.eqb_eq in H1. right. split; [exact H1|]. now destruct (snd st).
  Qed.

  Lemma ccore_add r st cur q v st' :
    ccore r st cur -> citem_ok (q, v) ->
    xr_ok pat xr (mk_aframe r st false false) q = true ->
    fo_ok pat fo (mk_aframe r st false false) q = true ->
    match pindex (pat r) q with
    | Some _ => pstep (pat r) st q = Some st'
    | None => ic (q, v) = [] /\ st' = st
    end ->
    ccore r st' (node_add cur q v).
  Proof.
    intros (Rt & A & S & F0 & Xo & Fi) Iv Xk Fk Hs. unfold ccore. rewrite node_rt_add', node_items_add.
    split; [exact Rt|].
    assert (Fn : Forall (fo_inv (node_items cur ++ [(q, v)])) (fo r)).
    { rewrite Forall_forall in *. intros k Hin. specialize (Fi _ Hin). unfold fo_inv in *. rewrite kfilter_snoc. cbn [fst].
      destruct (key_beq q k) eqn:E; [|now rewrite app_nil_r].
      apply key_beq_eq in E. subst k. unfold fo_ok in Fk. cbn [af_rule af_st] in Fk.
      assert (Ex : existsb (key_beq q) (fo r) = true) by (apply existsb_exists; exists q; split; [exact Hin | apply key_beq_refl]).
      rewrite Ex in Fk. cbn in Fk. rewrite (abs_empty_sound _ _ _ _ S Fk). reflexivity. }
    assert (Xn : Forall (fun pr => kfilter (fst pr) (node_items cur ++ [(q, v)]) = [] \/ kfilter (snd pr) (node_items cur ++ [(q, v)]) = []) (xr r)).
    { unfold xr_ok in Xk. cbn [af_rule af_st] in Xk. rewrite forallb_forall in Xk. rewrite Forall_forall in *. intros [k1 k2] Hin.
      specialize (Xo _ Hin). specialize (Xk _ Hin). cbn [fst snd] in *. apply andb_prop in Xk as [X1 X2]. rewrite !kfilter_snoc. cbn [fst].
      destruct (key_beq q k1) eqn:E1, (key_beq q k2) eqn:E2.
      - exfalso. apply key_beq_eq in E1, E2. subst. pose proof (Hxr _ _ _ Hin) as Ir. rewrite key_beq_refl in Ir. discriminate.
      - right. rewrite app_nil_r. apply (abs_empty_sound _ _ _ _ S X1).
      - left. rewrite app_nil_r. apply (abs_empty_sound _ _ _ _ S X2).
      - rewrite !app_nil_r. exact Xo. }
    pose proof F0 as F.
    assert (Fa : Forall citem_ok (node_items cur ++ [(q, v)])) by (apply Forall_app; split; [exact F | constructor; [exact Iv | constructor]]).
    destruct (pindex (pat r) q) as [[pos many]|] eqn:Px.
    - destruct (pstep_spec _ _ _ _ _ _ Px Hs) as (-> & Lp & Hm).
      split; [|split; [|split; [exact Fa | split; [exact Xn | exact Fn]]]].
      + rewrite ciids_snoc, A. symmetry. apply (cgroups_snoc_in _ (Hnodup _) _ _ _ pos many Px).
        intros k' pos' m' Hp' L. apply (S k' pos' m' Hp'). left. lia.
      + intros q' pos' many' Hp'. rewrite kfilter_snoc. cbn [fst snd].
        destruct (key_beq q q') eqn:E.
        * apply key_beq_eq in E. subst q'. rewrite Px in Hp'. inversion Hp'; subst pos' many'. split; [intros [C|[_ C]]; [lia | discriminate]|].
          intros Em. specialize (Hm Em). destruct (S q pos many Px) as [S1 _]. rewrite (S1 Hm). cbn. lia.
        * rewrite app_nil_r. destruct (S q' pos' many' Hp') as [S1 S2]. split; [|exact S2].
          intros [C|[C C']]; [apply S1; left; lia | discriminate].
    - destruct Hs as [Hv ->]. split; [|split; [|split; [exact Fa | split; [exact Xn | exact Fn]]]].
      + rewrite ciids_snoc, Hv, app_nil_r, (cgroups_snoc_notin _ _ _ _ Px). exact A.
      + intros q' pos' many' Hp'. rewrite kfilter_snoc.
        assert (E : key_beq q q' = false).
        { destruct (key_beq q q') eqn:E; [|reflexivity]. apply key_beq_eq in E. subst q'. congruence. }
        rewrite E, app_nil_r. apply (S q' pos' many' Hp').
  Qed.

  Lemma cgroups_snoc_silent p items k v : ic (k, v) = [] -> cgroups p (items ++ [(k, v)]) = cgroups p items.
  Proof.
    intros Hv. induction p as [|[k0 m0] r IH]; cbn [cgroups]; [reflexivity|].
    rewrite cgrp_snoc, IH. destruct (key_beq k k0); [now rewrite Hv, app_nil_r | now rewrite app_nil_r].
  Qed.

  (* adding a content-free item that does not advance the progress *)
  Lemma ccore_silent r st cur q v :
    ccore r st cur -> citem_ok (q, v) -> ic (q, v) = [] ->
    o_silent pat xr (mk_aframe r st false false) q = Some st ->
    ccore r st (node_add cur q v).
  Proof.
    intros (Rt & A & S & F0 & Xo & Fi) Iv Hv Os. unfold ccore. rewrite node_rt_add', node_items_add.
    unfold o_silent in Os. cbn [af_rule af_st] in Os.
    destruct (xr_ok pat xr (mk_aframe r st false false) q) eqn:Xk; [|discriminate].
    split; [exact Rt|]. split; [|split; [|split; [|split]]].
    - rewrite ciids_snoc, Hv, app_nil_r, cgroups_snoc_silent by exact Hv. exact A.
    - intros q' pos' many' Hp'. rewrite kfilter_snoc. cbn [fst].
      destruct (key_beq q q') eqn:E; [|rewrite app_nil_r; apply (S q' pos' many' Hp')].
      apply key_beq_eq in E. subst q'. rewrite Hp' in Os.
      destruct many'; [|discriminate]. cbn [andb] in Os.
      destruct (abs_empty (pat r) st q) eqn:Ae; [discriminate|].
      split; [|discriminate]. intros C. exfalso. unfold abs_empty in Ae. rewrite Hp' in Ae.
      apply orb_false_iff in Ae as [A1 A2]. apply Nat.ltb_ge in A1.
      destruct C as [C|[C1 C2]]; [lia|]. rewrite C2 in A2. cbn in A2. rewrite andb_true_r in A2. apply Nat.eqb_neq in A2. lia.
    - apply Forall_app; split; [exact F0 | constructor; [exact Iv | constructor]].
    - unfold xr_ok in Xk. cbn [af_rule af_st] in Xk. rewrite forallb_forall in Xk. rewrite Forall_forall in *. intros [k1 k2] Hin.
      specialize (Xo _ Hin). specialize (Xk _ Hin). cbn [fst snd] in *. apply andb_prop in Xk as [X1 X2]. rewrite !kfilter_snoc. cbn [fst].
      destruct (key_beq q k1) eqn:E1, (key_beq q k2) eqn:E2.
      + exfalso. apply key_beq_eq in E1, E2. subst. pose proof (Hxr _ _ _ Hin) as Ir. rewrite key_beq_refl in Ir. discriminate.
      + right. rewrite app_nil_r. apply (abs_empty_sound _ _ _ _ S X1).
      + left. rewrite app_nil_r. apply (abs_empty_sound _ _ _ _ S X2).
      + rewrite !app_nil_r. exact Xo.
    - rewrite Forall_forall in *. intros k Hin. specialize (Fi _ Hin). unfold fo_inv in *. rewrite kfilter_snoc. cbn [fst].
      destruct (key_beq q k) eqn:E; [|now rewrite app_nil_r].
      destruct (kfilter k (node_items cur)) as [|kv0 rest]; [reflexivity|]. cbn [app]. rewrite flat_map_app, Fi. cbn. now rewrite Hv.
  Qed.

  Lemma cnrel_weaken a b n : af_le a b = true -> cnrel a n -> cnrel b n.
  Proof.
    unfold af_le. intros H ((Rt & A & S & F & Xo & Fi) & Hl & Hh).
    apply andb_prop in H as [H H4]. apply andb_prop in H as [H H3]. apply andb_prop in H as [H1 H2].
    apply rule_beq_eq in H1. apply ps_le_spec in H2.
    unfold cnrel, ccore. rewrite <- H1. split; [split; [exact Rt|]; split; [exact A|]; split; [|split; [exact F | split; [exact Xo | exact Fi]]]|split].
    - intros k pos many Hp. destruct (S k pos many Hp) as [S1 S2]. split; [|exact S2].
      intros C. apply S1. destruct (af_st a) as [ja sa], (af_st b) as [jb sb]. cbn [fst snd] in *.
      destruct H2 as [H2|[H2 H2']]; [lia|]. destruct C as [C|[C C']]; [lia|].
      right. split; [lia|]. destruct sa; [|reflexivity]. rewrite (H2' eq_refl) in C'. discriminate.
    - intros E. apply Hl. rewrite E in H3. exact H3.
    - intros E. apply Hh. rewrite E in H4. exact H4.
  Qed.

  Definition csrel (stk : dstk) (bstack : list node) : Prop :=
    exists nodes root, bstack = nodes ++ [root] /\ Forall2 cnrel stk nodes /\ node_items root = [].

  Lemma csrel_weaken a : forall b bstack, dstk_le a b = true -> csrel a bstack -> csrel b bstack.
  Proof.
    intros b bstack H (nodes & root & E & F & R). exists nodes, root. split; [exact E|]. split; [|exact R]. clear E.
    revert b H. induction F as [|x n a' nodes' Hx F IH]; intros b H; destruct b as [|y b']; try discriminate; [constructor|].
    cbn in H. apply andb_prop in H as [H1 H2]. constructor; [eapply cnrel_weaken; eauto | apply IH, H2].
  Qed.

  Definition stack_c (bstack : list node) : list X := flat_map (fun n => ciids (node_items n)) (rev bstack).
  Lemma stack_c_cons n r : stack_c (n :: r) = stack_c r ++ ciids (node_items n).
  Proof. unfold stack_c. cbn [rev]. rewrite flat_map_app. cbn. now rewrite app_nil_r. Qed.

  (* ---- start ---- *)
  Lemma cnrel_fresh x : cnrel (mk_aframe x (0, false) false false) (Node (KR x) []).
  Proof.
    unfold cnrel, ccore. cbn [af_rule af_st af_line af_hdr node_rt node_items].
    split; [|split; discriminate]. split; [reflexivity|]. split; [|split; [|split; [constructor | split; [apply Forall_forall; intros pr _; now left | apply Forall_forall; intros k _; exact I]]]].
    - unfold ciids. cbn. symmetry. apply cgroups_empty. reflexivity.
    - intros k pos many Hp. split; [reflexivity | cbn; lia].
  Qed.

  Lemma o_start sil k x stk stk' bstack : o_prod pat rfree tfree xr fo sil k (PS x) stk = Some stk' -> csrel stk bstack ->
    csrel stk' (Node (KR x) [] :: bstack) /\ stack_c (Node (KR x) [] :: bstack) = stack_c bstack.
  Proof.
    intros D (nodes & root & E & F & R). cbn in D. destruct stk as [|f tl]; [discriminate|]. inversion D; subst stk'. split.
    - exists (Node (KR x) [] :: nodes), root. rewrite E. split; [reflexivity|]. split; [|exact R]. constructor; [apply cnrel_fresh | exact F].
    - rewrite stack_c_cons. cbn. now rewrite app_nil_r.
  Qed.

  (* ---- build ---- *)
  Definition bc (k : kind) (t : token) : list X := if kind_beq k KComment then [] else ic (KT k, VTok t).

  Lemma o_build sil k t stk stk' b b' : o_prod pat rfree tfree xr fo sil k PB stk = Some stk' -> m_type t = Some k -> builder_build t b = BoOk b' ->
    (sil = true -> ic (KT k, VTok t) = []) ->
    csrel stk (b_stack b) -> csrel stk' (b_stack b') /\ b_idc b' = b_idc b /\ stack_c (b_stack b') = stack_c (b_stack b) ++ bc k t.
  Proof.
    intros D Mt Bb Hsil (nodes & root & E & F & R). cbn in D. destruct stk as [|f tl]; [discriminate|].
    unfold builder_build in Bb. rewrite Mt in Bb. unfold bc.
    destruct (kind_beq k KComment) eqn:Kc.
    - apply kind_beq_eq in Kc. subst k. inversion D; subst stk'. destruct (m_text t); [|discriminate]. inversion Bb; subst b'. cbn [b_stack b_idc].
      split; [exists nodes, root; auto | split; [reflexivity | now rewrite app_nil_r]].
    - destruct (if sil then o_silent pat xr f (KT k) else o_add pat xr fo f (KT k) (tfree k)) as [st'|] eqn:Oa; [|discriminate]. inversion D; subst stk'. clear D.
      assert (Bb' : match b_stack b with [] => BoCrash | cur :: stk0 => BoOk (mk_bstate (node_add cur (KT k) (VTok t) :: stk0) (b_comments b) (b_idc b)) end = BoOk b').
      { destruct k; try exact Bb. discriminate Kc. }
      clear Bb. inversion F as [|f0 n tl0 nodes' Hn F' E1 E2]; subst. rewrite E in Bb'. cbn [app] in Bb'. inversion Bb'; subst b'. cbn [b_stack b_idc].
      split; [|split; [reflexivity|]].
      + exists (node_add n (KT k) (VTok t) :: nodes'), root. split; [reflexivity|]. split; [|exact R]. constructor; [|exact F'].
        destruct Hn as (Co & Hl & Hh). unfold cnrel. cbn [af_rule af_st af_line af_hdr]. split; [|split].
        * destruct sil.
          -- assert (Es : st' = af_st f).
             { unfold o_silent in Oa. destruct (xr_ok pat xr f (KT k)); [|discriminate].
               destruct (pindex (pat (af_rule f)) (KT k)) as [[pos many]|]; [|now inversion Oa].
               destruct (many && negb (abs_empty (pat (af_rule f)) (af_st f) (KT k))); now inversion Oa. }
             subst st'. apply (ccore_silent _ _ _ _ _ Co); [cbn; eauto | apply Hsil; reflexivity | exact Oa].
          -- unfold o_add in Oa. destruct (xr_ok pat xr f (KT k)) eqn:Xk; [|discriminate]. destruct (fo_ok pat fo f (KT k)) eqn:Fk; [|discriminate]. cbn [andb] in Oa.
             apply (ccore_add _ _ _ _ _ _ Co); [cbn; eauto | exact Xk | exact Fk|].
             destruct (pindex (pat (af_rule f)) (KT k)); [exact Oa|]. destruct (tfree k) eqn:Tf; [|discriminate]. inversion Oa. split; [apply Htfree, Tf | reflexivity].
        * intros Ef. unfold is_hdr_line in Ef. destruct (hdr_line (af_rule f)) as [k'|] eqn:Hk; [|exact I].
          apply orb_prop in Ef as [Ef|Ef]; [apply has_line_snoc, Hl, Ef|].
          apply kind_beq_eq in Ef. subst k'.
          unfold has_line, get_single, get_items. rewrite node_items_add, filter_app, map_app.
          destruct (filter (fun kv => key_beq (fst kv) (KT k)) (node_items n)) as [|[k0 v0] r] eqn:Fl.
          -- cbn. rewrite kind_beq_refl. cbn. eauto.
          -- assert (Hin0 : In (k0, v0) (filter (fun kv => key_beq (fst kv) (KT k)) (node_items n))) by (rewrite Fl; now left).
             apply filter_In in Hin0 as [Hin Hk0]. cbn in Hk0. apply key_beq_eq in Hk0. subst k0.
             destruct Co as (_ & _ & _ & Fo & _). rewrite Forall_forall in Fo. specialize (Fo _ Hin). cbn in Fo. destruct Fo as [t0 ->]. cbn. eauto.
        * intros Ef. specialize (Hh Ef). destruct (hdr_of (af_rule f)); [|exact I]. rewrite node_items_add, kfilter_snoc. intros Xe. apply app_eq_nil in Xe as [Xe _]. auto.
      + rewrite E. cbn [app]. rewrite !stack_c_cons, node_items_add, ciids_snoc, app_assoc. reflexivity.
  Qed.

  (* ---- end ---- *)
  Lemma ctransform_item af n c i v i' : cnrel af n -> (is_header (af_rule af) = true -> af_line af = true) ->
    transform_node n c i = TOk v i' -> citem_ok (KR (af_rule af), v).
  Proof.
    intros R Rl H. destruct v; try exact I. destruct (transform_node_value _ _ _ _ _ H) as [-> ->].
    cbn. pose proof R as ((Rt & _ & _ & Fo & _) & Hl & _). split; [exact Rt|]. split; [apply (cnrel_flat _ _ R)|].
    split.
    { intros x' m' Hin. rewrite Forall_forall in Fo. specialize (Fo _ Hin). cbn in Fo. exact (proj1 (proj2 Fo)). }
    unfold is_header in Rl. destruct (hdr_line (af_rule af)); [apply Hl, Rl; reflexivity | exact I].
  Qed.

  Lemma o_end sil k x stk stk' b b' : o_prod pat rfree tfree xr fo sil k (PE x) stk = Some stk' -> builder_end x b = BoOk b' ->
    csrel stk (b_stack b) ->
    csrel stk' (b_stack b') /\ b_idc b <= b_idc b' /\ stack_c (b_stack b') = stack_c (b_stack b) ++ fresh (b_idc b) (b_idc b').
  Proof.
    intros D Be (nodes & root & E & F & R). cbn [o_prod] in D.
    destruct stk as [|f tl]; [discriminate|].
    destruct (rule_beq x (af_rule f) && (negb (is_header x) || af_line f) && (negb (needs_header x) || af_hdr f)) eqn:C; [|discriminate].
    apply andb_prop in C as [C C3]. apply andb_prop in C as [C1 C2]. apply rule_beq_eq in C1. subst x.
    destruct tl as [|pf tl']; [discriminate|].
    destruct (o_add pat xr fo pf (KR (af_rule f)) (rfree (af_rule f))) as [st'|] eqn:Oa; [|discriminate]. inversion D; subst stk'. clear D.
    inversion F as [|f0 n tl0 nodes0 Hn F0 E1 E2]; subst. inversion F0 as [|pf0 cur tl1 nodes1 Hc F1 E1 E2]; subst.
    assert (Rd : ready f).
    { split; intros Xe; rewrite Xe in *; cbn in *; assumption. }
    unfold builder_end in Be. rewrite E in Be. cbn [app] in Be.
    destruct (transform_node n (b_comments b) (b_idc b)) as [v i'|e i'|] eqn:Tn; try discriminate.
    destruct (Htrans f n _ _ _ _ Hn Rd Tn) as [Li Hv].
    inversion Be; subst b'. cbn [b_stack b_idc]. clear Be.
    pose proof Hn as ((Rtn & An & _) & _). rewrite Rtn.
    assert (Iv : citem_ok (KR (af_rule f), v)) by (eapply ctransform_item; eauto; apply Rd).
    split; [|split; [exact Li|]].
    - exists (node_add cur (KR (af_rule f)) v :: nodes1), root. split; [reflexivity|]. split; [|exact R]. constructor; [|exact F1].
      destruct Hc as (Co & Hl & Hh). unfold cnrel. cbn [af_rule af_st af_line af_hdr]. split; [|split].
      + unfold o_add in Oa. destruct (xr_ok pat xr pf (KR (af_rule f))) eqn:Xk; [|discriminate]. destruct (fo_ok pat fo pf (KR (af_rule f))) eqn:Fk; [|discriminate]. cbn [andb] in Oa.
        apply (ccore_add _ _ _ _ _ _ Co Iv Xk Fk).
        destruct (pindex (pat (af_rule pf)) (KR (af_rule f))); [exact Oa|]. destruct (rfree (af_rule f)) eqn:Fr; [|discriminate]. inversion Oa.
        split; [|reflexivity]. rewrite Hv, (Hfresh _ _ _ _ _ _ Fr Hn Tn), app_nil_r, An, (Hrfree _ Fr). reflexivity.
      + intros Ef. specialize (Hl Ef). destruct (hdr_line (af_rule pf)); [apply has_line_snoc, Hl | exact I].
      + intros Ef. unfold is_hdr_of in Ef. destruct (hdr_of (af_rule pf)) as [h|]; [|exact I]. rewrite node_items_add, kfilter_snoc.
        apply orb_prop in Ef as [Ef|Ef].
        * specialize (Hh Ef). intros Xe. apply app_eq_nil in Xe as [Xe _]. auto.
        * apply rule_beq_eq in Ef. subst h. cbn [key_beq fst]. rewrite rule_beq_refl. intros Xe. apply app_eq_nil in Xe as [_ Xe]. discriminate.
    - rewrite E. cbn [app]. rewrite !stack_c_cons, node_items_add, ciids_snoc, Hv, !app_assoc. reflexivity.
  Qed.

  (* ---- a whole test ---- *)
  Definition bop1 (t : token) (p : prod) (b : bstate) : option bstate :=
    match (match p with PS r => builder_start r b | PE r => builder_end r b | PB => builder_build t b end) with
    | BoOk b' => Some b'
    | _ => None
    end.
  Fixpoint bsteps (t : token) (ps : list prod) (b : bstate) : option bstate :=
    match ps with
    | [] => Some b
    | p :: r => match bop1 t p b with Some b' => bsteps t r b' | None => None end
    end.
  Fixpoint added (k : kind) (t : token) (ps : list prod) (b : bstate) : list X :=
    match ps with
    | [] => []
    | p :: r =>
      match bop1 t p b with
      | Some b1 => match p with PB => bc k t | PE _ => fresh (b_idc b) (b_idc b1) | PS _ => [] end ++ added k t r b1
      | None => []
      end
    end.

  Lemma o_steps sil k t : m_type t = Some k -> (sil = true -> ic (KT k, VTok t) = []) -> forall ps stk stk' b b',
    o_prods pat rfree tfree xr fo sil k ps stk = Some stk' -> bsteps t ps b = Some b' -> csrel stk (b_stack b) ->
    csrel stk' (b_stack b') /\ b_idc b <= b_idc b' /\ stack_c (b_stack b') = stack_c (b_stack b) ++ added k t ps b.
  Proof.
    intros Mt Hsil. induction ps as [|p ps IH]; intros stk stk' b b' D B S; cbn in D, B; cbn [added].
    - inversion D; inversion B; subst. split; [exact S|]. split; [lia | now rewrite app_nil_r].
    - destruct (o_prod pat rfree tfree xr fo sil k p stk) as [s1|] eqn:D1; [|discriminate].
      destruct (bop1 t p b) as [b1|] eqn:B1; [|discriminate].
      assert (Step : csrel s1 (b_stack b1) /\ b_idc b <= b_idc b1
                     /\ stack_c (b_stack b1) = stack_c (b_stack b) ++ match p with PB => bc k t | PE _ => fresh (b_idc b) (b_idc b1) | PS _ => [] end).
      { unfold bop1 in B1. destruct p as [x|x|].
        - unfold builder_start in B1. inversion B1; subst b1. cbn [b_stack b_idc].
          destruct (o_start sil k x stk s1 (b_stack b) D1 S) as [S1 C1]. split; [exact S1|]. split; [lia | now rewrite C1, app_nil_r].
        - destruct (builder_end x b) as [b2|e b2|] eqn:E2; inversion B1; subst. eapply o_end; eauto.
        - destruct (builder_build t b) as [b2|e b2|] eqn:E2; inversion B1; subst.
          destruct (o_build sil k t stk s1 b b1 D1 Mt E2 Hsil S) as (S1 & I1 & C1). split; [exact S1|]. split; [lia | exact C1]. }
      destruct Step as (S1 & L1 & C1). destruct (IH _ _ _ _ D B S1) as (S2 & L2 & C2).
      split; [exact S2|]. split; [lia|]. rewrite C2, C1, app_assoc. reflexivity.
  Qed.
End OrdFacts.
