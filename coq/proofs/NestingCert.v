(* C02 (nesting): the rule-stack certificate for the regenerated table. *)
From Coq Require Import List Bool Arith.
Import ListNotations.
Require Import Kinds Regex Grammar RefSem Table NestingDefs.

Definition alpha : amap :=
  Eval vm_compute in
    match apply_aev [] (AS RGherkinDocument) with
    | Some stk0 => explore_alpha table 5000 [(start_state, stk0)] []
    | None => []
    end.

Lemma alpha_consistent : stack_consistent table start_state alpha = true.
Proof. vm_compute. reflexivity. Qed.
