(* C17: every envelope the model can produce has the shape Cucumber Messages prescribes. *)
From Coq Require Import String.
From Coq Require Import List Bool Arith NArith.
Import ListNotations.
Require Import Kinds PyStr Line Matcher Ast Builder Compiler Pipeline Stream TokenFormatter Json Schema.

Lemma forallb_map {A} (f : json -> bool) (g : A -> json) (l : list A) :
  (forall a, f (g a) = true) -> forallb f (map g l) = true.
Proof. intros H. induction l as [|a l IH]; simpl; [reflexivity|]. now rewrite H, IH. Qed.

Lemma loc_ok l : s_loc (j_loc l) = true.
Proof. unfold j_loc. destruct (loc_col l); reflexivity. Qed.
Local Arguments s_loc : simpl never. Local Arguments j_loc : simpl never.
Local Arguments map : simpl never.

Lemma tag_ok t : s_tag (j_tag t) = true.
Proof. unfold s_tag, j_tag, is_obj. cbn. rewrite ?loc_ok. reflexivity. Qed.
Local Arguments s_tag : simpl never. Local Arguments j_tag : simpl never.

Ltac solve_obj := cbn; rewrite ?loc_ok; repeat (rewrite forallb_map by (intros; auto)); cbn; try reflexivity.

Lemma cell_ok c : s_cell (j_cell c) = true.
Proof. unfold s_cell, j_cell, is_obj. solve_obj. Qed.
Local Arguments s_cell : simpl never. Local Arguments j_cell : simpl never.
Lemma row_ok r : s_row (j_row r) = true.
Proof. unfold s_row, j_row, is_obj. cbn. rewrite loc_ok, (forallb_map _ _ _ cell_ok). reflexivity. Qed.
Local Arguments s_row : simpl never. Local Arguments j_row : simpl never.
Lemma docstring_ok d : s_docstring (j_docstring d) = true.
Proof. unfold s_docstring, j_docstring, is_obj. destruct (ds_media d); cbn; rewrite loc_ok; reflexivity. Qed.
Local Arguments s_docstring : simpl never. Local Arguments j_docstring : simpl never.
Lemma ktype_ok k : is_enum KTYPES (JStr (ktype_str k)) = true.
Proof. destruct k; reflexivity. Qed.
Lemma ptype_ok k : is_enum PTYPES (JStr (ptype_str k)) = true.
Proof. destruct k; reflexivity. Qed.
Local Arguments is_enum : simpl never.
Lemma step_ok s : s_step (j_step s) = true.
Proof.
  unfold s_step, j_step, is_obj. destruct (st_arg s) as [|l rows|d]; cbn; rewrite ?loc_ok, ?ktype_ok, ?docstring_ok; try reflexivity.
  unfold s_datatable, is_obj. cbn. rewrite ?loc_ok, ?(forallb_map _ _ _ row_ok). reflexivity.
Qed.
Local Arguments s_step : simpl never. Local Arguments j_step : simpl never.
Lemma background_ok b : s_background (j_background b) = true.
Proof. unfold s_background, j_background, is_obj. cbn. rewrite loc_ok, (forallb_map _ _ _ step_ok). reflexivity. Qed.
Local Arguments s_background : simpl never. Local Arguments j_background : simpl never.
Lemma examples_ok e : s_examples (j_examples e) = true.
Proof.
  unfold s_examples, j_examples, is_obj. destruct (ex_header e); cbn;
    rewrite loc_ok, ?row_ok, (forallb_map _ _ _ tag_ok), (forallb_map _ _ _ row_ok); reflexivity.
Qed.
Local Arguments s_examples : simpl never. Local Arguments j_examples : simpl never.
Lemma scenario_ok s : s_scenario (j_scenario s) = true.
Proof.
  unfold s_scenario, j_scenario, is_obj. cbn.
  rewrite loc_ok, (forallb_map _ _ _ tag_ok), (forallb_map _ _ _ step_ok), (forallb_map _ _ _ examples_ok). reflexivity.
Qed.
Local Arguments s_scenario : simpl never. Local Arguments j_scenario : simpl never.
Lemma rchild_ok c : s_rchild (j_rchild c) = true.
Proof. destruct c; unfold s_rchild, j_rchild, is_one; cbn; rewrite ?background_ok, ?scenario_ok; reflexivity. Qed.
Local Arguments s_rchild : simpl never. Local Arguments j_rchild : simpl never.
Lemma rule_ok r : s_rule (j_rule r) = true.
Proof. unfold s_rule, j_rule, is_obj. cbn. rewrite loc_ok, (forallb_map _ _ _ tag_ok), (forallb_map _ _ _ rchild_ok). reflexivity. Qed.
Local Arguments s_rule : simpl never. Local Arguments j_rule : simpl never.
Lemma fchild_ok c : s_fchild (j_fchild c) = true.
Proof. destruct c; unfold s_fchild, j_fchild, is_one; cbn; rewrite ?background_ok, ?scenario_ok, ?rule_ok; reflexivity. Qed.
Local Arguments s_fchild : simpl never. Local Arguments j_fchild : simpl never.
Lemma feature_ok f : s_feature (j_feature f) = true.
Proof. unfold s_feature, j_feature, is_obj. cbn. rewrite loc_ok, (forallb_map _ _ _ tag_ok), (forallb_map _ _ _ fchild_ok). reflexivity. Qed.
Local Arguments s_feature : simpl never. Local Arguments j_feature : simpl never.
Lemma comment_ok c : s_comment (j_comment c) = true.
Proof. unfold s_comment, j_comment, is_obj. cbn. rewrite loc_ok. reflexivity. Qed.
Local Arguments s_comment : simpl never. Local Arguments j_comment : simpl never.

Lemma is_str_jid n : is_str (jid n) = true. Proof. reflexivity. Qed.
Lemma ptag_ok t : s_ptag (j_ptag t) = true.
Proof. unfold s_ptag, j_ptag, is_obj. cbn. reflexivity. Qed.
Local Arguments s_ptag : simpl never. Local Arguments j_ptag : simpl never.
Lemma pstep_ok s : s_pstep (j_pstep s) = true.
Proof.
  unfold s_pstep, j_pstep, is_obj. destruct (ps_arg s) as [|rows|content media]; cbn; rewrite ?ptype_ok, (forallb_map _ _ _ is_str_jid); try reflexivity.
  - unfold s_pargument, is_one, is_obj. cbn.
    rewrite (forallb_map s_prow); [reflexivity|]. intros r. unfold s_prow, is_obj. cbn.
    rewrite (forallb_map s_pcell); [reflexivity|]. intros v. reflexivity.
  - unfold s_pargument, is_one, is_obj. destruct media; reflexivity.
Qed.
Local Arguments s_pstep : simpl never. Local Arguments j_pstep : simpl never.
Lemma pickle_ok p : s_pickle (j_pickle p) = true.
Proof.
  unfold s_pickle, j_pickle, is_obj. cbn.
  rewrite (forallb_map _ _ _ is_str_jid), (forallb_map _ _ _ ptag_ok), (forallb_map _ _ _ pstep_ok). reflexivity.
Qed.
Local Arguments s_pickle : simpl never. Local Arguments j_pickle : simpl never.

(* the envelopes of the stream model; the source envelope always carries the Gherkin media type *)
Definition env_media_ok (e : envelope) : Prop :=
  match e with EnvSource _ _ media => media = MEDIA_TYPE | _ => True end.

Theorem envelope_ok e : env_media_ok e -> s_envelope (j_envelope e) = true.
Proof.
  destruct e as [uri data media|uri d|p|uri l msg]; intros M; unfold s_envelope, j_envelope, is_one.
  - cbn in M. subst media. reflexivity.
  - cbn. unfold j_document. destruct (doc_feature d) as [f|]; unfold s_gherkin_document, is_obj; cbn;
      rewrite ?feature_ok, (forallb_map _ _ _ comment_ok); reflexivity.
  - cbn. rewrite pickle_ok. reflexivity.
  - cbn. unfold s_parse_error, is_obj. cbn. rewrite loc_ok. reflexivity.
Qed.

Require Import StreamFacts.
(* every envelope the stream API yields for a source is well-formed Cucumber Messages JSON *)
Theorem stream_envelopes_ok o idc uri data es i e :
  enum_source o idc uri data = Some (es, i) -> In e es -> s_envelope (j_envelope e) = true.
Proof.
  intros H Hin. apply envelope_ok. pose proof (source_verbatim o idc uri data es i e H Hin) as V.
  destruct e; cbn; auto. apply V.
Qed.
