(* C01: the whole pipeline is total -- parse returns a document or parser errors, compile returns
   pickles for every document parse returns, the stream returns envelopes for every source. *)
From Coq Require Import List Bool Arith NArith Lia.
Import ListNotations.
Require Import Kinds PyStr Line Matcher Ast Builder Compiler CompilerSpec Automaton Pipeline PipelineFacts
               Stream BuilderSafe Safety Dialects.

Lemma rows_of_rect x exs : Forall rect_ex exs -> Forall rectangular_unit (rows_of x exs).
Proof.
  induction 1 as [|ex exs He _ IH]; unfold rows_of; cbn [flat_map]; [constructor|].
  apply Forall_app. split; [|exact IH]. unfold rect_ex in He. destruct (ex_header ex) as [h|]; [|constructor].
  apply Forall_forall. intros u Hu. apply in_map_iff in Hu as (r & <- & Hr). unfold rectangular_unit. cbn [u_vars u_vals].
  rewrite Forall_forall in He. auto.
Qed.

Lemma units_of_rect x : rect_sc (x_sc x) -> Forall rectangular_unit (units_of x).
Proof.
  intros R. unfold units_of. unfold rect_sc in R. destruct (sc_examples (x_sc x)) as [|e es] eqn:E.
  - constructor; [|constructor]. unfold rectangular_unit. simpl. lia.
  - apply rows_of_rect. exact R.
Qed.

Lemma rule_ctxs_rect tags cs : Forall rect_rchild cs -> forall bg, Forall (fun x => rect_sc (x_sc x)) (rule_ctxs tags bg cs).
Proof.
  induction 1 as [|c cs Hc _ IH]; intros bg; cbn [rule_ctxs]; [constructor|].
  destruct c as [b|s]; [apply IH|]. constructor; [exact Hc | apply IH].
Qed.

Lemma feature_ctxs_rect ftags cs : Forall rect_fchild cs -> forall bg, Forall (fun x => rect_sc (x_sc x)) (feature_ctxs ftags bg cs).
Proof.
  induction 1 as [|c cs Hc _ IH]; intros bg; cbn [feature_ctxs]; [constructor|].
  destruct c as [b|s|r]; [apply IH | constructor; [exact Hc | apply IH] |].
  apply Forall_app. split; [apply rule_ctxs_rect; exact Hc | apply IH].
Qed.

Theorem rect_doc_units d : rect_doc d -> Forall rectangular_unit (doc_units d).
Proof.
  unfold rect_doc, doc_units, doc_ctxs. destruct (doc_feature d) as [f|]; [|constructor].
  intros R. pose proof (feature_ctxs_rect (f_tags f) (f_children f) R []) as F.
  induction F as [|x xs Hx _ IH]; cbn [flat_map]; [constructor|]. apply Forall_app. split; [apply units_of_rect; exact Hx | exact IH].
Qed.

(* compiling any document the parser returns yields pickles *)
Theorem compile_parsed stop m b src d m' b' n uri idc : wf_ms m ->
  parse_source stop m b src = POk d m' b' n -> compile uri d idc <> None.
Proof. intros W H. apply compile_total, rect_doc_units. eapply parse_source_rect; eauto. Qed.

Lemma en_exists : new_matcher dialects EN <> None.
Proof. vm_compute. discriminate. Qed.

(* the stream API turns any source into envelopes *)
Theorem enum_source_total o idc uri data : enum_source o idc uri data <> None.
Proof.
  unfold enum_source. destruct (new_matcher dialects EN) as [m0|] eqn:NM; [|exfalso; now apply en_exists].
  destruct (new_matcher_wf EN m0 NM) as [W _].
  destruct (parse_source_total (stop_first o) m0 (new_builder idc) data W) as [Nc Nf].
  destruct (parse_source (stop_first o) m0 (new_builder idc) data) as [d m b c|errs m b c|e m b c| |] eqn:P; try discriminate; try congruence.
  destruct (print_pickles o); [|discriminate].
  pose proof (compile_parsed (stop_first o) m0 (new_builder idc) data d m b c uri (b_idc b) W P) as C.
  destruct (compile uri d (b_idc b)) as [[ps i]|]; [discriminate | congruence].
Qed.

Theorem enum_sources_total o : forall srcs idc, enum_sources o idc srcs <> None.
Proof.
  induction srcs as [|[uri data] r IH]; intros idc; simpl; [discriminate|].
  pose proof (enum_source_total o idc uri data) as E. destruct (enum_source o idc uri data) as [[es i]|]; [|congruence].
  specialize (IH i). destruct (enum_sources o i r) as [[es' i']|]; [discriminate | congruence].
Qed.

(* everything Parser.parse can do, classified *)
Require Import PipelineErrors ErrorFacts Table.
Theorem parse_source_classified stop m b src : wf_ms m ->
  match parse_source stop m b src with
  | POk d _ _ _ => rect_doc d
  | PErrs es _ _ _ => 1 <= length es <= 11 /\ no_dup_msgs es
  | PErr1 e _ _ _ => stop = true
  | PCrash | POutOfFuel => False
  end.
Proof.
  intros W.
  destruct (parse_source_total stop m b src W) as [Nc Nf].
  pose proof (pipeline_errors stop (scan src) m b) as Pe.
  pose proof (parse_source_rect stop m b src) as Pr.
  assert (N1 : stop = false -> nr1 (parse_tokens stop (scan src) m b)).
  { intros ->. apply parse_nr1. }
  unfold parse_source in *.
  destruct (parse_tokens stop (scan src) m b) as [u c|e c|es c|c|].
  - destruct (builder_result (bs c)) as [d|] eqn:Br; [|congruence]. eapply Pr; [exact W | reflexivity].
  - destruct stop; [reflexivity|]. exfalso. exact (N1 eq_refl).
  - destruct Pe as (_ & Nd & Len). split; [exact Len | exact Nd].
  - congruence.
  - congruence.
Qed.
