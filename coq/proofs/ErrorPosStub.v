(* The interpreter (Parser.parse over the regenerated table, kind-level matcher) in stop-at-first-error mode raises
   its error on the token at which the table machine of LanguageLink first has no transition (ErrorPos.first_stuck):
   through the queue-free machine of Machine.v (MachineEq.parse_machine), whose walk over the pending tokens is
   structurally the recursion of `dpos`. *)
From Coq Require Import List Bool Arith Lia.
Import ListNotations.
Require Import Kinds Regex Grammar RefSem Stub NFA Table Automaton AutoFacts C02Lemmas Delivery DeliveryInst LanguageLink LanguageStub
               Machine MachineEq MachineInst ErrorPos ErrorPosInst.

Notation sP := (stub_params Table.table).
Notation tbl := Table.table.
Notation las := Table.lookaheads.

Lemma sm_match k (t : tok) (m : unit) : m_match sP k t m = MrOk (ans k (fst t), t, m).
Proof.
  unfold m_match. cbn [matchf is_eof stub_params s_matchf]. rewrite answers_fst.
  destruct (negb (kind_beq k KEOF) && s_is_eof t) eqn:E; [|reflexivity].
  apply andb_prop in E as [E1 E2]. apply negb_true_iff in E1. unfold s_is_eof in E2. apply kind_beq_eq in E2.
  unfold ans, answers. cbn [fst]. rewrite E2. destruct k; try discriminate E1; reflexivity.
Qed.

Lemma sm_any ks : forall (t : tok) (m : unit), m_any sP ks t m = MrOk (existsb (fun k => ans k (fst t)) ks, t, m).
Proof.
  induction ks as [|k ks IH]; intros t m; cbn [m_any existsb]; [reflexivity|]. rewrite sm_match.
  destruct (ans k (fst t)); [reflexivity | apply IH].
Qed.

Lemma sm_la_loop h : forall (ups : list tok) (m : unit), m_la_loop sP h ups m = MrOk (la_peek h (map fst ups), m, ups).
Proof.
  induction ups as [|t r IH]; intros m; cbn [m_la_loop map la_peek]; [reflexivity|]. rewrite sm_any.
  destruct (existsb (fun e => ans e (fst t)) (la_expected h)); [reflexivity|]. rewrite sm_any.
  destruct (existsb (fun s => ans s (fst t)) (la_skip h)); [|reflexivity]. rewrite IH. reflexivity.
Qed.

Lemma sm_la hn h (ups : list tok) (m : unit) : flook las hn = Some h -> m_la sP hn ups m = MrOk (la_peek h (map fst ups), m, ups).
Proof. intros F. unfold m_la. change (find_la sP hn) with (flook las hn). rewrite F. apply sm_la_loop. Qed.

Lemma sm_exec (t : tok) : forall ps (m b : unit), m_exec sP t ps m b = MoOk tt m b.
Proof. induction ps as [|p ps IH]; intros m b; cbn [m_exec]; [reflexivity|]. destruct p; cbn; destruct b; apply IH. Qed.

Lemma sm_tests : forall tests exp (t : tok) (m b : unit) ups, guards_ok tests ->
  m_tests sP tests exp t m b ups
  = match dsel las tests (fst t) (map fst ups) with
    | Some s' => MoOk (s', ups) m b
    | None => MoRaise (mk_unexpected sP t exp) m b
    end.
Proof.
  induction tests as [|y ys IH]; intros exp t m b ups G; cbn [m_tests dsel]; [reflexivity|].
  assert (Gs : guards_ok ys) by (intros z hn Iz; apply G; now right).
  rewrite sm_match. destruct (ans (t_kind y) (fst t)); [|apply IH; exact Gs].
  destruct (t_guard y) as [hn|] eqn:Gy.
  - destruct (G y hn (or_introl eq_refl) Gy) as (h & Fl & _). rewrite (sm_la hn h ups m Fl), Fl.
    destruct (la_peek h (map fst ups)); [rewrite sm_exec; reflexivity | apply IH; exact Gs].
  - rewrite sm_exec. reflexivity.
Qed.

(* the look-aheads see the end of file as they see nothing *)
Lemma dsel_eof tests k w : guards_ok tests -> dsel las tests k (w ++ [KEOF]) = dsel las tests k w.
Proof.
  induction tests as [|y ys IH]; intros G; cbn [dsel]; [reflexivity|].
  assert (Gs : guards_ok ys) by (intros z hn Iz; apply G; now right).
  destruct (ans (t_kind y) k); [|apply IH; exact Gs].
  destruct (t_guard y) as [hn|] eqn:Gy; [|reflexivity].
  destruct (G y hn (or_introl eq_refl) Gy) as (h & Fl & Ef). rewrite Fl, (la_peek_eof h w Ef), (IH Gs). reflexivity.
Qed.

(* the walk of the machine over the pending tokens and the recursion of dpos *)
Definition stuck_rel (d : option nat) (o : @Machine.mo unit unit serr nat) (all : list tok) (e : tok) : Prop :=
  match d, o with
  | Some i, MoRaise err _ _ => fst err = nth i all e
  | None, MoOk _ _ _ => True
  | _, _ => False
  end.

Lemma sm_loop : forall (l : list tok) (e : tok) n s, Forall (fun t => is_eof sP t = false) l -> fst e = KEOF ->
  NFA.find_state tbl s <> None -> length l < n ->
  stuck_rel (dpos tbl las s (map fst l)) (m_loop sP n s tt tt (l ++ [e])) (l ++ [e]) e.
Proof.
  induction l as [|t l IH]; intros e n s Fl Ee Fs Ln; (destruct n as [|n]; [cbn in Ln; lia|]).
  - cbn [app m_loop map dpos]. unfold m_step, dstep. change (Automaton.find_state sP s) with (NFA.find_state tbl s).

    destruct (NFA.find_state tbl s) as [x|] eqn:Fx; [|congruence].
    pose proof (find_state_in_table s x Fx) as Hx.
    rewrite (sm_tests _ _ _ _ _ _ (table_guards_ok x Hx)). cbn [map]. rewrite Ee.
    destruct (dsel las (s_tests x) KEOF []) as [s'|]; cbn [stuck_rel].
    + assert (Ie : is_eof sP e = true) by (destruct e as [k j]; cbn in *; subst k; reflexivity). rewrite Ie. exact Logic.I.
    + reflexivity.
  - inversion Fl as [|? ? Ft Fl']; subst. cbn [app m_loop map dpos]. unfold m_step, dstep.
    change (Automaton.find_state sP s) with (NFA.find_state tbl s).
    destruct (NFA.find_state tbl s) as [x|] eqn:Fx; [|congruence].
    pose proof (find_state_in_table s x Fx) as Hx.
    rewrite (sm_tests _ _ _ _ _ _ (table_guards_ok x Hx)). rewrite map_app. cbn [map]. rewrite Ee.
    rewrite (dsel_eof _ _ _ (table_guards_ok x Hx)).
    destruct (dsel las (s_tests x) (fst t) (map fst l)) as [s'|] eqn:D; cbn [stuck_rel].
    + match goal with |- context [match ?d with Some _ => _ | None => MoRaise _ _ _ end] => replace d with (Some s') by (symmetry; exact D) end. rewrite Ft.
      assert (Kt : fst t <> KEOF) by (destruct t as [k j]; cbn in *; intros ->; discriminate Ft).
      destruct (dsel_target x (fst t) (map fst l) s' Hx D) as [T1 _].
      pose proof (IH e n s' Fl' Ee (T1 Kt) ltac:(cbn in Ln; lia)) as R.
      destruct (dpos tbl las s' (map fst l)) as [i|]; destruct (m_loop sP n s' tt tt (l ++ [e])) as [a m' b'|err m' b'|];
        cbn [stuck_rel option_map] in *; try contradiction; auto.
    + match goal with |- context [match ?d with Some _ => _ | None => MoRaise _ _ _ end] => replace d with (@None nat) by (symmetry; exact D) end. reflexivity.
Qed.

(* the token list of a run: the lines numbered from 1, then the end-of-file token *)
Lemma map_fst_number' w : map fst (number w) = w.
Proof. exact (map_fst_number w). Qed.

Theorem stub_first_error w : Forall (fun k => k <> KEOF) w ->
  match first_stuck w, Stub.run true w with
  | Some i, Raise1 err _ => fst err = nth i (stub_all w) (KEOF, 0)
  | None, Ok _ _ => True
  | _, _ => False
  end.
Proof.
  intros Fw. unfold first_stuck, Stub.run, run_on.
  pose proof (parse_machine sP tok (fun t => t) s_sk (fun _ => True)
                (fun k m t => eq_refl) (fun k m t => eq_refl) (fun n => eq_refl) (fun k m t _ => Logic.I)
                s_sk_not_eof s_S1 s_S2 la_no_eof_table eof_unguarded_table (number w) tt tt (number_noeof w Fw) Logic.I) as PM.
  assert (Len : length (number w) = length w).
  { unfold number. pose proof (combine_length w (seq 1 (length w))) as H. rewrite seq_length, Nat.min_id in H. exact H. }
  unfold m_parse in PM. cbn [b_start b_end stub_params s_bstart] in PM. change (stub_params Table.table) with sP in PM.
  pose proof (sm_loop (number w) (mk_eof sP (S (length (number w)))) (S (S (length (number w)))) Table.start_state
                (number_noeof w Fw) eq_refl stub_start ltac:(lia)) as L.
  rewrite map_fst_number' in L. change (Automaton.start_state sP) with Table.start_state in PM.
  unfold stub_all. rewrite <- Len.
  destruct (dpos tbl las Table.start_state w) as [i|] eqn:D;
    destruct (m_loop sP (S (S (length (number w)))) Table.start_state tt tt (number w ++ [mk_eof sP (S (length (number w)))])) as [a m' b'|err m' b'|];
    cbn [stuck_rel] in L; try contradiction;
    destruct (parse sP true (number w) tt tt) as [[] c|e1 c|es c|c|]; cbn [pm_rel] in PM; try contradiction; auto.
  destruct PM as (-> & _). rewrite L. apply nth_indep.
  pose proof (dpos_le tbl las w _ i D) as Le. rewrite app_length, Len. cbn. lia.
Qed.

(* in stop-at-first-error mode the interpreter raises on the line (or the end of file) at which the document stops
   being a prefix of a sentence of the grammar: the lines before it can be continued to a sentence, the lines up to
   it cannot *)
Theorem stub_first_error_exact w : Forall (fun k => k <> KEOF) w ->
  match Stub.run true w with
  | Raise1 err _ =>
    exists i, fst err = nth i (stub_all w) (KEOF, 0)
              /\ (forall u, runR G (firstn (S i) (w ++ [KEOF]) ++ u) = false)
              /\ (exists u, runR G (firstn i w ++ u) = true)
  | Ok _ _ => True
  | _ => False
  end.
Proof.
  intros Fw. pose proof (stub_first_error w Fw) as H.
  destruct (first_stuck w) as [i|] eqn:D; destruct (Stub.run true w) as [[] c|e c|es c|c|]; try contradiction; auto.
  exists i. split; [exact H|]. split; [exact (first_stuck_not_early w i D) | exact (first_stuck_not_late w i D)].
Qed.

(* the default, error-collecting mode: the first error it lists is that one (StopFirst.stop_first) *)
Require Import StopFirst.
Theorem stub_first_error_collecting w es c : Forall (fun k => k <> KEOF) w -> Stub.run false w = RaiseC es c ->
  exists err l i, es = err :: l /\ fst err = nth i (stub_all w) (KEOF, 0)
              /\ (forall u, runR G (firstn (S i) (w ++ [KEOF]) ++ u) = false)
              /\ (exists u, runR G (firstn i w ++ u) = true).
Proof.
  intros Fw H. unfold Stub.run, run_on in H.
  destruct (stop_first sP (number w) tt tt es c H) as (e & l & c' & -> & S1).
  pose proof (stub_first_error_exact w Fw) as X. unfold Stub.run, run_on in X. rewrite S1 in X.
  destruct X as (i & A & B & C). exists e, l, i. auto.
Qed.
