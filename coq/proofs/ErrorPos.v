(* Where the deterministic machine of LanguageLink (the transition table with its look-ahead hints, on line kinds)
   first gets stuck is exactly where the document stops being a prefix of a sentence of the grammar:
     - the lines before the failing one can be continued to a sentence (the failure is not reported late);
     - the lines up to and including the failing one cannot (it is not reported early).
   The second half needs more than the exactness of the hints: a look-ahead answers from lines the machine has not
   reached yet, so its answer on the real document and on a hypothetical continuation may differ.  They can differ only
   while every line since the tag line is one the look-ahead skips (blank, comment, tag line), and in the states reached
   that way such lines never fail (closure certificate `safe_set`).  That a failure does not depend on the look-ahead
   answers at the failing line itself is the side condition `unguarded_follows`. *)
From Coq Require Import List Bool Arith Lia.
Import ListNotations.
Require Import Kinds Stub NFA LanguageLink.

Section ErrPos.
  Variable tbl : list st.
  Variable las : list la.
  Hypothesis Hexact : forall x, In x tbl -> exact_at tbl las (s_tests x).

  Notation dsel := (dsel las).
  Notation dstep := (dstep tbl las).
  Notation fstate := (NFA.find_state tbl).

  (* index of the first line (or, = length w, the end of file) on which the machine has no transition *)
  Fixpoint dpos (s : nat) (w : list kind) : option nat :=
    match w with
    | [] => match dstep s KEOF [] with Some _ => None | None => Some 0 end
    | k :: w' => match dstep s k w' with Some s' => option_map S (dpos s' w') | None => Some 0 end
    end.

  Lemma dpos_le : forall w s i, dpos s w = Some i -> i <= length w.
  Proof.
    induction w as [|k w IH]; intros s i D; cbn [dpos] in D.
    - destruct (dstep s KEOF []); [discriminate|]. inversion D. cbn. lia.
    - destruct (dstep s k w) as [s'|]; [|inversion D; lia].
      destruct (dpos s' w) as [i'|] eqn:D'; [|discriminate]. inversion D. specialize (IH s' i' D'). cbn [length]. lia.
  Qed.

  (* ---- side conditions (booleans, decided by vm_compute for the regenerated table) ---- *)
  Definition unguarded (z : test) : bool := match t_guard z with None => true | Some _ => false end.
  Fixpoint unguarded_follows (tests : list test) : bool :=
    match tests with
    | [] => true
    | y :: ys => (unguarded y || forallb (fun k => implb (ans (t_kind y) k) (existsb (fun z => ans (t_kind z) k && unguarded z) ys)) all_kinds)
                 && unguarded_follows ys
    end.
  Hypothesis HF1 : forall x, In x tbl -> unguarded_follows (s_tests x) = true.

  Definition skipk : list kind := [KEmpty; KComment; KTagLine; KLanguage].
  Definition is_skipk (k : kind) : bool := existsb (kind_beq k) skipk.
  Definition las_skip_ok : bool :=
    forallb (fun h => forallb (fun k => implb (existsb (fun s => ans s k) (la_skip h)) (is_skipk k)) all_kinds) las.
  Hypothesis Hskip : las_skip_ok = true.

  Variable Q : list nat.
  Definition memn (n : nat) (l : list nat) : bool := existsb (Nat.eqb n) l.
  (* every alternative of a guarded test leads into Q *)
  Definition q0_ok : bool :=
    forallb (fun x => forallb (fun y => unguarded y ||
       forallb (fun z => forallb (fun k => implb (ans (t_kind y) k && ans (t_kind z) k) (memn (t_tgt z) Q)) all_kinds) (s_tests x))
       (s_tests x)) tbl.
  (* in Q a skipped line always has a transition, and stays in Q *)
  Definition qstep_ok : bool :=
    forallb (fun s => match fstate s with
                      | None => false
                      | Some x => forallb (fun k => existsb (fun y => ans (t_kind y) k) (s_tests x)
                                                   && forallb (fun z => implb (ans (t_kind z) k) (memn (t_tgt z) Q)) (s_tests x)) skipk
                      end) Q.
  Hypothesis HQ0 : q0_ok = true.
  Hypothesis HQstep : qstep_ok = true.

  (* every target of a test is live: some word is accepted from it *)
  Hypothesis Hlive : forall x y, In x tbl -> In y (s_tests x) -> exists u, runN tbl [t_tgt y] u = true.

  (* ---- dsel ---- *)
  Lemma fstate_in s x : fstate s = Some x -> In x tbl.
  Proof. unfold NFA.find_state. intros F. apply find_some in F. tauto. Qed.

  Lemma exact_tail y ys : exact_at tbl las (y :: ys) -> exact_at tbl las ys.
  Proof. intros Ex pre z post E. apply (Ex (y :: pre) z post). now rewrite E. Qed.

  Lemma dsel_in tests k w' s' : dsel tests k w' = Some s' -> exists z, In z tests /\ ans (t_kind z) k = true /\ t_tgt z = s'.
  Proof.
    induction tests as [|y ys IH]; cbn [LanguageLink.dsel]; [discriminate|].
    destruct (ans (t_kind y) k) eqn:A.
    - destruct (t_guard y) as [hn|].
      + destruct (flook las hn) as [h|]; [|discriminate]. destruct (la_peek h w').
        * intros H. inversion H. exists y. cbn. auto.
        * intros H. destruct (IH H) as (z & Iz & Az & Tz). exists z. cbn. auto.
      + intros H. inversion H. exists y. cbn. auto.
    - intros H. destruct (IH H) as (z & Iz & Az & Tz). exists z. cbn. auto.
  Qed.

  Lemma dsel_unguarded tests k w' z : exact_at tbl las tests -> In z tests -> unguarded z = true -> ans (t_kind z) k = true ->
    dsel tests k w' <> None.
  Proof.
    induction tests as [|y ys IH]; intros Ex Iz Uz Az; [destruct Iz|].
    cbn [LanguageLink.dsel]. pose proof (Ex [] y ys eq_refl) as Ey.
    destruct Iz as [->|Iz].
    - rewrite Az. unfold unguarded in Uz. destruct (t_guard z); [discriminate | discriminate].
    - destruct (ans (t_kind y) k); [|apply IH; auto; exact (exact_tail _ _ Ex)].
      destruct (t_guard y) as [hn|]; [|discriminate].
      destruct Ey as (h & Fl & _). rewrite Fl. destruct (la_peek h w'); [discriminate|].
      apply IH; auto. exact (exact_tail _ _ Ex).
  Qed.

  (* a failure does not depend on what follows: no test answers the line *)
  Lemma dsel_none tests k w' : exact_at tbl las tests -> unguarded_follows tests = true -> dsel tests k w' = None ->
    forall y, In y tests -> ans (t_kind y) k = false.
  Proof.
    induction tests as [|y ys IH]; intros Ex F D z Iz; [destruct Iz|].
    cbn [unguarded_follows] in F. apply andb_prop in F as [Fy Fs].
    cbn [LanguageLink.dsel] in D. pose proof (Ex [] y ys eq_refl) as Ey.
    assert (Ay : ans (t_kind y) k = false).
    { destruct (ans (t_kind y) k) eqn:A; [|reflexivity]. exfalso.
      destruct (t_guard y) as [hn|] eqn:G; [|discriminate].
      unfold unguarded in Fy. rewrite G in Fy. cbn [orb] in Fy. rewrite forallb_forall in Fy.
      specialize (Fy k (all_kinds_complete k)). rewrite A in Fy. cbn [implb] in Fy.
      apply existsb_exists in Fy as (u & Iu & Hu). apply andb_prop in Hu as [Au Uu].
      destruct Ey as (h & Fl & _). rewrite Fl in D.
      destruct (la_peek h w'); [discriminate|].
      exact (dsel_unguarded ys k w' u (exact_tail _ _ Ex) Iu Uu Au D). }
    rewrite Ay in D. destruct Iz as [<-|Iz]; [exact Ay|].
    exact (IH (exact_tail _ _ Ex) Fs D z Iz).
  Qed.

  Lemma targets_none tests k : (forall y, In y tests -> ans (t_kind y) k = false) -> targets_tests tests k = [].
  Proof.
    induction tests as [|y ys IH]; intros H; [reflexivity|]. cbn [targets_tests]. unfold kmatches. fold (ans (t_kind y) k).
    rewrite (H y (or_introl eq_refl)). apply IH. intros z Iz. apply H. now right.
  Qed.

  Lemma dsel_in_targets tests k w' s' : dsel tests k w' = Some s' -> In s' (targets_tests tests k).
  Proof.
    induction tests as [|y ys IH]; cbn [LanguageLink.dsel targets_tests]; [discriminate|]. unfold kmatches. fold (ans (t_kind y) k).
    destruct (ans (t_kind y) k); [|exact IH].
    destruct (t_guard y) as [hn|]; [|intros H; inversion H; now left].
    destruct (flook las hn) as [h|]; [|discriminate]. destruct (la_peek h w'); [intros H; inversion H; now left | intros H; right; exact (IH H)].
  Qed.

  (* dsel_runN with the hypothesis on the look-aheads restricted to those consulted *)
  Lemma dsel_runN_loc tests k w' u : exact_at tbl las tests ->
    (forall y hn h, In y tests -> ans (t_kind y) k = true -> t_guard y = Some hn -> flook las hn = Some h ->
       la_peek h w' = pst_beq (prun h PScan u) PYes) ->
    existsb (fun s' => runN tbl [s'] u) (targets_tests tests k)
    = match dsel tests k w' with Some s' => runN tbl [s'] u | None => false end.
  Proof.
    induction tests as [|y ys IH]; intros Ex Pk; [reflexivity|].
    assert (Exs : exact_at tbl las ys) by exact (exact_tail _ _ Ex).
    assert (Pks : forall z hn h, In z ys -> ans (t_kind z) k = true -> t_guard z = Some hn -> flook las hn = Some h ->
              la_peek h w' = pst_beq (prun h PScan u) PYes) by (intros z hn h Iz; apply Pk; now right).
    cbn [targets_tests LanguageLink.dsel]. unfold kmatches. fold (ans (t_kind y) k).
    destruct (ans (t_kind y) k) eqn:A; [|apply IH; assumption].
    pose proof (Ex [] y ys eq_refl) as Ey.
    destruct (t_guard y) as [hn|] eqn:G; [|cbn [existsb]; now rewrite orb_false_r].
    destruct Ey as (h & Fl & Ef & E1 & E2). rewrite Fl. cbn [existsb].
    rewrite (Pk y hn h (or_introl eq_refl) A G Fl).
    destruct (runN tbl [t_tgt y] u) eqn:Ry.
    - rewrite (E1 _ Ry). cbn [pst_beq orb]. exact (eq_sym Ry).
    - cbn [orb]. destruct (pst_beq (prun h PScan u) PYes) eqn:Pq.
      + rewrite Ry. apply not_true_is_false. intros X. rewrite existsb_exists in X. destruct X as (s' & Hs' & Rs').
        apply (E2 k A s' Hs' _ Rs'). destruct (prun h PScan u); try discriminate. reflexivity.
      + apply IH; assumption.
  Qed.

  (* ---- the look-ahead automaton on a common prefix ---- *)
  Lemma prun_app h p a b : prun h p (a ++ b) = prun h (prun h p a) b.
  Proof. revert p. induction a as [|k a IH]; intros p; [reflexivity | apply IH]. Qed.

  Lemma prun_scan_skip h : In h las -> forall a, prun h PScan a = PScan -> Forall (fun k => is_skipk k = true) a.
  Proof.
    intros Ih. induction a as [|k a IH]; intros H; [constructor|]. cbn [prun pstep] in H.
    destruct (existsb (fun e => ans e k) (la_expected h)); [rewrite prun_absorb in H by discriminate; discriminate|].
    destruct (existsb (fun s => ans s k) (la_skip h)) eqn:Sk; [|rewrite prun_absorb in H by discriminate; discriminate].
    constructor; [|exact (IH H)].
    pose proof Hskip as A. unfold las_skip_ok in A. rewrite forallb_forall in A. specialize (A h Ih). rewrite forallb_forall in A.
    specialize (A k (all_kinds_complete k)). rewrite Sk in A. exact A.
  Qed.

  Lemma flook_in hn h : flook las hn = Some h -> In h las.
  Proof. unfold flook. intros F. apply find_some in F. tauto. Qed.

  (* ---- the safe set ---- *)
  Lemma memn_in n l : memn n l = true -> In n l.
  Proof. unfold memn. intros H. apply existsb_exists in H as (m & Im & E). apply Nat.eqb_eq in E. now subst. Qed.

  Lemma Q_step s k w' : In s Q -> is_skipk k = true ->
    exists s', dstep s k w' = Some s' /\ In s' Q.
  Proof.
    intros Is Sk. pose proof HQstep as A. unfold qstep_ok in A. rewrite forallb_forall in A. specialize (A s Is).
    unfold LanguageLink.dstep. change (find_state tbl s) with (fstate s).
    destruct (fstate s) as [x|] eqn:F; [|discriminate].
    assert (Ik : In k skipk).
    { unfold is_skipk in Sk. apply existsb_exists in Sk as (k' & Ik' & E). apply kind_beq_eq in E. now subst. }
    rewrite forallb_forall in A. specialize (A k Ik). apply andb_prop in A as [A1 A2].
    apply existsb_exists in A1 as (y & Iy & Ay).
    pose proof (fstate_in s x F) as Hx.
    destruct (dsel (s_tests x) k w') as [s'|] eqn:D.
    - exists s'. split; [reflexivity|]. destruct (dsel_in _ _ _ _ D) as (z & Iz & Az & Tz).
      rewrite forallb_forall in A2. specialize (A2 z Iz). rewrite Az in A2. subst s'. exact (memn_in _ _ A2).
    - exfalso. pose proof (dsel_none _ _ _ (Hexact x Hx) (HF1 x Hx) D y Iy) as N. congruence.
  Qed.

  Lemma Q_nofail : forall w s i, In s Q -> dpos s w = Some i ->
    Forall (fun k => is_skipk k = true) (firstn (S i) (w ++ [KEOF])) -> False.
  Proof.
    induction w as [|k w IH]; intros s i Is D F.
    - cbn [dpos] in D. destruct (dstep s KEOF []); [discriminate|]. inversion D; subst i. cbn in F. inversion F. discriminate.
    - cbn [dpos] in D. cbn [app firstn] in F. inversion F as [|? ? Sk Fr]; subst.
      destruct (Q_step s k w Is Sk) as (s' & St & Is'). rewrite St in D.
      destruct (dpos s' w) as [i'|] eqn:D'; [|discriminate]. inversion D; subst i. exact (IH s' i' Is' D' Fr).
  Qed.

  (* ---- not early: the lines up to the failing one are not a prefix of any accepted word ---- *)
  Theorem dpos_not_early : forall w s i, dpos s w = Some i ->
    forall u, runN tbl [s] (firstn (S i) (w ++ [KEOF]) ++ u) = false.
  Proof.
    induction w as [|k w IH]; intros s i D u.
    - cbn [dpos] in D. destruct (dstep s KEOF []) eqn:St; [discriminate|]. inversion D; subst i.
      cbn [app firstn]. rewrite runN_single_step. unfold targets. unfold LanguageLink.dstep in St. change (find_state tbl s) with (fstate s) in St.
      destruct (fstate s) as [x|] eqn:F; [|reflexivity].
      pose proof (fstate_in s x F) as Hx.
      rewrite (targets_none _ _ (dsel_none _ _ _ (Hexact x Hx) (HF1 x Hx) St)). reflexivity.
    - cbn [dpos] in D. cbn [app firstn]. rewrite runN_single_step. unfold targets.
      destruct (dstep s k w) as [s'|] eqn:St.
      + destruct (dpos s' w) as [i'|] eqn:D'; [|discriminate]. inversion D; subst i. clear D.
        unfold LanguageLink.dstep in St. change (find_state tbl s) with (fstate s) in St.
        destruct (fstate s) as [x|] eqn:F; [|discriminate].
        pose proof (fstate_in s x F) as Hx.
        set (H := firstn (S i') (w ++ [KEOF]) ++ u).
        rewrite (dsel_runN_loc (s_tests x) k w H (Hexact x Hx)).
        * rewrite St. exact (IH s' i' D' u).
        * intros y hn h Iy Ay Gy Fl.
          apply in_split in Iy as (pre & post & Ey).
          pose proof (Hexact x Hx pre y post Ey) as Xy. rewrite Gy in Xy. destruct Xy as (h0 & Fl0 & Ef & _).
          rewrite Fl in Fl0. inversion Fl0; subst h0.
          rewrite (la_peek_prun h w Ef).
          assert (Sp : w ++ [KEOF] = firstn (S i') (w ++ [KEOF]) ++ skipn (S i') (w ++ [KEOF])) by (symmetry; apply firstn_skipn).
          rewrite Sp. unfold H. rewrite !prun_app.
          destruct (prun h PScan (firstn (S i') (w ++ [KEOF]))) eqn:Pf; [|rewrite !prun_absorb by discriminate; reflexivity..].
          exfalso. pose proof (prun_scan_skip h (flook_in _ _ Fl) _ Pf) as Sk.
          destruct (dsel_in _ _ _ _ St) as (z & Iz & Az & Tz).
          assert (Is' : In s' Q).
          { pose proof HQ0 as A. unfold q0_ok in A. rewrite forallb_forall in A. specialize (A x Hx). rewrite forallb_forall in A.
            assert (Iy : In y (s_tests x)) by (rewrite Ey; apply in_or_app; right; now left).
            specialize (A y Iy). unfold unguarded in A. rewrite Gy in A. cbn [orb] in A.
            rewrite forallb_forall in A. specialize (A z Iz). rewrite forallb_forall in A. specialize (A k (all_kinds_complete k)).
            rewrite Ay, Az in A. cbn in A. subst s'. exact (memn_in _ _ A). }
          exact (Q_nofail w s' i' Is' D' Sk).
      + inversion D; subst i. cbn [firstn app]. unfold LanguageLink.dstep in St. change (find_state tbl s) with (fstate s) in St.
        change (NFA.find_state tbl s) with (fstate s).
        destruct (fstate s) as [x|] eqn:F; [|reflexivity].
        pose proof (fstate_in s x F) as Hx.
        rewrite (targets_none _ _ (dsel_none _ _ _ (Hexact x Hx) (HF1 x Hx) St)). reflexivity.
  Qed.

  (* ---- not late: the lines before the failing one are a prefix of an accepted word ---- *)
  Theorem dpos_not_late : forall w s i, dpos s w = Some i -> (exists u, runN tbl [s] u = true) ->
    exists u, runN tbl [s] (firstn i w ++ u) = true.
  Proof.
    induction w as [|k w IH]; intros s i D L.
    - cbn [dpos] in D. destruct (dstep s KEOF []); [discriminate|]. inversion D; subst. exact L.
    - cbn [dpos] in D. destruct (dstep s k w) as [s'|] eqn:St; [|inversion D; subst; exact L].
      destruct (dpos s' w) as [i'|] eqn:D'; [|discriminate]. inversion D; subst i. clear D.
      unfold LanguageLink.dstep in St. change (find_state tbl s) with (fstate s) in St.
      destruct (fstate s) as [x|] eqn:F; [|discriminate].
      pose proof (fstate_in s x F) as Hx.
      destruct (dsel_in _ _ _ _ St) as (z & Iz & Az & Tz).
      destruct (IH s' i' D') as (u & Hu); [subst s'; exact (Hlive x z Hx Iz)|].
      exists u. cbn [firstn app]. rewrite runN_single_step. apply existsb_exists. exists s'. split; [|exact Hu].
      unfold targets. change (NFA.find_state tbl s) with (fstate s). rewrite F. exact (dsel_in_targets _ _ _ _ St).
  Qed.
End ErrPos.
