(* C11: all ids handed out through one stream -- AST nodes and pickles of all its documents, accepted or
   rejected ones in between -- are pairwise distinct. *)
From Coq Require Import String List Bool Arith Lia.
Import ListNotations.
Require Import Kinds PyStr Line Matcher Ast Builder Compiler CompilerSpec Pipeline PipelineFacts Dialects Stream StreamFacts AstIds.

Definition env_ids (e : envelope) : list nat :=
  match e with
  | EnvDocument _ d => doc_ids d
  | EnvPickle p => pickle_ids p
  | _ => []
  end.
Definition envs_ids (es : list envelope) : list nat := flat_map env_ids es.

Definition good_ids (lo hi : nat) (L : list nat) : Prop := NoDup L /\ Forall (fun x => lo <= x < hi) L.

Lemma NoDup_app_l {A} (l1 l2 : list A) : NoDup (l1 ++ l2) -> NoDup l1.
Proof. induction l1 as [|a l1 IH]; intros H; [constructor|]. inversion H; subst. constructor; [intros X; apply H2; apply in_or_app; now left | auto]. Qed.
Lemma NoDup_app_r {A} (l1 l2 : list A) : NoDup (l1 ++ l2) -> NoDup l2.
Proof. induction l1 as [|a l1 IH]; intros H; [exact H|]. inversion H; subst. auto. Qed.
Lemma good_sublist lo hi A B : good_ids lo hi (A ++ B) -> good_ids lo hi A /\ good_ids lo hi B.
Proof.
  intros [N F]. apply Forall_app in F as [FA FB]. split; split; auto.
  - eapply NoDup_app_l; eauto.
  - eapply NoDup_app_r; eauto.
Qed.

Lemma errors_no_ids uri es : envs_ids (create_errors uri es) = [].
Proof. unfold envs_ids, create_errors. induction es; cbn; auto. Qed.
Lemma pickles_env_ids ps : envs_ids (map EnvPickle ps) = flat_map pickle_ids ps.
Proof. unfold envs_ids. induction ps as [|p r IH]; cbn; [reflexivity|]. now rewrite IH. Qed.

(* one source: its ids lie between the counter before and after, pairwise distinct *)
Theorem enum_source_ids o idc uri data es i : enum_source o idc uri data = Some (es, i) ->
  idc <= i /\ good_ids idc i (envs_ids es).
Proof.
  intros H. pose proof (enum_source_counter _ _ _ _ _ _ H) as Le. split; [exact Le|].
  unfold enum_source in H. destruct (new_matcher dialects EN) as [m0|]; [|discriminate].
  destruct (parse_source (stop_first o) m0 (new_builder idc) data) as [d m b n|errs m b n|e m b n| |] eqn:P; try discriminate.
  - cbv zeta in H. destruct (print_pickles o).
    + destruct (compile uri d (b_idc b)) as [[ps i']|] eqn:C; [|discriminate]. inversion H; subst. clear H.
      destruct (source_ids_distinct _ _ _ _ _ _ _ _ _ _ _ P C) as [N F]. cbn [b_idc new_builder] in F.
      unfold envs_ids. rewrite flat_map_app. fold (envs_ids (map EnvPickle ps)). rewrite pickles_env_ids.
      assert (G : good_ids idc i (doc_ids d ++ flat_map pickle_ids ps)) by (split; assumption).
      destruct (good_sublist _ _ _ _ G) as [Gd Gp].
      destruct (print_source o), (print_ast o); cbn [app flat_map env_ids]; rewrite ?app_nil_r; auto.
    + inversion H; subst. clear H. destruct (ast_ids _ _ _ _ _ _ _ _ P) as (L & N & F). cbn [b_idc new_builder] in F.
      unfold envs_ids. destruct (print_source o), (print_ast o); cbn [app flat_map env_ids]; rewrite ?app_nil_r; split; auto; constructor.
  - inversion H; subst. rewrite errors_no_ids. split; constructor.
  - inversion H; subst. cbn. split; constructor.
Qed.

Lemma good_join lo mid hi A B : lo <= mid -> mid <= hi -> good_ids lo mid A -> good_ids mid hi B -> good_ids lo hi (A ++ B).
Proof.
  intros L1 L2 [NA FA] [NB FB]. rewrite Forall_forall in FA, FB. split.
  - apply NoDup_app'; auto. intros x Ha Hb. specialize (FA x Ha). specialize (FB x Hb). lia.
  - apply Forall_forall. intros x Hx. apply in_app_or in Hx as [Hx|Hx]; [specialize (FA x Hx) | specialize (FB x Hx)]; lia.
Qed.

(* a whole stream *)
Theorem enum_sources_ids o : forall srcs idc es i, enum_sources o idc srcs = Some (es, i) ->
  idc <= i /\ good_ids idc i (envs_ids es).
Proof.
  induction srcs as [|[uri data] r IH]; intros idc es i; cbn [enum_sources].
  - intros E. inversion E; subst. split; [lia | split; constructor].
  - destruct (enum_source o idc uri data) as [[es0 i0]|] eqn:E0; [|discriminate].
    destruct (enum_sources o i0 r) as [[es1 i1]|] eqn:E1; [|discriminate]. intros E. inversion E; subst.
    destruct (enum_source_ids _ _ _ _ _ _ E0) as [L0 G0]. destruct (IH _ _ _ E1) as [L1 G1].
    split; [lia|]. unfold envs_ids. rewrite flat_map_app. eapply good_join; eauto.
Qed.
