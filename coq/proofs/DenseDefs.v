(* C11 (density and canonical order of AST ids): an abstraction of the AST builder's stack over the
   transition table that records, per open node, how far the node's children have progressed through the
   order in which transform_node will read them (e.g. Feature: an optional Background, then ScenarioDefinitions, then Rules),
   whether a header node has its keyword line, and whether a Feature / Rule node has its header.
   An unverified explorer computes the map; `dense_ok` checks it against every transition. *)
From Coq Require Import List Bool Arith.
Import ListNotations.
Require Import Kinds PyStr Line Matcher Ast Builder.

(* the id-bearing children of a node, in the order transform_node reads them; true = any number *)
Definition pat (r : rule) : list (key * bool) :=
  match r with
  | RGherkinDocument => [(KR RFeature, false)]
  | RFeature => [(KR RBackground, false); (KR RScenarioDefinition, true); (KR RRule, true)]
  | RRule => [(KR RBackground, false); (KR RScenarioDefinition, true)]
  | RBackground => [(KR RStep, true)]
  | RScenarioDefinition => [(KR RScenario, false)]
  | RScenario => [(KR RStep, true); (KR RExamplesDefinition, true)]
  | RExamplesDefinition => [(KR RExamples, false)]
  | RExamples => [(KR RExamplesTable, false)]
  | RStep => [(KR RDataTable, false)]
  | _ => []
  end.
(* rules whose value carries no id *)
Definition idfree_rule (x : rule) : bool :=
  match x with RTags | RDescription | RDocString | RFeatureHeader | RRuleHeader => true | _ => false end.

Fixpoint pindex (p : list (key * bool)) (q : key) : option (nat * bool) :=
  match p with
  | [] => None
  | (k, many) :: r => if key_beq k q then Some (0, many)
                      else match pindex r q with Some (j, m) => Some (S j, m) | None => None end
  end.

Definition pstate := (nat * bool)%type.          (* current phase, something seen in it *)
Definition pstep (p : list (key * bool)) (st : pstate) (q : key) : option pstate :=
  match pindex p q with
  | None => Some st
  | Some (j, many) =>
    if j <? fst st then None
    else if j =? fst st then (if many then Some (j, true) else if snd st then None else Some (j, true))
    else Some (j, true)
  end.
Fixpoint prun (p : list (key * bool)) (st : pstate) (w : list key) : option pstate :=
  match w with
  | [] => Some st
  | q :: r => match pstep p st q with Some st' => prun p st' r | None => None end
  end.

Record aframe := mk_aframe { af_rule : rule; af_st : pstate; af_line : bool; af_hdr : bool }.
Definition dstk := list aframe.

(* the keyword line of a header rule; the header rule of a Feature / Rule *)
Definition hdr_line (x : rule) : option kind :=
  match x with RFeatureHeader => Some KFeatureLine | RRuleHeader => Some KRuleLine | _ => None end.
Definition hdr_of (x : rule) : option rule :=
  match x with RFeature => Some RFeatureHeader | RRule => Some RRuleHeader | _ => None end.
Definition is_hdr_line (x : rule) (k : kind) : bool :=
  match hdr_line x with Some k' => kind_beq k' k | None => false end.
Definition is_hdr_of (parent x : rule) : bool :=
  match hdr_of parent with Some h => rule_beq h x | None => false end.
Definition is_header (x : rule) : bool := match hdr_line x with Some _ => true | None => false end.
Definition needs_header (x : rule) : bool := match hdr_of x with Some _ => true | None => false end.

Definition d_prod (k : kind) (p : prod) (stk : dstk) : option dstk :=
  match p with
  | PS x => match stk with [] => None | _ => Some (mk_aframe x (0, false) false false :: stk) end
  | PB =>
    match stk with
    | f :: tl => if kind_beq k KComment then Some stk
                 else Some (mk_aframe (af_rule f) (af_st f) (af_line f || is_hdr_line (af_rule f) k) (af_hdr f) :: tl)
    | [] => None
    end
  | PE x =>
    match stk with
    | f :: tl =>
      if rule_beq x (af_rule f)
         && (negb (is_header x) || af_line f)
         && (negb (needs_header x) || af_hdr f)
      then
        match tl with
        | pf :: tl' =>
          match pindex (pat (af_rule pf)) (KR x) with
          | Some _ =>
            match pstep (pat (af_rule pf)) (af_st pf) (KR x) with
            | Some st' => Some (mk_aframe (af_rule pf) st' (af_line pf) (af_hdr pf) :: tl')
            | None => None
            end
          | None => if idfree_rule x then Some (mk_aframe (af_rule pf) (af_st pf) (af_line pf) (af_hdr pf || is_hdr_of (af_rule pf) x) :: tl') else None
          end
        | [] => None
        end
      else None
    | [] => None
    end
  end.
Fixpoint d_prods (k : kind) (ps : list prod) (stk : dstk) : option dstk :=
  match ps with
  | [] => Some stk
  | p :: r => match d_prod k p stk with Some s' => d_prods k r s' | None => None end
  end.

(* order: the recorded frame is an upper bound of the progress and a lower bound of the flags *)
Definition ps_le (a b : pstate) : bool := (fst a <? fst b) || ((fst a =? fst b) && implb (snd a) (snd b)).
Definition af_le (a b : aframe) : bool :=
  rule_beq (af_rule a) (af_rule b) && ps_le (af_st a) (af_st b)
  && implb (af_line b) (af_line a) && implb (af_hdr b) (af_hdr a).
Fixpoint dstk_le (a b : dstk) : bool :=
  match a, b with
  | [], [] => true
  | x :: a', y :: b' => af_le x y && dstk_le a' b'
  | _, _ => false
  end.
Definition ps_join (a b : pstate) : pstate := if ps_le a b then b else a.
Definition af_join (a b : aframe) : aframe :=
  mk_aframe (af_rule a) (ps_join (af_st a) (af_st b)) (af_line a && af_line b) (af_hdr a && af_hdr b).
Fixpoint dstk_join (a b : dstk) : dstk :=
  match a, b with
  | x :: a', y :: b' => af_join x y :: dstk_join a' b'
  | _, _ => []
  end.

Definition dmap := list (nat * dstk).
Fixpoint dlookup (s : nat) (b : dmap) : option dstk :=
  match b with [] => None | (n, stk) :: t => if Nat.eqb n s then Some stk else dlookup s t end.

Definition aframe0 := mk_aframe RGherkinDocument (0, false) false false.

Section WithTable.
  Variable tbl : list st.

  (* every transition leads from the recorded stack of its state to a stack below the recorded stack of its target *)
  Definition dense_ok (s0 : nat) (b : dmap) : bool :=
    match dlookup s0 b with Some [f] => af_le aframe0 f | _ => false end
    && forallb (fun x =>
         match dlookup (s_id x) b with
         | None => false
         | Some stk =>
           forallb (fun y =>
             match d_prods (t_kind y) (t_prods y) stk with
             | None => false
             | Some stk' => match dlookup (t_tgt y) b with Some rec => dstk_le stk' rec | None => false end
             end) (s_tests x)
         end) tbl.

  (* ---- explorer (unverified) ---- *)
  Fixpoint dupdate (s : nat) (stk : dstk) (b : dmap) : dmap :=
    match b with
    | [] => [(s, stk)]
    | (n, old) :: t => if Nat.eqb n s then (n, dstk_join old stk) :: t else (n, old) :: dupdate s stk t
    end.
  Definition dround (b : dmap) : dmap :=
    fold_left (fun b x =>
      match dlookup (s_id x) b with
      | None => b
      | Some stk =>
        fold_left (fun b y =>
          match d_prods (t_kind y) (t_prods y) stk with
          | Some stk' => dupdate (t_tgt y) stk' b
          | None => b
          end) (s_tests x) b
      end) tbl b.
  Fixpoint drounds (n : nat) (b : dmap) : dmap := match n with 0 => b | S n' => drounds n' (dround b) end.
End WithTable.
