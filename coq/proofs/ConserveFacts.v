(* C03 (conservation): transform_node keeps the elements of a node, in order. *)
From Coq Require Import List Bool Arith Lia.
From Coq Require NArith.
Import ListNotations.
Require Import Kinds PyStr Line Matcher Ast Builder BuilderSafe AstIds DenseDefs DenseFacts DenseStack OrdDefs OrdFacts ConserveDefs LocationFacts.

(* the elements of a value / of the items of a node, in insertion order *)
Fixpoint vsrc (v : value) : list elem :=
  match v with
  | VTok _ => []
  | VNode n => nsrc n
  | VStep s => step_elems s
  | VDocString d => EDoc (ds_loc d) (ds_delim d) (ds_media d) :: text_elems (ds_content d)
  | VDataTable _ rows => row_elems rows
  | VBackground b => bg_elems b
  | VScenario s => sc_elems s
  | VExamples e => ex_elems e
  | VRows rs => row_elems rs
  | VDesc s => text_elems s
  | VRule r => ru_elems r
  | VFeature f => f_elems f
  | VDocument d => doc_elems d
  | VNone => []
  end
with nsrc (n : node) : list elem :=
  match n with
  | Node _ items => (fix go (l : list (key * value)) : list elem :=
                       match l with
                       | [] => []
                       | (k, v) :: r => match k, v with KT kd, VTok t => tok_elems kd t | _, _ => vsrc v end ++ go r
                       end) items
  end.
Definition ic3 (kv : key * value) : list elem :=
  match fst kv, snd kv with KT kd, VTok t => tok_elems kd t | _, v => vsrc v end.
Notation iids3 := (ciids ic3).
Notation grp3 := (cgrp ic3).
Notation groups3 := (cgroups ic3).

Lemma ic3_node x m : ic3 (KR x, VNode m) = nsrc m.
Proof. reflexivity. Qed.
Lemma nsrc_eq rt items : nsrc (Node rt items) = iids3 items.
Proof. cbn [nsrc]. unfold ciids. induction items as [|[k v] r IH]; cbn [flat_map]; [reflexivity|]. rewrite IH. destruct k; destruct v; reflexivity. Qed.
Lemma nsrc_items n : nsrc n = iids3 (node_items n).
Proof. destruct n. apply nsrc_eq. Qed.

Lemma grp3_rule n x : grp3 (node_items n) (KR x) = flat_map vsrc (get_items n (KR x)).
Proof.
  unfold cgrp, get_items, kfilter. induction (node_items n) as [|[k v] r IH]; cbn; [reflexivity|].
  destruct k as [kd|y|]; cbn; try exact IH. destruct (rule_beq y x); cbn; [|exact IH]. now rewrite IH.
Qed.
Lemma grp3_tok n k ts : get_tokens n k = Some ts -> grp3 (node_items n) (KT k) = flat_map (tok_elems k) ts.
Proof.
  unfold get_tokens, get_items, cgrp, kfilter. revert ts. induction (node_items n) as [|[k0 v] r IH]; intros ts H; cbn in *.
  - inversion H. reflexivity.
  - destruct k0 as [kd|y|]; cbn in *; try (apply IH; exact H).
    destruct (kind_beq kd k) eqn:E; cbn in *; [|apply IH; exact H].
    apply kind_beq_eq in E. subst kd. destruct v; try discriminate. destruct (toks_of _) as [l|] eqn:T; [|discriminate]. inversion H; subst.
    cbn. rewrite (IH l eq_refl). reflexivity.
Qed.
Lemma grp3_token n k t : length (kfilter (KT k) (node_items n)) <= 1 -> get_token n k = Some (Some t) -> grp3 (node_items n) (KT k) = tok_elems k t.
Proof.
  unfold get_token. intros L H. destruct (get_single n (KT k)) as [v|] eqn:G; [|discriminate]. destruct v; try discriminate. inversion H; subst.
  rewrite (single_cgrp ic3 _ _ _ L G). reflexivity.
Qed.

Lemma steps_of_elems vs steps : steps_of vs = Some steps -> flat_map step_elems steps = flat_map vsrc vs.
Proof.
  revert steps. induction vs as [|v r IH]; intros steps H; cbn in H; [inversion H; reflexivity|].
  destruct v; try discriminate H. destruct (steps_of r) as [l|]; [|discriminate H]. inversion H; subst. cbn [flat_map vsrc]. now rewrite (IH l eq_refl).
Qed.
Lemma scenarios_of_elems vs l : scenarios_of vs = Some l -> flat_map sc_elems l = flat_map vsrc vs.
Proof.
  revert l. induction vs as [|v r IH]; intros l H; cbn in H; [inversion H; reflexivity|].
  destruct v; try discriminate H. destruct (scenarios_of r) as [l0|]; [|discriminate H]. inversion H; subst. cbn [flat_map vsrc]. now rewrite (IH l0 eq_refl).
Qed.
Lemma examples_of_elems vs l : examples_of vs = Some l -> flat_map ex_elems l = flat_map vsrc vs.
Proof.
  revert l. induction vs as [|v r IH]; intros l H; cbn in H; [inversion H; reflexivity|].
  destruct v; try discriminate H. destruct (examples_of r) as [l0|]; [|discriminate H]. inversion H; subst. cbn [flat_map vsrc]. now rewrite (IH l0 eq_refl).
Qed.
Lemma rules_of_elems vs l : rules_of vs = Some l ->
  flat_map (fun r => match r with Some x => ru_elems x | None => [] end) l = flat_map vsrc vs.
Proof.
  revert l. induction vs as [|v r IH]; intros l H; cbn in H; [inversion H; reflexivity|].
  destruct v; try discriminate H; (destruct (rules_of r) as [l0|]; [|discriminate H]); inversion H; subst; cbn [flat_map vsrc]; now rewrite (IH l0 eq_refl).
Qed.

Lemma tags_of_items_elems t its : forall i tags i', tags_of_items t its i = (tags, i') ->
  tag_elems tags = map (fun it => ETag (get_location t (Some (fst it))) (snd it)) its.
Proof.
  induction its as [|[c x] r IH]; intros i tags i' H; cbn in H.
  - inversion H; subst. reflexivity.
  - destruct (tags_of_items t r (S i)) as [tl j] eqn:E. inversion H; subst. cbn. f_equal. apply (IH _ _ _ E).
Qed.
Lemma tags_of_tokens_elems ts : forall i tags i', tags_of_tokens ts i = (tags, i') -> tag_elems tags = flat_map (tok_elems KTagLine) ts.
Proof.
  induction ts as [|t r IH]; intros i tags i' H; cbn in H.
  - inversion H; subst. reflexivity.
  - destruct (tags_of_items t (m_items t) i) as [a i1] eqn:E1. destruct (tags_of_tokens r i1) as [b i2] eqn:E2. inversion H; subst.
    unfold tag_elems. rewrite map_app. cbn [flat_map]. f_equal; [apply (tags_of_items_elems _ _ _ _ _ E1) | apply (IH _ _ _ E2)].
Qed.
Lemma rows_of_tokens_elems ts : forall i rows i', rows_of_tokens ts i = (rows, i') -> row_elems rows = flat_map (tok_elems KTableRow) ts.
Proof.
  induction ts as [|t r IH]; intros i rows i' H; cbn in H.
  - inversion H; subst. reflexivity.
  - destruct (rows_of_tokens r (S i)) as [rs j] eqn:E. inversion H; subst. cbn. f_equal. apply (IH _ _ _ E).
Qed.
Lemma get_table_rows_elems n i rows i' : get_table_rows n i = TOk rows i' -> row_elems rows = grp3 (node_items n) (KT KTableRow).
Proof.
  unfold get_table_rows. destruct (get_tokens n KTableRow) as [ts|] eqn:G; [|discriminate].
  destruct (rows_of_tokens ts i) as [rs j] eqn:E. destruct (first_ragged rs); [discriminate|]. intros H. inversion H; subst.
  rewrite (grp3_tok _ _ _ G). apply (rows_of_tokens_elems _ _ _ _ E).
Qed.

Notation cflat3 := (cflat ic3 cpat).
Notation citem_ok3 := (citem_ok ic3 cpat).
Notation cnrel3 := (cnrel ic3 cpat cxr cfo).

Lemma citem_single n k v : Forall citem_ok3 (node_items n) -> get_single n k = Some v -> citem_ok3 (k, v).
Proof. intros F H. rewrite Forall_forall in F. apply F. apply get_single_in. exact H. Qed.

(* ---- free text: descriptions and doc-string contents ---- *)
Lemma split_chr_app c a b : split_chr c (a ++ c :: b) = split_chr c a ++ split_chr c b.
Proof.
  induction a as [|x a IH]; cbn.
  - rewrite BinNat.N.eqb_refl. reflexivity.
  - destruct (BinNat.N.eqb x c); [now rewrite IH|]. rewrite IH. destruct (split_chr c a) as [|p ps] eqn:E; [|reflexivity].
    exfalso. eapply split_chr_nonempty; eauto.
Qed.
Lemma split_join c ts : ts <> [] -> split_chr c (join [c] ts) = flat_map (split_chr c) ts.
Proof.
  induction ts as [|t r IH]; intros H; [congruence|]. destruct r as [|t2 r'].
  - cbn. now rewrite app_nil_r.
  - change (join [c] (t :: t2 :: r')) with (t ++ [c] ++ join [c] (t2 :: r')). cbn [app]. rewrite split_chr_app, IH by discriminate. reflexivity.
Qed.
Lemma text_elems_join ts : text_elems (join [LF] ts) = flat_map text_elems ts.
Proof.
  destruct ts as [|t r]; [reflexivity|]. unfold text_elems. rewrite split_join by discriminate.
  generalize (t :: r). intros l. induction l as [|x l IH]; cbn [flat_map]; [reflexivity|].
  rewrite filter_app, map_app, IH. reflexivity.
Qed.
Lemma blank_pieces c s : forallb is_space s = true -> forallb (fun p => forallb is_space p) (split_chr c s) = true.
Proof.
  induction s as [|x s IH]; cbn; [reflexivity|]. intros H. apply andb_prop in H as [Hx Hs]. specialize (IH Hs).
  destruct (BinNat.N.eqb x c); cbn; [exact IH|]. destruct (split_chr c s) as [|p ps]; cbn in *; [now rewrite Hx|].
  apply andb_prop in IH as [I1 I2]. now rewrite Hx, I1, I2.
Qed.
Lemma text_elems_blank s : forallb is_space s = true -> text_elems s = [].
Proof.
  intros H. unfold text_elems. pose proof (blank_pieces LF s H) as B. induction (split_chr LF s) as [|p ps IH]; [reflexivity|].
  cbn in B. apply andb_prop in B as [B1 B2]. cbn. unfold nonblank at 1. rewrite B1. cbn. apply IH, B2.
Qed.
Lemma other_elems_blank t : blank_text t = true -> tok_elems KOther t = [].
Proof. unfold blank_text, tok_elems. destruct (m_text t); [apply text_elems_blank | reflexivity]. Qed.
Lemma drop_trailing_elems ts : flat_map (tok_elems KOther) (drop_trailing_blank ts) = flat_map (tok_elems KOther) ts.
Proof.
  induction ts as [|t r IH]; [reflexivity|]. cbn [drop_trailing_blank flat_map].
  destruct (drop_trailing_blank r) as [|x r'] eqn:E.
  - rewrite <- IH. cbn [flat_map]. rewrite app_nil_r. destruct (blank_text t) eqn:B; cbn [flat_map]; [now rewrite (other_elems_blank t B) | now rewrite app_nil_r].
  - cbn [flat_map]. rewrite <- IH. reflexivity.
Qed.
Lemma texts_of_elems ts texts : texts_of ts = Some texts -> flat_map (tok_elems KOther) ts = flat_map text_elems texts.
Proof.
  revert texts. induction ts as [|t r IH]; intros texts H; cbn in H; [inversion H; reflexivity|].
  destruct (m_text t) as [x|] eqn:T; [|discriminate]. destruct (texts_of r) as [l|]; [|discriminate]. inversion H; subst.
  cbn [flat_map]. rewrite (IH l eq_refl). unfold tok_elems at 1. rewrite T. reflexivity.
Qed.
Lemma get_description_elems n desc : length (kfilter (KR RDescription) (node_items n)) <= 1 ->
  get_description n = Some desc -> text_elems desc = grp3 (node_items n) (KR RDescription).
Proof.
  intros L. unfold get_description. destruct (get_single n (KR RDescription)) as [v|] eqn:G.
  - rewrite (single_cgrp ic3 _ _ _ L G). destruct v; try discriminate. intros H. inversion H; subst. reflexivity.
  - intros H. inversion H; subst. rewrite (none_cgrp ic3 _ _ G). reflexivity.
Qed.

(* the tags of a node that holds a Tags child *)
Lemma get_tags_elems n i tags i1 : Forall citem_ok3 (node_items n) -> length (kfilter (KR RTags) (node_items n)) <= 1 ->
  get_tags n i = TOk tags i1 -> tag_elems tags = grp3 (node_items n) (KR RTags).
Proof.
  intros F L. unfold get_tags. destruct (get_single n (KR RTags)) as [v|] eqn:G.
  - rewrite (single_cgrp ic3 _ _ _ L G). pose proof (citem_single _ _ _ F G) as IO.
    destruct v; try discriminate. cbn in IO. destruct IO as (_ & [Fa _] & _).
    destruct (get_tokens n0 KTagLine) as [ts|] eqn:Gt; [|discriminate]. destruct (tags_of_tokens ts i) as [tg j] eqn:E. intros H. inversion H; subst.
    rewrite ic3_node, nsrc_items, Fa. cbn [cpat cgroups]. rewrite app_nil_r, (grp3_tok _ _ _ Gt).
    apply (tags_of_tokens_elems _ _ _ _ E).
  - intros H. inversion H; subst. rewrite (none_cgrp ic3 _ _ G). reflexivity.
Qed.

Definition keep_post (n : node) (r : tres value) : Prop :=
  match r with TOk v _ => vsrc v = iids3 (node_items n) | _ => True end.

Ltac start_rule Hr N Sg F Xo :=
  let Fi := fresh "Fi" in
  lazymatch goal with
  | H : cnrel3 ?af ?n |- _ =>
    destruct H as ((Rt & N & Sg & F & Xo & Fi) & _); rewrite Hr in *; unfold transform_node; rewrite Rt; unfold tbind, opt_crash; cbn [cpat cgroups] in N
  end.

Lemma keep_rows af n c i : cnrel3 af n -> af_rule af = RDataTable \/ af_rule af = RExamplesTable -> keep_post n (transform_node n c i).
Proof.
  intros H [Hr|Hr]; start_rule Hr N Sg F Xo; rewrite app_nil_r in N;
    destruct (get_table_rows n i) as [rows i'|e i'|] eqn:G; cbn [keep_post]; auto.
  - destruct rows; cbn [keep_post]; auto. cbn [vsrc]. rewrite N. apply (get_table_rows_elems _ _ _ _ G).
  - cbn [vsrc]. rewrite N. apply (get_table_rows_elems _ _ _ _ G).
Qed.

Lemma keep_description af n c i : cnrel3 af n -> af_rule af = RDescription -> keep_post n (transform_node n c i).
Proof.
  intros H Hr. start_rule Hr N Sg F Xo. rewrite app_nil_r in N.
  destruct (get_tokens n KOther) as [lines|] eqn:G; cbn [keep_post]; auto.
  destruct (texts_of (drop_trailing_blank lines)) as [texts|] eqn:T; cbn [keep_post]; auto.
  cbn [vsrc]. rewrite N, (grp3_tok _ _ _ G), text_elems_join, <- (texts_of_elems _ _ T). apply drop_trailing_elems.
Qed.

Lemma keep_docstring af n c i : cnrel3 af n -> af_rule af = RDocString -> keep_post n (transform_node n c i).
Proof.
  intros H Hr. destruct H as ((Rt & N & Sg & F & Xo & Fi) & _). rewrite Hr in *. unfold transform_node. rewrite Rt. unfold opt_crash.
  cbn [cpat cgroups] in N. rewrite app_nil_r in N.
  cbn [cfo] in Fi. inversion Fi as [|k0 ks Fi1 _]; subst. unfold fo_inv in Fi1.
  destruct (get_tokens n KDocStringSeparator) as [[|sep seps]|] eqn:Gs; cbn [keep_post]; auto.
  destruct (m_text sep) as [mt|] eqn:Mt; cbn [keep_post]; auto. destruct (m_keyword sep) as [delim|] eqn:Mk; cbn [keep_post]; auto.
  destruct (get_tokens n KOther) as [lines|] eqn:G; cbn [keep_post]; auto.
  destruct (texts_of lines) as [texts|] eqn:T; cbn [keep_post]; auto.
  cbn [vsrc ds_content ds_loc ds_delim ds_media]. rewrite N, (grp3_tok _ _ _ G), text_elems_join, <- (texts_of_elems _ _ T).
  (* the delimiters: the first one is `sep`, the others carry nothing *)
  assert (Es : grp3 (node_items n) (KT KDocStringSeparator) = tok_elems KDocStringSeparator sep).
  { unfold get_tokens, get_items in Gs. fold (kfilter (KT KDocStringSeparator) (node_items n)) in Gs. unfold cgrp.
    destruct (kfilter (KT KDocStringSeparator) (node_items n)) as [|[k1 v1] rest] eqn:Kf; [discriminate|].
    assert (Hin : In (k1, v1) (kfilter (KT KDocStringSeparator) (node_items n))) by (rewrite Kf; now left).
    apply filter_In in Hin as [_ Hk]. cbn in Hk. apply key_beq_eq in Hk. subst k1.
    cbn [map snd toks_of] in Gs. destruct v1; try discriminate. destruct (toks_of (map snd rest)); [|discriminate]. inversion Gs; subst.
    cbn [flat_map]. rewrite Fi1, app_nil_r. reflexivity. }
  rewrite Es. unfold tok_elems. rewrite Mt, Mk. reflexivity.
Qed.

Lemma line_elem k t kw text : m_keyword t = Some kw -> m_text t = Some text ->
  In k [KFeatureLine; KRuleLine; KBackgroundLine; KScenarioLine; KExamplesLine; KStepLine] ->
  tok_elems k t = [ELine k (get_location t None) kw text].
Proof. intros K T Hin. unfold tok_elems. rewrite K, T. cbn in Hin. repeat (destruct Hin as [<-|Hin]; [reflexivity|]). contradiction. Qed.

Lemma keep_step af n c i : cnrel3 af n -> af_rule af = RStep -> keep_post n (transform_node n c i).
Proof.
  intros H Hr. start_rule Hr N Sg F Xo. rewrite app_nil_r in N.
  destruct (Sg (KT KStepLine) 0 false eq_refl) as [_ L0]. specialize (L0 eq_refl).
  destruct (Sg (KR RDataTable) 1 false eq_refl) as [_ L1]. specialize (L1 eq_refl).
  destruct (Sg (KR RDocString) 2 false eq_refl) as [_ L2]. specialize (L2 eq_refl).
  cbn [cxr] in Xo. inversion Xo as [|pr prs Xo1 _]; subst. cbn [fst snd] in Xo1.
  destruct (get_token n KStepLine) as [[sl|]|] eqn:Gl; cbn [keep_post]; auto.
  rewrite (grp3_token _ _ _ L0 Gl) in N.
  destruct (m_keyword sl) eqn:K; cbn [keep_post]; auto. destruct (m_ktype sl); cbn [keep_post]; auto. destruct (m_text sl) eqn:T; cbn [keep_post]; auto.
  rewrite (line_elem KStepLine sl _ _ K T) in N by (cbn; tauto).
  destruct (get_single n (KR RDataTable)) as [v|] eqn:Gd.
  - assert (Ed : grp3 (node_items n) (KR RDocString) = []).
    { destruct Xo1 as [X|X]; [|unfold cgrp; now rewrite X]. exfalso.
      unfold get_single, get_items in Gd. fold (kfilter (KR RDataTable) (node_items n)) in Gd. rewrite X in Gd. discriminate. }
    rewrite (single_cgrp ic3 _ _ _ L1 Gd), Ed, app_nil_r in N. destruct v; cbn [keep_post]; auto; try (rewrite N; reflexivity).
  - rewrite (none_cgrp ic3 _ _ Gd) in N.
    destruct (get_single n (KR RDocString)) as [v|] eqn:Gs.
    + rewrite (single_cgrp ic3 _ _ _ L2 Gs) in N. destruct v; cbn [keep_post]; auto; try (rewrite N; reflexivity).
    + rewrite (none_cgrp ic3 _ _ Gs) in N. cbn [keep_post]. rewrite N. reflexivity.
Qed.

Lemma keep_background af n c i : cnrel3 af n -> af_rule af = RBackground -> keep_post n (transform_node n c i).
Proof.
  intros H Hr. start_rule Hr N Sg F Xo. rewrite app_nil_r in N.
  destruct (Sg (KT KBackgroundLine) 0 false eq_refl) as [_ L0]. specialize (L0 eq_refl).
  destruct (Sg (KR RDescription) 1 false eq_refl) as [_ L1]. specialize (L1 eq_refl).
  destruct (get_token n KBackgroundLine) as [[bl|]|] eqn:Gl; cbn [keep_post]; auto.
  rewrite (grp3_token _ _ _ L0 Gl) in N.
  destruct (m_keyword bl) eqn:K; cbn [keep_post]; auto. destruct (m_text bl) eqn:T; cbn [keep_post]; auto.
  rewrite (line_elem KBackgroundLine bl _ _ K T) in N by (cbn; tauto).
  destruct (get_description n) as [desc|] eqn:Gd; cbn [keep_post]; auto.
  destruct (get_steps n) as [steps|] eqn:Gs; cbn [keep_post]; auto.
  unfold get_steps in Gs. cbn [vsrc]. unfold bg_elems. cbn [bg_loc bg_keyword bg_name bg_steps bg_desc].
  rewrite (steps_of_elems _ _ Gs), (get_description_elems _ _ L1 Gd), N, !grp3_rule. reflexivity.
Qed.

Lemma keep_scenario af n c i : cnrel3 af n -> af_rule af = RScenarioDefinition -> keep_post n (transform_node n c i).
Proof.
  intros H Hr. start_rule Hr N Sg F Xo. rewrite app_nil_r in N.
  destruct (Sg (KR RTags) 0 false eq_refl) as [_ L0]. specialize (L0 eq_refl).
  destruct (Sg (KR RScenario) 1 false eq_refl) as [_ L1]. specialize (L1 eq_refl).
  destruct (get_tags n i) as [tags i1|e i1|] eqn:Gt; cbn [keep_post]; auto.
  rewrite <- (get_tags_elems _ _ _ _ F L0 Gt) in N.
  destruct (get_single n (KR RScenario)) as [v|] eqn:Gsn; [destruct v as [| sn | | | | | | | | | | | |]|]; cbn [keep_post]; auto.
  rewrite (single_cgrp ic3 _ _ _ L1 Gsn) in N. rewrite ic3_node in N.
  pose proof (citem_single n _ _ F Gsn) as IO. cbn in IO. destruct IO as (_ & [Fa Fs] & _).
  rewrite nsrc_items, Fa in N. cbn [cpat cgroups] in N. rewrite app_nil_r in N.
  pose proof (Fs (KT KScenarioLine) 0 eq_refl) as Fs0. pose proof (Fs (KR RDescription) 1 eq_refl) as Fs1.
  destruct (get_token sn KScenarioLine) as [[sl|]|] eqn:Gl; cbn [keep_post]; auto.
  rewrite (grp3_token _ _ _ Fs0 Gl) in N.
  destruct (m_keyword sl) eqn:K; cbn [keep_post]; auto. destruct (m_text sl) eqn:T; cbn [keep_post]; auto.
  rewrite (line_elem KScenarioLine sl _ _ K T) in N by (cbn; tauto).
  destruct (get_description sn) as [desc|] eqn:Gd; cbn [keep_post]; auto.
  destruct (get_steps sn) as [steps|] eqn:Gs; cbn [keep_post]; auto.
  destruct (examples_of (get_items sn (KR RExamplesDefinition))) as [exs|] eqn:Ge; cbn [keep_post]; auto.
  unfold get_steps in Gs. cbn [vsrc]. unfold sc_elems. cbn [sc_steps sc_examples sc_tags sc_loc sc_keyword sc_name sc_desc].
  rewrite (steps_of_elems _ _ Gs), (examples_of_elems _ _ Ge), (get_description_elems _ _ Fs1 Gd), N, !grp3_rule. reflexivity.
Qed.

Lemma rows_split_elems rs : match hd_error rs with Some r => row_elems [r] | None => [] end ++ row_elems (tl rs) = row_elems rs.
Proof. destruct rs; reflexivity. Qed.

Lemma keep_examples af n c i : cnrel3 af n -> af_rule af = RExamplesDefinition -> keep_post n (transform_node n c i).
Proof.
  intros H Hr. start_rule Hr N Sg F Xo. rewrite app_nil_r in N.
  destruct (Sg (KR RTags) 0 false eq_refl) as [_ L0]. specialize (L0 eq_refl).
  destruct (Sg (KR RExamples) 1 false eq_refl) as [_ L1]. specialize (L1 eq_refl).
  destruct (get_tags n i) as [tags i1|e i1|] eqn:Gt; cbn [keep_post]; auto.
  rewrite <- (get_tags_elems _ _ _ _ F L0 Gt) in N.
  destruct (get_single n (KR RExamples)) as [v|] eqn:Gen; [destruct v as [| en | | | | | | | | | | | |]|]; cbn [keep_post]; auto.
  rewrite (single_cgrp ic3 _ _ _ L1 Gen) in N. rewrite ic3_node in N.
  pose proof (citem_single n _ _ F Gen) as IO. cbn in IO. destruct IO as (_ & [Fa Fs] & _).
  rewrite nsrc_items, Fa in N. cbn [cpat cgroups] in N. rewrite app_nil_r in N.
  pose proof (Fs (KT KExamplesLine) 0 eq_refl) as Fs0. pose proof (Fs (KR RDescription) 1 eq_refl) as Fs1. pose proof (Fs (KR RExamplesTable) 2 eq_refl) as Fs2.
  destruct (get_token en KExamplesLine) as [[el|]|] eqn:Gl; cbn [keep_post]; auto.
  rewrite (grp3_token _ _ _ Fs0 Gl) in N.
  destruct (m_keyword el) eqn:K; cbn [keep_post]; auto. destruct (m_text el) eqn:T; cbn [keep_post]; auto.
  rewrite (line_elem KExamplesLine el _ _ K T) in N by (cbn; tauto).
  destruct (get_description en) as [desc|] eqn:Gd; cbn [keep_post]; auto.
  assert (Fin : forall rs, grp3 (node_items en) (KR RExamplesTable) = row_elems rs ->
    keep_post n (TOk (VExamples (mk_examples i1 tags (get_location el None) s s0 desc (hd_error rs) (tl rs))) (S i1))).
  { intros rs G. cbn [keep_post vsrc]. unfold ex_elems. cbn [ex_header ex_body ex_tags ex_loc ex_keyword ex_name ex_desc].
    rewrite rows_split_elems, (get_description_elems _ _ Fs1 Gd), N, G. reflexivity. }
  destruct (get_single en (KR RExamplesTable)) as [v|] eqn:Gr; [destruct v|]; cbn [keep_post]; auto.
  - apply Fin. apply (single_cgrp ic3 _ _ _ Fs2 Gr).
  - apply Fin. apply (none_cgrp ic3 _ _ Gr).
Qed.

(* the content of a header node: its tags, its keyword line, its description *)
Lemma header_elems hn x k i tags i1 t kw text desc : cflat3 x hn ->
  cpat x = [(KR RTags, false); (KT k, false); (KR RDescription, false)] ->
  In k [KFeatureLine; KRuleLine] ->
  (forall m, In (KR RTags, VNode m) (node_items hn) -> cflat3 RTags m) ->
  get_tags hn i = TOk tags i1 -> get_token hn k = Some (Some t) -> m_keyword t = Some kw -> m_text t = Some text ->
  get_description hn = Some desc ->
  nsrc hn = tag_elems tags ++ ELine k (get_location t None) kw text :: text_elems desc.
Proof.
  intros [Fa Fs] Hp Hk Ft Gt Gl K T Gd. rewrite nsrc_items, Fa, Hp. cbn [cgroups]. rewrite app_nil_r.
  assert (L0 : length (kfilter (KR RTags) (node_items hn)) <= 1) by (apply (Fs (KR RTags) 0); rewrite Hp; reflexivity).
  assert (L1 : length (kfilter (KT k) (node_items hn)) <= 1).
  { apply (Fs (KT k) 1). rewrite Hp. cbn. destruct Hk as [<-|[<-|[]]]; reflexivity. }
  assert (L2 : length (kfilter (KR RDescription) (node_items hn)) <= 1).
  { apply (Fs (KR RDescription) 2). rewrite Hp. cbn. destruct Hk as [<-|[<-|[]]]; reflexivity. }
  rewrite (grp3_token _ _ _ L1 Gl), (line_elem k t _ _ K T), <- (get_description_elems _ _ L2 Gd) by (cbn in *; tauto). f_equal.
  unfold get_tags in Gt. destruct (get_single hn (KR RTags)) as [v|] eqn:G.
  - rewrite (single_cgrp ic3 _ _ _ L0 G). destruct v; try discriminate.
    destruct (get_tokens n KTagLine) as [ts|] eqn:Gts; [|discriminate]. destruct (tags_of_tokens ts i) as [tg j] eqn:E. inversion Gt; subst.
    destruct (Ft n (get_single_in _ _ _ G)) as [Fta _].
    rewrite ic3_node, nsrc_items, Fta. cbn [cpat cgroups]. rewrite app_nil_r, (grp3_tok _ _ _ Gts).
    symmetry. apply (tags_of_tokens_elems _ _ _ _ E).
  - inversion Gt; subst. rewrite (none_cgrp ic3 _ _ G). reflexivity.
Qed.

Lemma flat_rchild_elems bgc scs : flat_map rchild_elems (bgc ++ map RCScenario scs) = flat_map rchild_elems bgc ++ flat_map sc_elems scs.
Proof. rewrite flat_map_app. f_equal. induction scs as [|s r IH]; cbn; [reflexivity|]. now rewrite IH. Qed.
Lemma flat_fchild_elems bgc scs rls :
  flat_map fchild_elems (bgc ++ map FCScenario scs ++ flat_map (fun r => match r with Some x => [FCRule x] | None => [] end) rls)
  = flat_map fchild_elems bgc ++ flat_map sc_elems scs ++ flat_map (fun r => match r with Some x => ru_elems x | None => [] end) rls.
Proof.
  rewrite !flat_map_app. f_equal. f_equal.
  - induction scs as [|s r IH]; cbn; [reflexivity|]. now rewrite IH.
  - induction rls as [|[x|] r IH]; cbn; [reflexivity | now rewrite IH | exact IH].
Qed.

Lemma keep_rule af n c i : cnrel3 af n -> af_rule af = RRule -> af_hdr af = true -> keep_post n (transform_node n c i).
Proof.
  intros H Hr Hd. pose proof H as (_ & _ & Hh). start_rule Hr N Sg F Xo. rewrite app_nil_r in N.
  destruct (Sg (KR RRuleHeader) 0 false eq_refl) as [_ L0]. specialize (L0 eq_refl).
  destruct (Sg (KR RBackground) 1 false eq_refl) as [_ L1]. specialize (L1 eq_refl).
  specialize (Hh Hd). cbn [hdr_of] in Hh. apply hdr_present in Hh.
  destruct (get_single n (KR RRuleHeader)) as [v|] eqn:Gh; [|congruence].
  pose proof (citem_single n _ _ F Gh) as IO. rewrite (single_cgrp ic3 _ _ _ L0 Gh) in N.
  destruct v as [| hn | | | | | | | | | | | |]; cbn [keep_post]; auto.
  cbn in IO. destruct IO as (_ & Fl & Nest & HL). cbn [hdr_line] in HL. destruct (has_line_token _ _ HL) as [rl Grl]. rewrite Grl. rewrite ic3_node in N.
  destruct (get_tags hn i) as [tags i1|e i1|] eqn:Gt; cbn [keep_post]; auto.
  destruct (m_keyword rl) eqn:K; cbn [keep_post]; auto. destruct (m_text rl) eqn:T; cbn [keep_post]; auto.
  assert (Fin : forall bgc scs desc, flat_map rchild_elems bgc = grp3 (node_items n) (KR RBackground) ->
             scenarios_of (get_items n (KR RScenarioDefinition)) = Some scs -> get_description hn = Some desc ->
             keep_post n (TOk (VRule (mk_grule i1 tags (get_location rl None) s s0 desc (bgc ++ map RCScenario scs))) (S i1))).
  { intros bgc scs desc Gb Gs Gd. cbn [keep_post vsrc]. unfold ru_elems. cbn [ru_children ru_tags ru_loc ru_keyword ru_name ru_desc].
    rewrite (header_elems hn RRuleHeader KRuleLine i tags i1 rl _ _ desc Fl eq_refl (or_intror (or_introl eq_refl)) (Nest RTags) Gt Grl K T Gd) in N.
    rewrite flat_rchild_elems, Gb, (scenarios_of_elems _ _ Gs), N, !grp3_rule, <- !app_assoc. reflexivity. }
  destruct (get_single n (KR RBackground)) as [v|] eqn:Gb; [destruct v|]; cbn [keep_post]; auto;
    destruct (scenarios_of (get_items n (KR RScenarioDefinition))) as [scs|] eqn:Gs; cbn [keep_post]; auto;
    destruct (get_description hn) eqn:Gd; cbn [keep_post]; auto; apply Fin; auto.
  - cbn. rewrite app_nil_r. symmetry. apply (single_cgrp ic3 _ _ _ L1 Gb).
  - cbn. symmetry. apply (none_cgrp ic3 _ _ Gb).
Qed.

Lemma keep_feature af n c i : cnrel3 af n -> af_rule af = RFeature -> af_hdr af = true -> keep_post n (transform_node n c i).
Proof.
  intros H Hr Hd. pose proof H as (_ & _ & Hh). start_rule Hr N Sg F Xo. rewrite app_nil_r in N.
  destruct (Sg (KR RFeatureHeader) 0 false eq_refl) as [_ L0]. specialize (L0 eq_refl).
  destruct (Sg (KR RBackground) 1 false eq_refl) as [_ L1]. specialize (L1 eq_refl).
  specialize (Hh Hd). cbn [hdr_of] in Hh. apply hdr_present in Hh.
  destruct (get_single n (KR RFeatureHeader)) as [v|] eqn:Gh; [|congruence].
  pose proof (citem_single n _ _ F Gh) as IO. rewrite (single_cgrp ic3 _ _ _ L0 Gh) in N.
  destruct v as [| hn | | | | | | | | | | | |]; cbn [keep_post]; auto.
  cbn in IO. destruct IO as (_ & Fl & Nest & HL). cbn [hdr_line] in HL. destruct (has_line_token _ _ HL) as [fl Gfl]. rewrite Gfl. rewrite ic3_node in N.
  destruct (get_tags hn i) as [tags i1|e i1|] eqn:Gt; cbn [keep_post]; auto.
  destruct (m_keyword fl) eqn:K; cbn [keep_post]; auto. destruct (m_text fl) eqn:T; cbn [keep_post]; auto.
  assert (Fin : forall bgc scs rls desc, flat_map fchild_elems bgc = grp3 (node_items n) (KR RBackground) ->
             scenarios_of (get_items n (KR RScenarioDefinition)) = Some scs ->
             rules_of (get_items n (KR RRule)) = Some rls -> get_description hn = Some desc ->
             keep_post n (TOk (VFeature (mk_feature tags (get_location fl None) (m_dialect fl) s s0 desc
                     (bgc ++ map FCScenario scs
                          ++ flat_map (fun r => match r with Some x => [FCRule x] | None => [] end) rls))) i1)).
  { intros bgc scs rls desc Gb Gs Gr Gd. cbn [keep_post vsrc]. unfold f_elems. cbn [f_children f_tags f_loc f_keyword f_name f_desc].
    rewrite (header_elems hn RFeatureHeader KFeatureLine i tags i1 fl _ _ desc Fl eq_refl (or_introl eq_refl) (Nest RTags) Gt Gfl K T Gd) in N.
    rewrite flat_fchild_elems, Gb, (scenarios_of_elems _ _ Gs), (rules_of_elems _ _ Gr), N, !grp3_rule, <- !app_assoc. reflexivity. }
  destruct (get_single n (KR RBackground)) as [v|] eqn:Gb; [destruct v|]; cbn [keep_post]; auto;
    destruct (scenarios_of (get_items n (KR RScenarioDefinition))) as [scs|] eqn:Gs; cbn [keep_post]; auto;
    destruct (rules_of (get_items n (KR RRule))) as [rls|] eqn:Gr; cbn [keep_post]; auto;
    destruct (get_description hn) eqn:Gd; cbn [keep_post]; auto;
    destruct (forallb _ rls); cbn [keep_post]; auto; apply Fin; auto.
  - cbn. rewrite app_nil_r. symmetry. apply (single_cgrp ic3 _ _ _ L1 Gb).
  - cbn. symmetry. apply (none_cgrp ic3 _ _ Gb).
Qed.

Lemma keep_document af n c i : cnrel3 af n -> af_rule af = RGherkinDocument -> keep_post n (transform_node n c i).
Proof.
  intros H Hr. start_rule Hr N Sg F Xo. rewrite app_nil_r in N.
  destruct (Sg (KR RFeature) 0 false eq_refl) as [_ L1]. specialize (L1 eq_refl).
  destruct (get_single n (KR RFeature)) as [v|] eqn:Gf.
  - rewrite (single_cgrp ic3 _ _ _ L1 Gf) in N.
    destruct v; cbn [keep_post]; auto; rewrite N; reflexivity.
  - rewrite (none_cgrp ic3 _ _ Gf) in N. cbn [keep_post]. rewrite N. reflexivity.
Qed.

Lemma keep_self n i : keep_post n (TOk (VNode n) i).
Proof. cbn. apply nsrc_items. Qed.

Theorem transform_keep af n c i : cnrel3 af n -> ready af -> keep_post n (transform_node n c i).
Proof.
  intros R [Rl Rh]. pose proof R as ((Rt & _) & _).
  destruct (af_rule af) eqn:Hr;
    try (unfold transform_node; rewrite Rt; apply keep_self).
  - eapply keep_document; eauto.
  - eapply keep_feature; eauto.
  - eapply keep_rule; eauto.
  - eapply keep_background; eauto.
  - eapply keep_scenario; eauto.
  - eapply keep_examples; eauto.
  - eapply keep_rows; eauto.
  - eapply keep_step; eauto.
  - eapply keep_rows; eauto.
  - eapply keep_docstring; eauto.
  - eapply keep_description; eauto.
Qed.
