(* C16, end to end: documents whose physical lines differ only in their terminators (LF / CRLF / none on
   the last line) parse to the same document, or to the same errors.  Composition of: the matcher theorem
   (TerminatorFacts.matcher_tail), the builder theorem (BuilderErase), the fact that blank lines are never
   unexpected (BlankFacts), and the relational parametricity of the interpreter (ParamGlue.parse_related_lines). *)
From Coq Require Import String List Bool Arith NArith Lia.
Import ListNotations.
Require Import Kinds Automaton AutoFacts PyStr Line Matcher MatcherFacts Builder Pipeline PipelineFacts Table TableFacts Dialects
               LayoutFacts TerminatorFacts BuilderErase BlankFacts ParamGlue Delivery.

(* ---- tokens that differ only in the terminator of their line ---- *)
Definition LRel (o o' : option gline) : Prop :=
  match o, o' with
  | None, None => True
  | Some l, Some l' => exists c n tl tl', l = make_line (c ++ tl) n /\ l' = make_line (c ++ tl') n /\ all_crlf tl /\ all_crlf tl'
  | _, _ => False
  end.
Definition TRel (t t' : token) : Prop := terase t = terase t' /\ LRel (tk_line t) (tk_line t').

Lemma token_eta t : t = mk_token (tk_line t) (tk_loc t) (m_type t) (m_text t) (m_keyword t) (m_ktype t) (m_indent t) (m_items t) (m_dialect t).
Proof. destruct t; reflexivity. Qed.
Lemma terase_fields t t' : terase t = terase t' ->
  tk_loc t = tk_loc t' /\ m_type t = m_type t' /\ m_text t = m_text t' /\ m_keyword t = m_keyword t' /\ m_ktype t = m_ktype t'
  /\ m_indent t = m_indent t' /\ m_items t = m_items t' /\ m_dialect t = m_dialect t'.
Proof. unfold terase. intros H. inversion H. repeat split; assumption. Qed.
Lemma with_line_eq x t t' : terase t = terase t' -> with_line x t = with_line x t'.
Proof. intros H. apply terase_fields in H as (A & B & C & D & E & F & G & I). unfold with_line. congruence. Qed.
Lemma terase_with_line x t : terase (with_line x t) = terase t.
Proof. reflexivity. Qed.
Lemma eof_eq t t' : terase t = terase t' -> tk_line t = None -> tk_line t' = None -> t = t'.
Proof.
  intros H A B. rewrite (token_eta t), (token_eta t'), A, B. apply terase_fields in H as (H1 & H2 & H3 & H4 & H5 & H6 & H7 & H8). congruence.
Qed.

Lemma TRel_erase t t' : TRel t t' -> terase t = terase t'. Proof. intros [H _]. exact H. Qed.
Lemma TRel_eof t t' : TRel t t' -> tok_is_eof t = tok_is_eof t'.
Proof. intros [_ H]. unfold tok_is_eof, LRel in *. destruct (tk_line t), (tk_line t'); tauto. Qed.
Lemma TRel_mkeof n : TRel (eof_token n) (eof_token n).
Proof. split; [reflexivity | exact I]. Qed.

(* the matcher respects the relation *)
Lemma TRel_match k m t t' : MI m -> TRel t t' ->
  match p_matchf k m t, p_matchf k m t' with
  | MR b t1 m1, MR b' t1' m1' => b = b' /\ TRel t1 t1' /\ m1 = m1' /\ MI m1
  | MRaise e t1 m1, MRaise e' t1' m1' => e = e' /\ TRel t1 t1' /\ m1 = m1' /\ MI m1
  | _, _ => False
  end.
Proof.
  intros Hm [He Hl]. unfold p_matchf.
  destruct (tk_line t) as [l|] eqn:L, (tk_line t') as [l'|] eqn:L'; cbn [LRel] in Hl; try contradiction.
  - destruct Hl as (c & n & tl & tl' & -> & -> & Ht & Ht').
    pose proof (matcher_tail c n tl Ht m Hm t L k) as R1.
    pose proof (matcher_tail c n tl' Ht' m Hm t' L' k) as R2.
    rewrite <- (with_line_eq (make_line c n) t t' He) in R2.
    destruct (matcher dialects k m (with_line (make_line c n) t)) as [|tc mc|ec tc mc];
      destruct (matcher dialects k m t) as [|t1 m1|e1 t1 m1]; cbn [mout_rel] in R1; try contradiction;
      destruct (matcher dialects k m t') as [|t1' m1'|e1' t1' m1']; cbn [mout_rel] in R2; try contradiction.
    + split; [reflexivity|]. split; [|split; [reflexivity | exact Hm]].
      split; [exact He|]. rewrite L, L'. cbn [LRel]. exists c, n, tl, tl'. auto.
    + destruct R1 as (-> & Mi & E1 & La & Lc). destruct R2 as (-> & _ & E2 & Lb & _).
      split; [reflexivity|]. split; [|split; [reflexivity | exact Mi]].
      split; [congruence|]. rewrite La, Lb, L, L'. cbn [LRel]. exists c, n, tl, tl'. auto.
    + destruct R1 as (-> & -> & Mi & E1 & La & Lc). destruct R2 as (-> & -> & _ & E2 & Lb & _).
      split; [reflexivity|]. split; [|split; [reflexivity | exact Mi]].
      split; [congruence|]. rewrite La, Lb, L, L'. cbn [LRel]. exists c, n, tl, tl'. auto.
  - (* the end-of-file token *)
    rewrite (eof_eq t t' He L L'). destruct (matcher dialects k m t') as [|t1 m1|e1 t1 m1] eqn:M.
    + split; [reflexivity|]. split; [|split; [reflexivity | exact Hm]]. split; [reflexivity|]. rewrite L'. exact I.
    + unfold matcher in M. rewrite L' in M. destruct k; try discriminate M. inversion M; subst.
      split; [reflexivity|]. split; [|split; [reflexivity | exact Hm]]. split; [reflexivity|]. cbn [tk_line set_matched]. rewrite L'. exact I.
    + unfold matcher in M. rewrite L' in M. destruct k; discriminate M.
Qed.

(* ---- unexpected-token errors: blank lines are never unexpected, and for the others the message and the
   position do not involve the terminator ---- *)
Definition blank_tok (t : token) : bool := match tk_line t with Some l => line_is_empty l | None => false end.
Definition unexpected' (t : token) (exp : list kind) : perror :=
  match tk_line t with
  | Some l => if line_is_empty l then unexpected (with_line (make_line [] (l_no l)) t) exp else unexpected t exp
  | None => unexpected t exp
  end.

Lemma nonempty_nonblank c n : line_is_empty (make_line c n) = false -> is_blank_text c = false.
Proof.
  intros H. destruct (is_blank_text c) eqn:B; [|reflexivity]. unfold line_is_empty in H. rewrite (trimmed0_blank c n B) in H. discriminate H.
Qed.

Lemma unexpected_tail c n tl t exp : all_crlf tl -> tk_line t = Some (make_line (c ++ tl) n) -> line_is_empty (make_line c n) = false ->
  unexpected t exp = unexpected (with_line (make_line c n) t) exp.
Proof.
  intros Ht L Ne. pose proof (nonempty_nonblank c n Ne) as B. unfold unexpected, token_value. rewrite L. cbn [tk_line with_line tk_loc get_line_text].
  rewrite (strip_trimmed_tail c n tl Ht), (indent_tail c n tl Ht B). reflexivity.
Qed.

Lemma TRel_unexpected t t' exp : TRel t t' -> unexpected' t exp = unexpected' t' exp.
Proof.
  intros [He Hl]. unfold unexpected'.
  destruct (tk_line t) as [l|] eqn:L, (tk_line t') as [l'|] eqn:L'; cbn [LRel] in Hl; try contradiction.
  - destruct Hl as (c & n & tl & tl' & -> & -> & Ht & Ht').
    rewrite (empty_tail c n tl Ht), (empty_tail c n tl' Ht'). cbn [l_no make_line].
    destruct (line_is_empty (make_line c n)) eqn:E.
    + now rewrite (with_line_eq _ t t' He).
    + rewrite (unexpected_tail c n tl t exp Ht L E), (unexpected_tail c n tl' t' exp Ht' L' E). now rewrite (with_line_eq _ t t' He).
  - now rewrite (eof_eq t t' He L L').
Qed.

(* every state can take a blank line: it has an unguarded #Empty or #Other test *)
Definition takes_blank (x : st) : bool :=
  existsb (fun y => match t_guard y with None => kind_beq (t_kind y) KEmpty || kind_beq (t_kind y) KOther | Some _ => false end) (s_tests x).
Lemma all_take_blank : forallb takes_blank Table.table = true.
Proof. vm_compute. reflexivity. Qed.

Lemma blank_fires x : In x Table.table -> exists pre y post, s_tests x = pre ++ y :: post /\ t_guard y = None /\
  forall m t, blank_tok t = true -> exists t' m', p_matchf (t_kind y) m t = MR true t' m'.
Proof.
  intros Hx. pose proof all_take_blank as A. rewrite forallb_forall in A. specialize (A x Hx).
  unfold takes_blank in A. rewrite existsb_exists in A. destruct A as (y & Hy & Ky).
  apply in_split in Hy as (pre & post & E). exists pre, y, post. split; [exact E|].
  destruct (t_guard y); [discriminate Ky|]. split; [reflexivity|].
  intros m t Bt. unfold blank_tok in Bt. destruct (tk_line t) as [l|] eqn:L; [|discriminate Bt].
  unfold p_matchf, matcher. rewrite L. apply orb_prop in Ky as [K|K]; apply kind_beq_eq in K; rewrite K.
  - rewrite Bt. eexists; eexists; reflexivity.
  - eexists; eexists; reflexivity.
Qed.

Lemma blank_stable k m t : blank_tok (Delivery.mtok (p_matchf k m t)) = blank_tok t.
Proof.
  unfold p_matchf, blank_tok. pose proof (matcher_line dialects k m t) as A.
  destruct (matcher dialects k m t); cbn [Delivery.mtok]; [reflexivity | now rewrite A | now rewrite A].
Qed.

(* the real pipeline equals the pipeline with unexpected' *)
Lemma pipeline_unexpected' stop toks m b :
  parse (params_u unexpected') stop toks m b = parse (pipeline_params Table.table) stop toks m b.
Proof.
  apply (parse_eq (pipeline_params Table.table) blank_tok blank_stable).
  - intros t Bt. unfold blank_tok in Bt. cbn. unfold tok_is_eof. destruct (tk_line t); [reflexivity | discriminate Bt].
  - exact blank_fires.
  - intros t exp Bt. unfold unexpected', blank_tok in *. cbn. destruct (tk_line t); [now rewrite Bt | reflexivity].
Qed.

(* ---- what the caller observes ---- *)
Definition psim (r r' : presult) : Prop :=
  match r, r' with
  | POk d m1 _ n1, POk d' m1' _ n1' => d = d' /\ m1 = m1' /\ n1 = n1'
  | PErrs es m1 _ n1, PErrs es' m1' _ n1' => es = es' /\ m1 = m1' /\ n1 = n1'
  | PErr1 e m1 _ n1, PErr1 e' m1' _ n1' => e = e' /\ m1 = m1' /\ n1 = n1'
  | PCrash, PCrash => True
  | POutOfFuel, POutOfFuel => True
  | _, _ => False
  end.

Lemma ER_list es es' : list_R perror perror ER es es' -> es = es'.
Proof. apply list_R_eq. intros a b H. exact H. Qed.

Definition presult_of (r : pres unit) : presult :=
  match r with
  | Ok _ c => match builder_result (bs c) with Some d => POk d (ms c) (bs c) (calls c) | None => PCrash end
  | Raise1 e c => PErr1 e (ms c) (bs c) (calls c)
  | RaiseC es c => PErrs es (ms c) (bs c) (calls c)
  | Crash _ => PCrash
  | OutOfFuel => POutOfFuel
  end.
Lemma parse_source_of stop m b src : parse_source stop m b src = presult_of (parse_tokens stop (scan src) m b).
Proof. unfold parse_source, presult_of. destruct (parse_tokens stop (scan src) m b); reflexivity. Qed.

Lemma reset_MI m : wf_ms m -> MI (reset_matcher dialects m).
Proof.
  intros W. destruct (reset_matcher_wf' m W) as [W' _]. split; [exact W'|].
  unfold reset_matcher. destruct (str_eqb _ _); [exact I|]. destruct (find_dialect dialects (ms_default m)); exact I.
Qed.

Theorem tokens_related stop toks toks' m b : wf_ms m -> list_R token token TRel toks toks' ->
  psim (presult_of (parse_tokens stop toks m b)) (presult_of (parse_tokens stop toks' m b)).
Proof.
  intros W Ht. unfold parse_tokens, parse_tokens_with. rewrite <- !pipeline_unexpected'.
  pose proof (parse_related_lines TRel MI unexpected' TRel_erase TRel_eof TRel_mkeof TRel_match TRel_unexpected
                stop toks toks' (reset_matcher dialects m) (reset_builder b) (reset_builder b) Ht (reset_MI m W) eq_refl) as R.
  destruct R as [a a' _ c c' Hc|e e' He c c' Hc|es es' Hes c c' Hc|c c' Hc|]; cbn [presult_of psim]; try exact I.
  - destruct Hc as [q q' _ r r' _ ln ln' _ er er' _ ms1 ms1' Hms bs1 bs1' Hbs cl cl' Hcl lg lg' _]. cbn [bs ms calls].
    rewrite (builder_result_rel bs1 bs1' Hbs). destruct (builder_result bs1'); [|exact I].
    destruct Hms as [-> _]. apply nat_R_eq in Hcl. cbn [psim]. auto.
  - destruct Hc as [q q' _ r r' _ ln ln' _ er er' _ ms1 ms1' Hms bs1 bs1' Hbs cl cl' Hcl lg lg' _]. cbn [bs ms calls].
    destruct Hms as [-> _]. apply nat_R_eq in Hcl. unfold ER in He. cbn [psim]. auto.
  - destruct Hc as [q q' _ r r' _ ln ln' _ er er' _ ms1 ms1' Hms bs1 bs1' Hbs cl cl' Hcl lg lg' _]. cbn [bs ms calls].
    destruct Hms as [-> _]. apply nat_R_eq in Hcl. apply ER_list in Hes. cbn [psim]. auto.
Qed.

(* ---- the scanner ---- *)
Definition srel (a b : str) : Prop := exists c tl tl', a = c ++ tl /\ b = c ++ tl' /\ all_crlf tl /\ all_crlf tl'.
Lemma srel_refl a : srel a a.
Proof. exists a, [], []. rewrite app_nil_r. repeat split; reflexivity. Qed.

Lemma number_lines_rel : forall ls ls', Forall2 srel ls ls' -> forall n, list_R token token TRel (number_lines ls n) (number_lines ls' n).
Proof.
  induction ls as [|a ls IH]; intros ls' H n; destruct ls' as [|b ls']; cbn [number_lines].
  - constructor.
  - exfalso. inversion H.
  - exfalso. inversion H.
  - constructor.
    + assert (S : srel a b) by (inversion H; assumption). destruct S as (c & tl & tl' & -> & -> & Ht & Ht').
      split; [reflexivity|]. cbn. exists c, n, tl, tl'. auto.
    + apply IH. inversion H; assumption.
Qed.

Local Open Scope N_scope.
Lemma lines_acc_crlf : forall s cur, Forall2 srel (lines_acc cur s) (lines_acc cur (crlf s)).
Proof.
  induction s as [|x s IH]; intros cur; cbn [crlf lines_acc].
  - destruct cur; constructor; [apply srel_refl | constructor].
  - destruct (x =? LF) eqn:E.
    + apply N.eqb_eq in E. subst x. cbn [lines_acc]. change (CR =? LF) with false. cbn [lines_acc]. rewrite N.eqb_refl.
      constructor; [|apply IH]. exists (rev cur), [LF], [CR; LF]. cbn [rev]. rewrite <- app_assoc. repeat split; reflexivity.
    + cbn [lines_acc]. rewrite E. apply IH.
Qed.

Lemma lines_acc_final : forall s cur, (s = [] -> cur <> []) -> (s <> [] -> last s 0 <> LF) ->
  Forall2 srel (lines_acc cur (s ++ [LF])) (lines_acc cur s).
Proof.
  induction s as [|x s IH]; intros cur H1 H2; cbn [app lines_acc].
  - rewrite N.eqb_refl. cbn [lines_acc]. specialize (H1 eq_refl). destruct cur as [|y cur]; [congruence|].
    constructor; [|constructor]. exists (rev (y :: cur)), [LF], []. cbn [rev]. rewrite app_nil_r. repeat split; reflexivity.
  - assert (Hs : s <> [] -> last s 0 <> LF).
    { intros Ns. specialize (H2 ltac:(discriminate)). destruct s; [congruence | exact H2]. }
    destruct (x =? LF) eqn:E.
    + apply N.eqb_eq in E. subst x. constructor; [apply srel_refl|]. apply IH; [|exact Hs].
      intros ->. exfalso. apply (H2 ltac:(discriminate)). reflexivity.
    + apply IH; [intros _; discriminate | exact Hs].
Qed.
Local Close Scope N_scope.

(* ---- the theorems ---- *)
Theorem crlf_neutral stop m b src : wf_ms m -> psim (parse_source stop m b src) (parse_source stop m b (crlf src)).
Proof.
  intros W. rewrite !parse_source_of. apply tokens_related; [exact W|]. unfold scan, py_lines. apply number_lines_rel, lines_acc_crlf.
Qed.

Theorem final_newline_neutral stop m b src : wf_ms m -> src <> [] -> last src 0%N <> LF ->
  psim (parse_source stop m b (src ++ [LF])) (parse_source stop m b src).
Proof.
  intros W Ns Hl. rewrite !parse_source_of. apply tokens_related; [exact W|]. unfold scan, py_lines. apply number_lines_rel.
  apply lines_acc_final; [intros E; congruence | intros _; exact Hl].
Qed.
