(* C03: what the builder makes of the tokens it is given -- descriptions, comments, steps. *)
From Coq Require Import List Bool Arith NArith Lia.
Import ListNotations.
Require Import Kinds PyStr Line Matcher MatcherFacts Ast Builder DocStringFacts.

(* comment lines: the whole physical line minus its terminator, column 1 *)
Theorem comment_token ds m t l : tk_line t = Some l -> line_startswith l [HASH] = true ->
  exists t', matcher ds KComment m t = MYes t' m /\ m_text t' = Some (rstrip_crlf (l_text l))
             /\ tk_loc t' = mk_loc (loc_line (tk_loc t)) (Some 1).
Proof. intros L H. unfold matcher. rewrite L, H. eexists. split; [reflexivity|]. split; reflexivity. Qed.

Theorem comment_built t text b : m_type t = Some KComment -> m_text t = Some text ->
  builder_build t b = BoOk (mk_bstate (b_stack b) (b_comments b ++ [mk_comment (tk_loc t) text]) (b_idc b)).
Proof. intros Ty Tx. unfold builder_build. rewrite Ty, Tx. reflexivity. Qed.

(* trailing blank (whitespace-only) lines are dropped, nothing else *)
Lemma drop_trailing_blank_spec ts : exists keep dropped,
  ts = keep ++ dropped /\ drop_trailing_blank ts = keep /\ Forall (fun t => blank_text t = true) dropped
  /\ (keep = [] \/ blank_text (last keep (eof_token 0)) = false).
Proof.
  induction ts as [|t ts (keep & dropped & E & D & F & L)]; [exists [], []; repeat split; auto|].
  cbn [drop_trailing_blank]. rewrite D. destruct keep as [|k keep].
  - destruct (blank_text t) eqn:B.
    + exists [], (t :: dropped). cbn [app] in *. subst ts. repeat split; auto.
    + exists [t], dropped. cbn [app] in *. subst ts. repeat split; auto.
  - exists (t :: k :: keep), dropped. subst ts. repeat split; auto.
    right. destruct L as [L|L]; [discriminate|]. exact L.
Qed.

(* a Description node: the free-text lines, verbatim (minus line terminator), in order, joined by line
   feeds, trailing blank lines dropped; comment lines are not in the node (they went to the comment list) *)
Theorem description_transform os texts comments idc :
  map m_text (drop_trailing_blank os) = map Some texts ->
  transform_node (Node (KR RDescription) (map (fun o => (KT KOther, VTok o)) os)) comments idc
  = TOk (VDesc (join [LF] texts)) idc.
Proof.
  intros Ts. unfold transform_node. cbn [node_rt]. unfold get_tokens, get_items. cbn [node_items].
  rewrite filter_map_other. cbn [key_beq kind_beq]. rewrite toks_of_map. cbn [opt_crash].
  rewrite (texts_of_map _ texts Ts). reflexivity.
Qed.

(* a Step node: keyword, keyword type, text and location are the step line token's *)
Theorem step_transform sl kw kt text comments idc :
  m_keyword sl = Some kw -> m_ktype sl = Some kt -> m_text sl = Some text ->
  transform_node (Node (KR RStep) [(KT KStepLine, VTok sl)]) comments idc
  = TOk (VStep (mk_step idc (tk_loc sl) kw kt text ArgNone)) (S idc).
Proof. intros K T X. unfold transform_node. cbn. rewrite K, T, X. reflexivity. Qed.
