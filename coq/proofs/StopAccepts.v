(* The two error modes accept the same inputs: a run that collects errors and ends normally has collected none,
   so the run that stops at the first error ends the same way (converse of StopFirst.stop_accepts). *)
From Coq Require Import List Bool Arith.
Import ListNotations.
Require Import Kinds Automaton AutoFacts StopFirst PyStr Line Matcher Builder Pipeline Dialects.

Section SA.
  Context {Tok MS BS Err : Type}.
  Variable P : params Tok MS BS Err.

  Lemma parse_ok_noerrs stop toks m b c : parse P stop toks m b = Ok tt c -> errs c = [].
  Proof.
    unfold parse. destruct (b_call P stop _ _) as [[] c1| | | |]; cbn [bind]; try discriminate.
    destruct (loop P _ stop _ c1) as [s c2| | | |]; cbn [bind]; try discriminate.
    destruct (b_call P stop _ _) as [[] c3| | | |]; cbn [bind]; try discriminate.
    destruct (errs c3) eqn:E; [|discriminate]. intros H. inversion H; subst. exact E.
  Qed.

  Theorem collect_accepts toks m b c : parse P false toks m b = Ok tt c -> parse P true toks m b = Ok tt c.
  Proof.
    intros H. pose proof (parse_sim P toks m b) as S. pose proof (parse_ok_noerrs false toks m b c H) as E. rewrite H in S.
    destruct (parse P true toks m b) as [[] ct|e ct|es ct|ct|]; cbn [sim head_is] in S.
    - destruct S as [X _]. symmetry. exact X.
    - destruct S as [l X]. rewrite E in X. discriminate X.
    - destruct S.
    - discriminate S.
    - discriminate S.
  Qed.
End SA.

Theorem source_collect_accepts m b src d m1 b1 n : parse_source false m b src = POk d m1 b1 n ->
  parse_source true m b src = POk d m1 b1 n.
Proof.
  unfold parse_source, parse_tokens, parse_tokens_with. intros H.
  destruct (parse (pipeline_params Table.table) false (scan src) (reset_matcher dialects m) (reset_builder b)) as [[] c|e c|es' c|c|] eqn:Pt;
    try discriminate H.
  rewrite (collect_accepts _ _ _ _ _ Pt). exact H.
Qed.
