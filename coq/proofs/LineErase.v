(* C16 (blank lines): the AST builder never looks at a line number -- it copies them -- nor at the #Empty tokens it
   stores.  Stated with an eraser that forgets every line number (of tokens, of the physical lines they carry, of
   finished AST nodes, of comments, of the builder's own errors) and drops the #Empty tokens from the nodes of the
   stack: running a builder operation on states / tokens that are equal after erasure gives results that are. *)
From Coq Require Import String List Bool Arith NArith Lia.
Import ListNotations.
Require Import Kinds PyStr Line Matcher Ast Builder BuilderErase ColErase.

Definition le_loc (l : loc) : loc := mk_loc 0 (loc_col l).
Definition le_tag (t : tag) : tag := mk_tag (tg_id t) (le_loc (tg_loc t)) (tg_name t).
Definition le_cell (c : cell) : cell := mk_cell (le_loc (c_loc c)) (c_value c).
Definition le_row (r : row) : row := mk_row (r_id r) (le_loc (r_loc r)) (map le_cell (r_cells r)).
Definition le_ds (d : docstring) : docstring := mk_docstring (le_loc (ds_loc d)) (ds_content d) (ds_delim d) (ds_media d).
Definition le_arg (a : steparg) : steparg :=
  match a with ArgNone => ArgNone | ArgTable l rows => ArgTable (le_loc l) (map le_row rows) | ArgDoc d => ArgDoc (le_ds d) end.
Definition le_step (s : step) : step :=
  mk_step (st_id s) (le_loc (st_loc s)) (st_keyword s) (st_ktype s) (st_text s) (le_arg (st_arg s)).
Definition le_bg (b : background) : background :=
  mk_background (bg_id b) (le_loc (bg_loc b)) (bg_keyword b) (bg_name b) (bg_desc b) (map le_step (bg_steps b)).
Definition le_ex (e : examples) : examples :=
  mk_examples (ex_id e) (map le_tag (ex_tags e)) (le_loc (ex_loc e)) (ex_keyword e) (ex_name e) (ex_desc e)
              (option_map le_row (ex_header e)) (map le_row (ex_body e)).
Definition le_sc (s : scenario) : scenario :=
  mk_scenario (sc_id s) (map le_tag (sc_tags s)) (le_loc (sc_loc s)) (sc_keyword s) (sc_name s) (sc_desc s)
              (map le_step (sc_steps s)) (map le_ex (sc_examples s)).
Definition le_rchild (c : rchild) : rchild :=
  match c with RCBackground b => RCBackground (le_bg b) | RCScenario s => RCScenario (le_sc s) end.
Definition le_rule (r : grule) : grule :=
  mk_grule (ru_id r) (map le_tag (ru_tags r)) (le_loc (ru_loc r)) (ru_keyword r) (ru_name r) (ru_desc r)
           (map le_rchild (ru_children r)).
Definition le_fchild (c : fchild) : fchild :=
  match c with FCBackground b => FCBackground (le_bg b) | FCScenario s => FCScenario (le_sc s) | FCRule r => FCRule (le_rule r) end.
Definition le_feature (f : feature) : feature :=
  mk_feature (map le_tag (f_tags f)) (le_loc (f_loc f)) (f_language f) (f_keyword f) (f_name f) (f_desc f) (map le_fchild (f_children f)).
Definition le_comment (c : comment) : comment := mk_comment (le_loc (cm_loc c)) (cm_text c).
Definition le_doc (d : document) : document := mk_document (option_map le_feature (doc_feature d)) (map le_comment (doc_comments d)).

Definition lle (l : gline) : gline := mk_gline (l_text l) 0 (l_trimmed l) (l_indent l).
Definition tle (t : token) : token :=
  mk_token (option_map lle (tk_line t)) (le_loc (tk_loc t)) (m_type t) (m_text t) (m_keyword t) (m_ktype t) (m_indent t) (m_items t) (m_dialect t).

(* an error with its line number forgotten: the position prefix of its message is rendered again *)
Definition le_err (e : perror) : perror := parser_exception (e_kind e) (e_body e) (le_loc (e_loc e)).
Lemma le_err_pe k msg l : le_err (parser_exception k msg l) = parser_exception k msg (le_loc l).
Proof. unfold le_err, e_body, parser_exception. cbn [e_kind e_loc e_msg]. now rewrite skipn_app_len. Qed.

Fixpoint vle (v : value) : value :=
  match v with
  | VTok t => VTok (tle t)
  | VNode n => VNode (nle n)
  | VStep s => VStep (le_step s)
  | VDocString d => VDocString (le_ds d)
  | VDataTable l rows => VDataTable (le_loc l) (map le_row rows)
  | VBackground b => VBackground (le_bg b)
  | VScenario s => VScenario (le_sc s)
  | VExamples e => VExamples (le_ex e)
  | VRows rs => VRows (map le_row rs)
  | VDesc s => VDesc s
  | VRule r => VRule (le_rule r)
  | VFeature f => VFeature (le_feature f)
  | VDocument d => VDocument (le_doc d)
  | VNone => VNone
  end
with nle (n : node) : node :=
  match n with
  | Node rt items => Node rt ((fix go (l : list (key * value)) : list (key * value) :=
                                 match l with
                                 | [] => []
                                 | (q, v) :: r => if key_beq q (KT KEmpty) then go r else (q, vle v) :: go r
                                 end) items)
  end.
Definition ile (l : list (key * value)) : list (key * value) :=
  flat_map (fun kv => if key_beq (fst kv) (KT KEmpty) then [] else [(fst kv, vle (snd kv))]) l.
Lemma nle_eq rt items : nle (Node rt items) = Node rt (ile items).
Proof. cbn [nle]. f_equal. induction items as [|[q v] r IH]; cbn; [reflexivity|]. rewrite IH. destruct (key_beq q (KT KEmpty)); reflexivity. Qed.

Definition ble (b : bstate) : bstate := mk_bstate (map nle (b_stack b)) (map le_comment (b_comments b)) (b_idc b).

Lemma node_rt_le n : node_rt (nle n) = node_rt n.
Proof. destruct n. rewrite nle_eq. reflexivity. Qed.
Lemma node_items_le n : node_items (nle n) = ile (node_items n).
Proof. destruct n. rewrite nle_eq. reflexivity. Qed.
Lemma node_add_le n q v : nle (node_add n q v) = if key_beq q (KT KEmpty) then nle n else node_add (nle n) q (vle v).
Proof.
  destruct n. cbn [node_add]. rewrite !nle_eq. unfold ile. rewrite flat_map_app. cbn [flat_map fst snd].
  destruct (key_beq q (KT KEmpty)); cbn [node_add]; [now rewrite app_nil_r | now rewrite app_nil_r].
Qed.

Lemma key_empty_sym q : key_beq q (KT KEmpty) = false -> key_beq (KT KEmpty) q = false.
Proof. destruct q as [k|r|]; [destruct k; cbn; auto | cbn; auto | cbn; auto]. Qed.
Lemma key_beq_trans_empty k0 q : key_beq k0 (KT KEmpty) = true -> key_beq q (KT KEmpty) = false -> key_beq k0 q = false.
Proof. destruct k0 as [k|r|]; [destruct k; cbn; try discriminate; intros _; apply key_empty_sym | cbn; discriminate | cbn; discriminate]. Qed.

Lemma get_items_le n q : key_beq q (KT KEmpty) = false -> get_items (nle n) q = map vle (get_items n q).
Proof.
  intros Hq. unfold get_items. rewrite node_items_le. unfold ile. induction (node_items n) as [|[k0 v] r IH]; cbn [flat_map map filter fst snd app]; [reflexivity|].
  destruct (key_beq k0 (KT KEmpty)) eqn:E; cbn [app].
  - rewrite (key_beq_trans_empty k0 q E Hq). exact IH.
  - cbn [filter fst]. destruct (key_beq k0 q); cbn [map fst snd]; now rewrite IH.
Qed.
Lemma get_single_le n q : key_beq q (KT KEmpty) = false -> get_single (nle n) q = option_map vle (get_single n q).
Proof. intros Hq. unfold get_single. rewrite get_items_le by exact Hq. destruct (get_items n q); reflexivity. Qed.

Lemma toks_of_le vs : toks_of (map vle vs) = option_map (map tle) (toks_of vs).
Proof.
  induction vs as [|v r IH]; cbn; [reflexivity|]. destruct v; cbn; try reflexivity.
  rewrite IH. destruct (toks_of r); reflexivity.
Qed.
Lemma get_tokens_le n q : kind_beq q KEmpty = false -> get_tokens (nle n) q = option_map (map tle) (get_tokens n q).
Proof. intros H. unfold get_tokens. rewrite get_items_le by exact H. apply toks_of_le. Qed.
Lemma get_token_le n q : kind_beq q KEmpty = false -> get_token (nle n) q = option_map (option_map tle) (get_token n q).
Proof. intros H. unfold get_token. rewrite get_single_le by exact H. destruct (get_single n (KT q)) as [v|]; [destruct v|]; reflexivity. Qed.
Lemma get_description_le n : get_description (nle n) = get_description n.
Proof. unfold get_description. rewrite get_single_le by reflexivity. destruct (get_single n (KR RDescription)) as [v|]; [destruct v|]; reflexivity. Qed.

Lemma steps_of_le vs : steps_of (map vle vs) = option_map (map le_step) (steps_of vs).
Proof. induction vs as [|v r IH]; cbn; [reflexivity|]. destruct v; cbn; try reflexivity. rewrite IH. destruct (steps_of r); reflexivity. Qed.
Lemma scenarios_of_le vs : scenarios_of (map vle vs) = option_map (map le_sc) (scenarios_of vs).
Proof. induction vs as [|v r IH]; cbn; [reflexivity|]. destruct v; cbn; try reflexivity. rewrite IH. destruct (scenarios_of r); reflexivity. Qed.
Lemma examples_of_le vs : examples_of (map vle vs) = option_map (map le_ex) (examples_of vs).
Proof. induction vs as [|v r IH]; cbn; [reflexivity|]. destruct v; cbn; try reflexivity. rewrite IH. destruct (examples_of r); reflexivity. Qed.
Lemma rules_of_le vs : rules_of (map vle vs) = option_map (map (option_map le_rule)) (rules_of vs).
Proof. induction vs as [|v r IH]; cbn; [reflexivity|]. destruct v; cbn; try reflexivity; rewrite IH; destruct (rules_of r); reflexivity. Qed.
Lemma get_steps_le n : get_steps (nle n) = option_map (map le_step) (get_steps n).
Proof. unfold get_steps. rewrite get_items_le by reflexivity. apply steps_of_le. Qed.

Lemma gl_le t c : get_location (tle t) c = le_loc (get_location t c).
Proof. destruct c as [[|c]|]; reflexivity. Qed.

Lemma tags_of_items_le t its : forall i,
  tags_of_items (tle t) its i = (map le_tag (fst (tags_of_items t its i)), snd (tags_of_items t its i)).
Proof.
  induction its as [|[c x] r IH]; intros i; cbn [tags_of_items snd fst]; [reflexivity|].
  rewrite IH. destruct (tags_of_items t r (S i)) as [tl j]. cbn [fst snd map]. unfold le_tag at 2. cbn [tg_id tg_loc tg_name].
  rewrite gl_le. reflexivity.
Qed.
Lemma tags_of_tokens_le ts : forall i,
  tags_of_tokens (map tle ts) i = (map le_tag (fst (tags_of_tokens ts i)), snd (tags_of_tokens ts i)).
Proof.
  induction ts as [|t r IH]; intros i; cbn [map tags_of_tokens]; [reflexivity|].
  change (m_items (tle t)) with (m_items t). rewrite tags_of_items_le.
  destruct (tags_of_items t (m_items t) i) as [a i1]. cbn [fst snd]. rewrite IH.
  destruct (tags_of_tokens r i1) as [b i2]. cbn [fst snd]. now rewrite map_app.
Qed.
Lemma get_cells_le t : get_cells (tle t) = map le_cell (get_cells t).
Proof.
  unfold get_cells. change (m_items (tle t)) with (m_items t). rewrite !map_map. apply map_ext. intros [c x].
  cbn [fst snd]. unfold le_cell. cbn [c_loc c_value]. rewrite gl_le. reflexivity.
Qed.
Lemma rows_of_tokens_le ts : forall i,
  rows_of_tokens (map tle ts) i = (map le_row (fst (rows_of_tokens ts i)), snd (rows_of_tokens ts i)).
Proof.
  induction ts as [|t r IH]; intros i; cbn [map rows_of_tokens]; [reflexivity|].
  rewrite IH. destruct (rows_of_tokens r (S i)) as [rs j]. cbn [fst snd map]. unfold le_row at 2. cbn [r_id r_loc r_cells].
  rewrite get_cells_le, gl_le. reflexivity.
Qed.
Lemma texts_of_le ts : texts_of (map tle ts) = texts_of ts.
Proof. induction ts as [|t r IH]; cbn [map texts_of]; [reflexivity|]. rewrite IH. reflexivity. Qed.
Lemma drop_trailing_blank_le ts : drop_trailing_blank (map tle ts) = map tle (drop_trailing_blank ts).
Proof.
  induction ts as [|t r IH]; cbn [map drop_trailing_blank]; [reflexivity|]. rewrite IH.
  destruct (drop_trailing_blank r); cbn [map]; [|reflexivity].
  change (blank_text (tle t)) with (blank_text t). destruct (blank_text t); reflexivity.
Qed.

Definition tres_le {A} (f : A -> A) (r : tres A) : tres A :=
  match r with TOk a i => TOk (f a) i | TRaise e i => TRaise (le_err e) i | TCrash => TCrash end.

Lemma get_tags_le n i : get_tags (nle n) i = tres_le (map le_tag) (get_tags n i).
Proof.
  unfold get_tags. rewrite get_single_le by reflexivity. destruct (get_single n (KR RTags)) as [v|]; [destruct v|]; try reflexivity.
  cbn [option_map vle]. rewrite get_tokens_le by reflexivity. destruct (get_tokens n0 KTagLine); cbn [option_map]; [|reflexivity].
  rewrite tags_of_tokens_le. destruct (tags_of_tokens l i). reflexivity.
Qed.
Lemma find_ce_row f l : (forall x, f (le_row x) = f x) -> find f (map le_row l) = option_map le_row (find f l).
Proof. intros H. induction l as [|x xs IH]; [reflexivity|]. cbn [map find]. rewrite H. destruct (f x); [reflexivity | exact IH]. Qed.
Lemma first_ragged_le rows : first_ragged (map le_row rows) = option_map le_row (first_ragged rows).
Proof.
  unfold first_ragged. destruct rows as [|r0 rs]; [reflexivity|]. cbn [map].
  rewrite <- (find_ce_row (fun r => negb (length (r_cells r) =? length (r_cells r0)))).
  - cbn [map]. assert (E : length (r_cells (le_row r0)) = length (r_cells r0)) by (unfold le_row; cbn [r_cells]; apply map_length).
    rewrite E. reflexivity.
  - intros x. unfold le_row. cbn [r_cells]. now rewrite map_length.
Qed.
Lemma get_table_rows_le n i : get_table_rows (nle n) i = tres_le (map le_row) (get_table_rows n i).
Proof.
  unfold get_table_rows. rewrite get_tokens_le by reflexivity. destruct (get_tokens n KTableRow) as [ts|]; cbn [option_map]; [|reflexivity].
  rewrite rows_of_tokens_le. destruct (rows_of_tokens ts i) as [rows j]. cbn [fst snd].
  rewrite first_ragged_le. destruct (first_ragged rows) as [r|]; cbn [option_map tres_le]; [|reflexivity].
  rewrite le_err_pe. reflexivity.
Qed.

Lemma hd_error_map'' {A B} (f : A -> B) l : hd_error (map f l) = option_map f (hd_error l).
Proof. destruct l; reflexivity. Qed.
Lemma tl_map'' {A B} (f : A -> B) (l : list A) : tl (map f l) = map f (tl l).
Proof. destruct l; reflexivity. Qed.
Lemma forallb_some_le rls : forallb (fun r => match r with Some _ => true | None => false end) (map (option_map le_rule) rls)
                            = forallb (fun r : option grule => match r with Some _ => true | None => false end) rls.
Proof. induction rls as [|[x|] r IH]; cbn; [reflexivity | exact IH | reflexivity]. Qed.
Lemma rules_children_le rls :
  flat_map (fun r => match r with Some x => [FCRule x] | None => [] end) (map (option_map le_rule) rls)
  = map le_fchild (flat_map (fun r => match r with Some x => [FCRule x] | None => [] end) rls).
Proof. induction rls as [|[x|] r IH]; cbn; [reflexivity | now rewrite IH | exact IH]. Qed.

Ltac ler := repeat progress rewrite ?get_token_le, ?get_tags_le, ?get_table_rows_le, ?get_description_le, ?get_steps_le,
              ?get_single_le, ?get_items_le, ?get_tokens_le, ?scenarios_of_le, ?examples_of_le, ?rules_of_le, ?steps_of_le,
              ?texts_of_le, ?drop_trailing_blank_le, ?toks_of_le,
              ?hd_error_map'', ?tl_map'', ?forallb_some_le, ?rules_children_le, ?map_app, ?map_map.
Ltac plainl x := lazymatch x with
                 | context [vle] => fail
                 | context [nle] => fail
                 | context [tle] => fail
                 | context [le_row] => fail
                 | context [le_step] => fail
                 | context [le_sc] => fail
                 | context [le_ex] => fail
                 | context [le_rule] => fail
                 | context [le_tag] => fail
                 | context [match _ with _ => _ end] => fail
                 | _ => idtac
                 end.
Ltac crunchl :=
  repeat (ler; cbn beta iota delta [option_map tres_le vle nle tle m_text m_keyword m_ktype m_dialect map] fix; ler;
          try reflexivity;
          match goal with
          | |- context [match ?x with _ => _ end] => plainl x; destruct x
          | |- context [forallb ?f ?l] => plainl l; destruct (forallb f l)
          end).

Lemma transform_le n c i : transform_node (nle n) (map le_comment c) i = tres_le vle (transform_node n c i).
Proof.
  unfold transform_node. rewrite node_rt_le. destruct (node_rt n) as [q|r|]; try reflexivity.
  destruct r; try reflexivity; unfold opt_crash, tbind; crunchl.
  all: cbn [option_map tres_le vle]; unfold le_feature, le_rule, le_doc;
    cbn [f_tags f_loc f_language f_keyword f_name f_desc f_children ru_id ru_tags ru_loc ru_keyword ru_name ru_desc ru_children
         doc_feature doc_comments map app option_map];
    rewrite ?map_app, ?map_map; try reflexivity.
Qed.

(* ---- the builder operations respect "equal after erasure" ---- *)
Definition BRn (b b' : bstate) : Prop := ble b = ble b'.
Definition boutn_rel (o o' : bout) : Prop :=
  match o, o' with
  | BoOk b, BoOk b' => BRn b b'
  | BoRaise e b, BoRaise e' b' => le_err e = le_err e' /\ BRn b b'
  | BoCrash, BoCrash => True
  | _, _ => False
  end.

Lemma BRn_parts b b' : BRn b b' ->
  map nle (b_stack b) = map nle (b_stack b') /\ map le_comment (b_comments b) = map le_comment (b_comments b') /\ b_idc b = b_idc b'.
Proof. unfold BRn, ble. intros H. inversion H. auto. Qed.
Lemma BRn_make s s' c c' i : map nle s = map nle s' -> map le_comment c = map le_comment c' -> BRn (mk_bstate s c i) (mk_bstate s' c' i).
Proof. intros A B. unfold BRn, ble. cbn [b_stack b_comments b_idc]. now rewrite A, B. Qed.

Lemma builder_start_nrel r b b' : BRn b b' -> boutn_rel (builder_start r b) (builder_start r b').
Proof.
  intros H. destruct (BRn_parts b b' H) as (A & B & C). unfold builder_start. cbn [boutn_rel]. rewrite C.
  apply BRn_make; [cbn [map]; now rewrite A | exact B].
Qed.

Lemma tres_le_inv (r r' : tres value) : tres_le vle r = tres_le vle r' ->
  match r, r' with
  | TOk v i, TOk v' i' => vle v = vle v' /\ i = i'
  | TRaise e i, TRaise e' i' => le_err e = le_err e' /\ i = i'
  | TCrash, TCrash => True
  | _, _ => False
  end.
Proof. destruct r, r'; cbn; intros H; try discriminate H; try exact I; (split; congruence). Qed.

Lemma builder_end_nrel r b b' : BRn b b' -> boutn_rel (builder_end r b) (builder_end r b').
Proof.
  intros H. destruct (BRn_parts b b' H) as (A & B & C). unfold builder_end.
  destruct b as [s0 c0 i0], b' as [s0' c0' i0']. cbn [b_stack b_comments b_idc] in *. subst i0'.
  destruct s0 as [|n stk], s0' as [|n' stk']; try discriminate A; [exact I|].
  cbn [map] in A. injection A as An As.
  pose proof (transform_le n c0 i0) as T1. pose proof (transform_le n' c0' i0) as T2.
  rewrite An, B, T2 in T1. symmetry in T1. apply tres_le_inv in T1.
  destruct (transform_node n c0 i0) as [v i|e i|], (transform_node n' c0' i0) as [v' i'|e' i'|];
    cbn beta iota in T1; try contradiction; cbn [boutn_rel].
  - destruct T1 as [Ev <-]. destruct stk as [|cur stk2], stk' as [|cur' stk2']; try discriminate As; [exact I|].
    cbn [map] in As. injection As as Ac As2. cbn [boutn_rel]. apply BRn_make; [|exact B]. cbn [map]. rewrite As2. f_equal.
    rewrite !node_add_le. rewrite <- (node_rt_le n), <- (node_rt_le n'), An, Ac, Ev. reflexivity.
  - destruct T1 as [Ee <-]. split; [exact Ee|]. apply BRn_make; assumption.
  - exact I.
Qed.

Lemma builder_build_nrel t t' b b' : tle t = tle t' -> BRn b b' -> boutn_rel (builder_build t b) (builder_build t' b').
Proof.
  intros Ht H. destruct (BRn_parts b b' H) as (A & B & C). unfold builder_build.
  assert (Ety : m_type t = m_type t') by (unfold tle in Ht; inversion Ht; reflexivity).
  assert (Etx : m_text t = m_text t') by (unfold tle in Ht; inversion Ht; reflexivity).
  assert (Elo : le_loc (get_location t None) = le_loc (get_location t' None)) by (rewrite <- !gl_le, Ht; reflexivity).
  rewrite <- Ety, <- Etx. destruct (m_type t) as [kd|]; [|exact I].
  assert (G : boutn_rel match b_stack b with
                        | [] => BoCrash
                        | cur :: stk => BoOk (mk_bstate (node_add cur (KT kd) (VTok t) :: stk) (b_comments b) (b_idc b))
                        end
                        match b_stack b' with
                        | [] => BoCrash
                        | cur :: stk => BoOk (mk_bstate (node_add cur (KT kd) (VTok t') :: stk) (b_comments b') (b_idc b'))
                        end).
  { destruct (b_stack b) as [|cur stk], (b_stack b') as [|cur' stk']; try discriminate A; [exact I|].
    cbn [map] in A. injection A as Ac As. cbn [boutn_rel]. rewrite C. apply BRn_make; [|exact B]. cbn [map]. rewrite As. f_equal.
    rewrite !node_add_le. cbn [vle]. now rewrite Ac, Ht. }
  destruct kd; try exact G. destruct (m_text t); [|exact I]. cbn [boutn_rel]. rewrite C. apply BRn_make; [exact A|].
  rewrite !map_app, B. cbn [map]. unfold le_comment at 2 4. cbn [cm_loc cm_text]. now rewrite Elo.
Qed.

Lemma builder_result_nrel b b' : BRn b b' -> option_map le_doc (builder_result b) = option_map le_doc (builder_result b').
Proof.
  intros H. destruct (BRn_parts b b' H) as (A & _). unfold builder_result.
  destruct (b_stack b) as [|cur stk], (b_stack b') as [|cur' stk']; try discriminate A; [reflexivity|].
  cbn [map] in A. injection A as Ac _.
  pose proof (get_single_le cur (KR RGherkinDocument) eq_refl) as G1. pose proof (get_single_le cur' (KR RGherkinDocument) eq_refl) as G2.
  rewrite Ac, G2 in G1.
  destruct (get_single cur (KR RGherkinDocument)) as [v|], (get_single cur' (KR RGherkinDocument)) as [v'|]; cbn [option_map] in G1; try discriminate G1; [|reflexivity].
  assert (Y : forall a c : value, Some a = Some c -> a = c) by (intros a c E; now inversion E). apply Y in G1. destruct v, v'; cbn [vle] in G1; try discriminate G1; try reflexivity. cbn [option_map]. assert (X : forall a c, VDocument a = VDocument c -> a = c) by (intros a c E; now inversion E). now rewrite (X _ _ G1).
Qed.
Lemma reset_builder_nrel b b' : BRn b b' -> BRn (reset_builder b) (reset_builder b').
Proof. intros H. destruct (BRn_parts b b' H) as (_ & _ & C). unfold reset_builder. rewrite C. reflexivity. Qed.
