(* C16 / C03: the AST builder never looks at the physical line a token carries -- only at what the
   matcher recorded in it.  Stated with an eraser: running any builder operation on a state whose tokens
   have lost their lines gives the erased result. *)
From Coq Require Import String List Bool Arith NArith.
Import ListNotations.
Require Import Kinds PyStr Line Matcher Ast Builder.

Definition terase (t : token) : token :=
  mk_token None (tk_loc t) (m_type t) (m_text t) (m_keyword t) (m_ktype t) (m_indent t) (m_items t) (m_dialect t).

Fixpoint verase (v : value) : value :=
  match v with
  | VTok t => VTok (terase t)
  | VNode n => VNode (nerase n)
  | _ => v
  end
with nerase (n : node) : node :=
  match n with
  | Node rt items => Node rt ((fix go (l : list (key * value)) : list (key * value) :=
                                 match l with [] => [] | (k, v) :: r => (k, verase v) :: go r end) items)
  end.
Definition ierase (l : list (key * value)) : list (key * value) := map (fun kv => (fst kv, verase (snd kv))) l.
Lemma nerase_eq rt items : nerase (Node rt items) = Node rt (ierase items).
Proof. cbn [nerase]. f_equal. induction items as [|[k v] r IH]; cbn; [reflexivity|]. now rewrite IH. Qed.

Definition berase (b : bstate) : bstate := mk_bstate (map nerase (b_stack b)) (b_comments b) (b_idc b).

Lemma node_rt_erase n : node_rt (nerase n) = node_rt n.
Proof. destruct n. rewrite nerase_eq. reflexivity. Qed.
Lemma node_items_erase n : node_items (nerase n) = ierase (node_items n).
Proof. destruct n. rewrite nerase_eq. reflexivity. Qed.
Lemma node_add_erase n k v : nerase (node_add n k v) = node_add (nerase n) k (verase v).
Proof. destruct n. cbn [node_add]. rewrite !nerase_eq. cbn [node_add]. unfold ierase. rewrite map_app. reflexivity. Qed.

Lemma get_items_erase n k : get_items (nerase n) k = map verase (get_items n k).
Proof.
  unfold get_items. rewrite node_items_erase. unfold ierase. induction (node_items n) as [|[k0 v] r IH]; cbn [map filter fst snd]; [reflexivity|].
  destruct (key_beq k0 k); cbn [map fst snd]; now rewrite IH.
Qed.
Lemma get_single_erase n k : get_single (nerase n) k = option_map verase (get_single n k).
Proof. unfold get_single. rewrite get_items_erase. destruct (get_items n k); reflexivity. Qed.

Lemma toks_of_erase vs : toks_of (map verase vs) = option_map (map terase) (toks_of vs).
Proof.
  induction vs as [|v r IH]; cbn; [reflexivity|]. destruct v; cbn; try reflexivity.
  rewrite IH. destruct (toks_of r); reflexivity.
Qed.
Lemma get_tokens_erase n k : get_tokens (nerase n) k = option_map (map terase) (get_tokens n k).
Proof. unfold get_tokens. rewrite get_items_erase. apply toks_of_erase. Qed.

Lemma tags_of_items_erase t its idc : tags_of_items (terase t) its idc = tags_of_items t its idc.
Proof. revert idc. induction its as [|[c x] r IH]; intros idc; cbn; [reflexivity|]. rewrite IH. reflexivity. Qed.
Lemma tags_of_tokens_erase ts : forall idc, tags_of_tokens (map terase ts) idc = tags_of_tokens ts idc.
Proof.
  induction ts as [|t r IH]; intros idc; cbn [map tags_of_tokens]; [reflexivity|].
  change (m_items (terase t)) with (m_items t). rewrite tags_of_items_erase.
  destruct (tags_of_items t (m_items t) idc) as [a i1]. rewrite IH. reflexivity.
Qed.
Lemma rows_of_tokens_erase ts : forall idc, rows_of_tokens (map terase ts) idc = rows_of_tokens ts idc.
Proof. induction ts as [|t r IH]; intros idc; cbn [map rows_of_tokens]; [reflexivity|]. rewrite IH. reflexivity. Qed.
Lemma texts_of_erase ts : texts_of (map terase ts) = texts_of ts.
Proof. induction ts as [|t r IH]; cbn [map texts_of]; [reflexivity|]. rewrite IH. reflexivity. Qed.
Lemma drop_trailing_blank_erase ts : drop_trailing_blank (map terase ts) = map terase (drop_trailing_blank ts).
Proof.
  induction ts as [|t r IH]; cbn [map drop_trailing_blank]; [reflexivity|]. rewrite IH.
  destruct (drop_trailing_blank r); cbn [map]; [|reflexivity].
  change (blank_text (terase t)) with (blank_text t). destruct (blank_text t); reflexivity.
Qed.
Lemma steps_of_erase vs : steps_of (map verase vs) = steps_of vs.
Proof. induction vs as [|v r IH]; cbn; [reflexivity|]. destruct v; cbn; try reflexivity. now rewrite IH. Qed.
Lemma scenarios_of_erase vs : scenarios_of (map verase vs) = scenarios_of vs.
Proof. induction vs as [|v r IH]; cbn; [reflexivity|]. destruct v; cbn; try reflexivity. now rewrite IH. Qed.
Lemma examples_of_erase vs : examples_of (map verase vs) = examples_of vs.
Proof. induction vs as [|v r IH]; cbn; [reflexivity|]. destruct v; cbn; try reflexivity. now rewrite IH. Qed.
Lemma rules_of_erase vs : rules_of (map verase vs) = rules_of vs.
Proof. induction vs as [|v r IH]; cbn; [reflexivity|]. destruct v; cbn; try reflexivity; now rewrite IH. Qed.

Lemma get_token_erase n k : get_token (nerase n) k = option_map (option_map terase) (get_token n k).
Proof. unfold get_token. rewrite get_single_erase. destruct (get_single n (KT k)) as [v|]; [destruct v|]; reflexivity. Qed.
Lemma get_description_erase n : get_description (nerase n) = get_description n.
Proof. unfold get_description. rewrite get_single_erase. destruct (get_single n (KR RDescription)) as [v|]; [destruct v|]; reflexivity. Qed.
Lemma get_steps_erase n : get_steps (nerase n) = get_steps n.
Proof. unfold get_steps. rewrite get_items_erase. apply steps_of_erase. Qed.
Lemma get_tags_erase n idc : get_tags (nerase n) idc = get_tags n idc.
Proof.
  unfold get_tags. rewrite get_single_erase. destruct (get_single n (KR RTags)) as [v|]; [destruct v|]; try reflexivity.
  cbn [option_map verase]. rewrite get_tokens_erase. destruct (get_tokens n0 KTagLine); cbn [option_map]; [|reflexivity].
  rewrite tags_of_tokens_erase. reflexivity.
Qed.
Lemma get_table_rows_erase n idc : get_table_rows (nerase n) idc = get_table_rows n idc.
Proof.
  unfold get_table_rows. rewrite get_tokens_erase. destruct (get_tokens n KTableRow); cbn [option_map]; [|reflexivity].
  rewrite rows_of_tokens_erase. reflexivity.
Qed.

Definition tres_map (f : value -> value) (r : tres value) : tres value :=
  match r with TOk v i => TOk (f v) i | TRaise e i => TRaise e i | TCrash => TCrash end.

Ltac er := repeat progress rewrite ?get_token_erase, ?get_tags_erase, ?get_table_rows_erase, ?get_description_erase, ?get_steps_erase,
            ?get_single_erase, ?get_items_erase, ?get_tokens_erase, ?scenarios_of_erase, ?examples_of_erase, ?rules_of_erase,
            ?steps_of_erase, ?texts_of_erase, ?drop_trailing_blank_erase, ?toks_of_erase, ?tags_of_tokens_erase, ?rows_of_tokens_erase.
Ltac noerase x := lazymatch x with
                  | context [verase] => fail
                  | context [terase] => fail
                  | context [nerase] => fail
                  | context [match _ with _ => _ end] => fail
                  | _ => idtac
                  end.
Ltac crunch :=
  repeat (er; cbn beta iota delta [option_map tres_map terase verase nerase m_text m_keyword m_ktype m_dialect m_items tk_loc get_location map] fix; er;
          try reflexivity;
          match goal with
          | |- context [match ?x with _ => _ end] => noerase x; destruct x
          | |- context [forallb ?f ?l] => destruct (forallb f l)
          end).

Lemma transform_erase n c i : transform_node (nerase n) c i = tres_map verase (transform_node n c i).
Proof.
  unfold transform_node. rewrite node_rt_erase. destruct (node_rt n) as [k|r|]; try reflexivity.
  destruct r; try reflexivity; unfold opt_crash, tbind; crunch.
Qed.

(* ---- the builder operations commute with the eraser ---- *)
Definition bout_map (f : bstate -> bstate) (o : bout) : bout :=
  match o with BoOk b => BoOk (f b) | BoRaise e b => BoRaise e (f b) | BoCrash => BoCrash end.

Lemma builder_start_erase r b : bout_map berase (builder_start r b) = builder_start r (berase b).
Proof. reflexivity. Qed.

Lemma builder_end_erase r b : bout_map berase (builder_end r b) = builder_end r (berase b).
Proof.
  unfold builder_end, berase. cbn [b_stack b_comments b_idc]. destruct (b_stack b) as [|n stk]; [reflexivity|].
  cbn [map]. rewrite transform_erase. destruct (transform_node n (b_comments b) (b_idc b)) as [v i|e i|]; cbn [tres_map bout_map]; try reflexivity.
  destruct stk as [|cur stk']; [reflexivity|]. cbn [map bout_map berase b_stack b_comments b_idc].
  rewrite node_add_erase, node_rt_erase. reflexivity.
Qed.

Lemma builder_build_erase t b : bout_map berase (builder_build t b) = builder_build (terase t) (berase b).
Proof.
  unfold builder_build. change (m_type (terase t)) with (m_type t). change (m_text (terase t)) with (m_text t).
  destruct (m_type t) as [k|]; [|reflexivity].
  assert (G : match b_stack b with
              | [] => BoCrash
              | cur :: stk => BoOk (mk_bstate (node_add cur (KT k) (VTok t) :: stk) (b_comments b) (b_idc b))
              end = match b_stack b with
              | [] => BoCrash
              | cur :: stk => BoOk (mk_bstate (node_add cur (KT k) (VTok t) :: stk) (b_comments b) (b_idc b))
              end) by reflexivity.
  destruct k; try (unfold berase; cbn [b_stack b_comments b_idc]; destruct (b_stack b) as [|cur stk]; [reflexivity|];
                   cbn [map bout_map berase b_stack b_comments b_idc]; rewrite node_add_erase; reflexivity).
  destruct (m_text t); reflexivity.
Qed.

Lemma builder_result_erase b : builder_result (berase b) = builder_result b.
Proof.
  unfold builder_result, berase. cbn [b_stack]. destruct (b_stack b) as [|cur stk]; [reflexivity|]. cbn [map].
  rewrite get_single_erase. destruct (get_single cur (KR RGherkinDocument)) as [v|]; [destruct v|]; reflexivity.
Qed.

(* two builder states that differ only in the physical lines their tokens carry *)
Definition BRel (b b' : bstate) : Prop := berase b = berase b'.
Definition bout_rel (o o' : bout) : Prop :=
  match o, o' with
  | BoOk b, BoOk b' => BRel b b'
  | BoRaise e b, BoRaise e' b' => e = e' /\ BRel b b'
  | BoCrash, BoCrash => True
  | _, _ => False
  end.
Lemma bout_rel_of_map o o' : bout_map berase o = bout_map berase o' -> bout_rel o o'.
Proof.
  destruct o as [b|e b|], o' as [b'|e' b'|]; cbn [bout_map bout_rel]; unfold BRel; intros H; try discriminate H.
  - assert (X : forall a c, BoOk a = BoOk c -> a = c) by (intros a c E; now inversion E). exact (X _ _ H).
  - assert (X : forall a c x y, BoRaise x a = BoRaise y c -> x = y /\ a = c) by (intros a c x y E; now inversion E). exact (X _ _ _ _ H).
  - exact I.
Qed.

Lemma builder_start_rel r b b' : BRel b b' -> bout_rel (builder_start r b) (builder_start r b').
Proof. intros H. apply bout_rel_of_map. rewrite !builder_start_erase. unfold BRel in H. now rewrite H. Qed.
Lemma builder_end_rel r b b' : BRel b b' -> bout_rel (builder_end r b) (builder_end r b').
Proof. intros H. apply bout_rel_of_map. rewrite !builder_end_erase. unfold BRel in H. now rewrite H. Qed.
Lemma builder_build_rel t t' b b' : terase t = terase t' -> BRel b b' -> bout_rel (builder_build t b) (builder_build t' b').
Proof. intros Ht H. apply bout_rel_of_map. rewrite !builder_build_erase. unfold BRel in H. now rewrite H, Ht. Qed.
Lemma builder_result_rel b b' : BRel b b' -> builder_result b = builder_result b'.
Proof. intros H. rewrite <- (builder_result_erase b), <- (builder_result_erase b'). unfold BRel in H. now rewrite H. Qed.
