(* C11: the density certificate for the regenerated table. *)
From Coq Require Import List Bool Arith.
Import ListNotations.
Require Import Kinds Table TableFacts DenseDefs.

Definition gamma : dmap :=
  Eval vm_compute in drounds table 60 [(start_state, [aframe0])].

Lemma gamma_ok : dense_ok table start_state gamma = true.
Proof. vm_compute. reflexivity. Qed.

(* the target of every #EOF test carries exactly the document frame *)
Lemma gamma_ends : forallb (fun x => forallb (fun y =>
    negb (kind_beq (t_kind y) KEOF) ||
    match dlookup (t_tgt y) gamma with Some [f] => rule_beq (af_rule f) RGherkinDocument | _ => false end) (s_tests x)) table = true.
Proof. vm_compute. reflexivity. Qed.
