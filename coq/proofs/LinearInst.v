(* C01 (linear number of matcher calls): the side-conditions of Linear.parse_calls decided on the
   regenerated table, and the theorem instantiated for the kind-level stub and for the real pipeline. *)
From Coq Require Import List Bool Arith NArith Lia.
Import ListNotations.
Require Import Kinds Automaton AutoFacts Delivery Linear TableFacts NestingDefs C02Lemmas DeliveryInst
               Stub Table PyStr Line Matcher MatcherFacts Builder Pipeline PipelineFacts Dialects.

(* ---- the table certificate ---- *)
Definition SKKs : list kind := [KEmpty; KComment; KTagLine; KOther; KLanguage; KDocStringSeparator].
Definition in_skk (k : kind) : bool := existsb (kind_beq k) SKKs.
Definition memn (n : nat) (l : list nat) : bool := existsb (Nat.eqb n) l.
Definition guarded_state (x : st) : bool :=
  existsb (fun y => match t_guard y with Some _ => true | None => false end) (s_tests x).

(* candidate quiet states: where a #TagLine leads from a state with guarded tests, closed under the
   kinds a skippable line can answer to (computed; what is verified are the checks below) *)
Definition qseed (tbl : list st) : list nat :=
  flat_map (fun x => if guarded_state x then map t_tgt (filter (fun y => kind_beq (t_kind y) KTagLine) (s_tests x)) else []) tbl.
Fixpoint qclose (tbl : list st) (fuel : nat) (Q : list nat) : list nat :=
  match fuel with
  | 0 => Q
  | S f =>
    let new := flat_map (fun s => match find (fun x => Nat.eqb (s_id x) s) tbl with
                                  | Some x => map t_tgt (filter (fun y => in_skk (t_kind y)) (s_tests x))
                                  | None => []
                                  end) Q in
    qclose tbl f (fold_right (fun n acc => if memn n acc then acc else n :: acc) Q new)
  end.
Definition QS : list nat := qclose Table.table (length Table.table) (qseed Table.table).
Definition quietb (s : nat) : bool := memn s QS.

Fixpoint fbb (tests : list test) : bool :=
  match tests with
  | [] => false
  | y :: ys => kind_beq (t_kind y) KTagLine && quietb (t_tgt y)
               && match t_guard y with None => true | Some _ => fbb ys end
  end.
Fixpoint hfbb (tests : list test) : bool :=
  match tests with
  | [] => true
  | y :: post => match t_guard y with
                 | None => true
                 | Some _ => kind_beq (t_kind y) KTagLine && quietb (t_tgt y) && fbb post
                 end && hfbb post
  end.
Definition Tc := 12. Definition Gc := 2. Definition Lc := 4.
Definition linear_cert (tbl : list st) (las : list la) : bool :=
  forallb (fun x =>
    hfbb (s_tests x)
    && (negb (quietb (s_id x))
        || (Nat.eqb (nguards (s_tests x)) 0
            && forallb (fun y => negb (in_skk (t_kind y)) || quietb (t_tgt y)) (s_tests x)))
    && Nat.eqb (s_err x) (s_id x)
    && (length (s_tests x) <=? Tc) && (nguards (s_tests x) <=? Gc)) tbl
  && forallb (fun h => lcost h <=? Lc) las.
Lemma linear_cert_ok : linear_cert Table.table Table.lookaheads = true.
Proof. vm_compute. reflexivity. Qed.

Lemma fbb_sound tests : fbb tests = true -> fb quietb KTagLine tests.
Proof.
  induction tests as [|y ys IH]; cbn [fbb fb]; [discriminate|]. intros H.
  apply andb_prop in H as [H G]. apply andb_prop in H as [K Q]. apply kind_beq_eq in K.
  split; [exact K|]. split; [exact Q|]. destruct (t_guard y); [right; auto | left; reflexivity].
Qed.

Lemma hfbb_sound tests : hfbb tests = true -> forall pre y post, tests = pre ++ y :: post -> t_guard y <> None ->
  t_kind y = KTagLine /\ quietb (t_tgt y) = true /\ fb quietb KTagLine post.
Proof.
  induction tests as [|y0 ys IH]; intros H pre y post E G; [destruct pre; discriminate|].
  cbn [hfbb] in H. apply andb_prop in H as [H0 Hs].
  destruct pre as [|p pre]; cbn [app] in E; inversion E; subst.
  - destruct (t_guard y); [|congruence]. apply andb_prop in H0 as [H0 F]. apply andb_prop in H0 as [K Q].
    apply kind_beq_eq in K. auto using fbb_sound.
  - apply (IH Hs pre y post eq_refl G).
Qed.

Section Cert.
  Variable x : st.
  Hypothesis Hx : In x Table.table.
  Let C : (hfbb (s_tests x)
    && (negb (quietb (s_id x))
        || (Nat.eqb (nguards (s_tests x)) 0
            && forallb (fun y => negb (in_skk (t_kind y)) || quietb (t_tgt y)) (s_tests x)))
    && Nat.eqb (s_err x) (s_id x)
    && (length (s_tests x) <=? Tc) && (nguards (s_tests x) <=? Gc)) = true.
  Proof.
    pose proof linear_cert_ok as H. unfold linear_cert in H. apply andb_prop in H as [H _].
    rewrite forallb_forall in H. exact (H x Hx).
  Qed.

  Lemma cert_hfb pre y post : s_tests x = pre ++ y :: post -> t_guard y <> None ->
    t_kind y = KTagLine /\ quietb (t_tgt y) = true /\ fb quietb KTagLine post.
  Proof.
    pose proof C as H. do 4 (apply andb_prop in H as [H _]). exact (hfbb_sound _ H pre y post).
  Qed.
  Lemma cert_quiet : quietb (s_id x) = true ->
    nguards (s_tests x) = 0 /\ forall y, In y (s_tests x) -> In (t_kind y) SKKs -> quietb (t_tgt y) = true.
  Proof.
    intros Q. pose proof C as H. do 3 (apply andb_prop in H as [H _]). apply andb_prop in H as [_ H].
    rewrite Q in H. cbn [negb orb] in H. apply andb_prop in H as [H1 H2]. apply Nat.eqb_eq in H1. split; [exact H1|].
    intros y Hy Ky. rewrite forallb_forall in H2. specialize (H2 y Hy).
    assert (S : in_skk (t_kind y) = true).
    { unfold in_skk. apply existsb_exists. exists (t_kind y). split; [exact Ky | now apply kind_beq_eq]. }
    rewrite S in H2. exact H2.
  Qed.
  Lemma cert_err : s_err x = s_id x.
  Proof. pose proof C as H. do 2 (apply andb_prop in H as [H _]). apply andb_prop in H as [_ H]. now apply Nat.eqb_eq. Qed.
  Lemma cert_T : length (s_tests x) <= Tc.
  Proof. pose proof C as H. apply andb_prop in H as [H _]. apply andb_prop in H as [_ H]. now apply Nat.leb_le. Qed.
  Lemma cert_G : nguards (s_tests x) <= Gc.
  Proof. pose proof C as H. apply andb_prop in H as [_ H]. now apply Nat.leb_le. Qed.
End Cert.

Lemma cert_L h : In h Table.lookaheads -> lcost h <= Lc.
Proof.
  intros Hh. pose proof linear_cert_ok as H. unfold linear_cert in H. apply andb_prop in H as [_ H].
  rewrite forallb_forall in H. apply Nat.leb_le. exact (H h Hh).
Qed.

Lemma cert_guards_kind x y : In x Table.table -> In y (s_tests x) -> t_guard y <> None -> t_kind y = KTagLine.
Proof.
  intros Hx Hy G. apply in_split in Hy as (pre & post & E). destruct (cert_hfb x Hx pre y post E G) as [K _]. exact K.
Qed.
Lemma cert_Hfb x pre y post : In x Table.table -> s_tests x = pre ++ y :: post -> t_guard y <> None ->
  quietb (t_tgt y) = true /\ fb quietb KTagLine post.
Proof. intros Hx E G. destruct (cert_hfb x Hx pre y post E G) as (_ & Q & F). auto. Qed.

(* ================= stub ================= *)
Definition s_gk (t : tok) : Prop := fst t = KTagLine.

Lemma s_G1 (m : unit) (t t' : tok) (m' : unit) : True -> matchf sP KTagLine m t = MR true t' m' -> s_gk t'.
Proof.
  intros _ M. cbn in M. inversion M as [[A B C]]. subst t'. destruct t as [k n]. unfold s_gk. cbn in *.
  destruct k; try discriminate A; reflexivity.
Qed.
Lemma s_G2 (m : unit) (t : tok) : True -> s_gk t ->
  is_eof sP t = false /\ exists t' m', matchf sP KTagLine m t = MR true t' m' /\ s_gk t'.
Proof.
  intros _ G. destruct t as [k n]. unfold s_gk in G. cbn in G. subst k. split; [reflexivity|].
  exists (KTagLine, n), m. split; [destruct m; reflexivity | reflexivity].
Qed.
Lemma s_sk_stable k (m : unit) t : s_sk t -> s_sk (Delivery.mtok (matchf sP k m t)).
Proof. intros H. exact H. Qed.
Lemma s_sk_kinds k (m : unit) t : s_sk t -> True -> ~ In k SKKs -> matchf sP k m t = MR false t m.
Proof.
  intros Hs _ Nk. destruct t as [kk n]. cbn. f_equal.
  destruct Hs as [H|[H|[H|H]]]; simpl in H; subst kk;
    destruct k; try reflexivity; exfalso; apply Nk; cbn; tauto.
Qed.

Theorem stub_calls stop w : Forall (fun k => k <> KEOF) w ->
  match Stub.run stop w with
  | Ok _ c | Raise1 _ c | RaiseC _ c | Crash c => calls c <= (Tc + Gc * Lc) * (length w + 1)
  | OutOfFuel => False
  end.
Proof.
  intros Hw.
  assert (Len : length (number w) = length w).
  { unfold number. pose proof (combine_length w (seq 1 (length w))) as H. rewrite seq_length, Nat.min_id in H. exact H. }
  pose proof (parse_calls sP tok (fun t => t) s_sk (fun _ => True)
                (fun k m t => eq_refl) (fun k m t => eq_refl) (fun n => eq_refl) (fun k m t _ => Logic.I)
                s_sk_not_eof s_S1 s_S2 la_no_eof_table Lc cert_L quietb KTagLine s_gk SKKs
                cert_guards_kind s_G1 s_G2 s_sk_stable s_sk_kinds cert_Hfb
                (fun x Hx Q => proj1 (cert_quiet x Hx Q)) (fun x y Hx Q => proj2 (cert_quiet x Hx Q) y)
                cert_err s_match_eof builds_once_table (total_of_states_total sP states_total_ok) (err_known_table sP eq_refl)
                Tc Gc cert_T cert_G stop (number w) tt tt (number_noeof w Hw) Logic.I stub_start) as D.
  rewrite Len in D. unfold Stub.run, run_on. fold sP.
  destruct (parse sP stop (number w) tt tt); exact D.
Qed.

(* ================= real pipeline ================= *)
Local Open Scope N_scope.

(* side-condition on the dialect table: no keyword of any role is empty or starts with '#' or '@' *)
Definition kw_head_ok2 (k : str) : bool :=
  match k with [] => false | c :: _ => negb (c =? HASH) && negb (c =? AT) && negb (c =? PIPE) end.
Definition dialect_all_heads_ok (d : dialect) : bool :=
  forallb kw_head_ok2 (d_feature d ++ d_rule d ++ d_background d ++ d_scenario d ++ d_scenarioOutline d ++ d_examples d
                       ++ step_keywords d).
Lemma dialects_all_heads_ok : forallb dialect_all_heads_ok dialects = true.
Proof. vm_compute. reflexivity. Qed.

Lemma all_heads_ok_of m k : wf_ms m ->
  In k (d_feature (ms_dialect m) ++ d_rule (ms_dialect m) ++ d_background (ms_dialect m) ++ d_scenario (ms_dialect m)
        ++ d_scenarioOutline (ms_dialect m) ++ d_examples (ms_dialect m) ++ step_keywords (ms_dialect m)) ->
  kw_head_ok2 k = true.
Proof.
  intros W Hk. pose proof dialects_all_heads_ok as A. rewrite forallb_forall in A.
  specialize (A _ (wf_dialect_in m W)). unfold dialect_all_heads_ok in A. rewrite forallb_forall in A. auto.
Qed.

Lemma sk_line_head l : sk_line l -> l_trimmed l = [] \/ exists c r, l_trimmed l = c :: r /\ (c = HASH \/ c = AT).
Proof.
  unfold sk_line, line_is_empty, line_startswith. destruct (l_trimmed l) as [|c r]; [auto|]. intros Hs. right. exists c, r. split; [reflexivity|].
  destruct Hs as [H|[H|[H _]]]; [discriminate| |]; cbn [starts_with] in H; apply andb_prop in H as [H _]; apply N.eqb_eq in H; auto.
Qed.

Lemma prefix_none_on_sk l k : sk_line l -> kw_head_ok2 k = true -> line_startswith l k = false.
Proof.
  intros Hs Hk. unfold line_startswith. destruct k as [|c' k]; [discriminate Hk|].
  destruct (sk_line_head l Hs) as [E|(c & r & E & Hc)]; rewrite E; [reflexivity|].
  cbn [starts_with]. destruct (c' =? c) eqn:Ec; [|reflexivity]. apply N.eqb_eq in Ec. subst c'.
  destruct Hc as [-> | ->]; cbv in Hk; discriminate.
Qed.

Lemma title_none_on_sk2 l ks : sk_line l -> (forall k, In k ks -> kw_head_ok2 k = true) -> first_title_keyword l ks = None.
Proof.
  intros Hs Hk. destruct (first_title_keyword l ks) as [k|] eqn:F; [|reflexivity]. exfalso.
  apply first_title_keyword_in in F as [Hin St]. specialize (Hk k Hin).
  unfold startswith_title_keyword in St. destruct k as [|c' k]; [discriminate Hk|].
  destruct (sk_line_head l Hs) as [E|(c & r & E & Hc)]; rewrite E in St; [discriminate St|].
  cbn [app starts_with] in St. apply andb_prop in St as [St _]. apply N.eqb_eq in St. subst c'.
  destruct Hc as [-> | ->]; cbv in Hk; discriminate.
Qed.

Lemma first_prefix_none_on_sk l ks : sk_line l -> (forall k, In k ks -> kw_head_ok2 k = true) -> first_prefix l ks = None.
Proof.
  intros Hs. induction ks as [|k ks IH]; intros Hk; cbn [first_prefix]; [reflexivity|].
  rewrite (prefix_none_on_sk l k Hs (Hk k (or_introl eq_refl))). apply IH. intros k' Hk'. apply Hk. now right.
Qed.

Lemma pipe_none_on_sk l : sk_line l -> line_startswith l [PIPE] = false.
Proof.
  intros Hs. unfold line_startswith. destruct (sk_line_head l Hs) as [E|(c & r & E & Hc)]; rewrite E; [reflexivity|].
  destruct Hc as [-> | ->]; reflexivity.
Qed.

Definition p_gk (t : token) : Prop :=
  match tk_line t with
  | Some l => line_startswith l [AT] = true /\ exists its, line_tags l = TagsOk its
  | None => False
  end.

Lemma p_G1 m t t' m' : p_I m -> matchf rP KTagLine m t = MR true t' m' -> p_gk t'.
Proof.
  intros _ M. cbn [matchf rP pipeline_params] in M. unfold p_matchf in M.
  destruct (matcher dialects KTagLine m t) as [|t1 m1|e t1 m1] eqn:Mt; inversion M; subst; clear M.
  unfold matcher in Mt. destruct (tk_line t) as [l|] eqn:L; [|discriminate].
  destruct (line_startswith l [AT]) eqn:E; [|discriminate].
  destruct (line_tags l) as [its|c] eqn:T; inversion Mt; subst. unfold p_gk. cbn [tk_line set_matched]. rewrite L. eauto.
Qed.

Lemma p_G2 m t : p_I m -> p_gk t ->
  is_eof rP t = false /\ exists t' m', matchf rP KTagLine m t = MR true t' m' /\ p_gk t'.
Proof.
  intros _ G. unfold p_gk in G. destruct (tk_line t) as [l|] eqn:L; [|destruct G]. destruct G as [A [its T]]. split.
  - cbn. unfold tok_is_eof. rewrite L. reflexivity.
  - cbn [matchf rP pipeline_params]. unfold p_matchf, matcher. rewrite L, A, T. eexists; eexists. split; [reflexivity|].
    unfold p_gk. cbn [tk_line set_matched]. rewrite L. eauto.
Qed.

Lemma p_sk_stable k m t : p_sk t -> p_sk (Delivery.mtok (matchf rP k m t)).
Proof.
  intros Hs. cbn [matchf rP pipeline_params]. unfold p_matchf. pose proof (matcher_line dialects k m t) as A.
  destruct (matcher dialects k m t); cbn [Delivery.mtok]; [exact Hs | |]; unfold p_sk in *; rewrite A; exact Hs.
Qed.

Lemma p_sk_kinds k m t : p_sk t -> p_I m -> ~ In k SKKs -> matchf rP k m t = MR false t m.
Proof.
  intros Hs W Nk. unfold p_sk in Hs. destruct (tk_line t) as [l|] eqn:L; [|destruct Hs]. fold (sk_line l) in Hs.
  pose proof (all_heads_ok_of m) as A.
  assert (H1 : forall k0, In k0 (d_feature (ms_dialect m)) -> kw_head_ok2 k0 = true) by (intros k0 X; apply A; auto; apply in_or_app; now left).
  assert (H2 : forall k0, In k0 (d_rule (ms_dialect m)) -> kw_head_ok2 k0 = true) by (intros k0 X; apply A; auto; apply in_or_app; right; apply in_or_app; now left).
  assert (H3 : forall k0, In k0 (d_background (ms_dialect m)) -> kw_head_ok2 k0 = true) by (intros k0 X; apply A; auto; do 2 (apply in_or_app; right); apply in_or_app; now left).
  assert (H4 : forall k0, In k0 (d_scenario (ms_dialect m)) -> kw_head_ok2 k0 = true) by (intros k0 X; apply A; auto; do 3 (apply in_or_app; right); apply in_or_app; now left).
  assert (H5 : forall k0, In k0 (d_scenarioOutline (ms_dialect m)) -> kw_head_ok2 k0 = true) by (intros k0 X; apply A; auto; do 4 (apply in_or_app; right); apply in_or_app; now left).
  assert (H6 : forall k0, In k0 (d_examples (ms_dialect m)) -> kw_head_ok2 k0 = true) by (intros k0 X; apply A; auto; do 5 (apply in_or_app; right); apply in_or_app; now left).
  assert (H7 : forall k0, In k0 (step_keywords (ms_dialect m)) -> kw_head_ok2 k0 = true) by (intros k0 X; apply A; auto; do 6 (apply in_or_app; right); exact X).
  cbn [matchf rP pipeline_params]. unfold p_matchf, matcher. rewrite L.
  destruct k; try (exfalso; apply Nk; cbn; tauto); unfold match_title_line.
  - reflexivity.
  - rewrite (title_none_on_sk2 l _ Hs H1). reflexivity.
  - rewrite (title_none_on_sk2 l _ Hs H2). reflexivity.
  - rewrite (title_none_on_sk2 l _ Hs H3). reflexivity.
  - rewrite (title_none_on_sk2 l _ Hs H4), (title_none_on_sk2 l _ Hs H5). reflexivity.
  - rewrite (title_none_on_sk2 l _ Hs H6). reflexivity.
  - rewrite (first_prefix_none_on_sk l _ Hs H7). reflexivity.
  - rewrite (pipe_none_on_sk l Hs). reflexivity.
Qed.

Local Close Scope N_scope.

(* the real pipeline: at most 20 matcher calls per physical line (and for the end of file) *)
Theorem pipeline_calls stop toks m b : Forall (fun t => tok_is_eof t = false) toks -> wf_ms m ->
  match parse_tokens stop toks m b with
  | Ok _ c | Raise1 _ c | RaiseC _ c | Crash c => calls c <= (Tc + Gc * Lc) * (length toks + 1)
  | OutOfFuel => False
  end.
Proof.
  intros Hne W. unfold parse_tokens, parse_tokens_with. fold rP.
  destruct (reset_matcher_wf' m W) as [W' _].
  pose proof (parse_calls rP _ tkey p_sk p_I p_key_pres p_eof_pres (fun n => eq_refl) p_I_pres p_sk_not_eof
           p_S1 p_S2 la_no_eof_table Lc cert_L quietb KTagLine p_gk SKKs
           cert_guards_kind p_G1 p_G2 p_sk_stable p_sk_kinds cert_Hfb
           (fun x Hx Q => proj1 (cert_quiet x Hx Q)) (fun x y Hx Q => proj2 (cert_quiet x Hx Q) y)
           cert_err p_match_eof builds_once_table
           (total_of_states_total rP states_total_ok) (err_known_table rP eq_refl)
           Tc Gc cert_T cert_G
           stop toks (reset_matcher dialects m) (reset_builder b) Hne W' pipe_start) as D.
  destruct (parse rP stop toks (reset_matcher dialects m) (reset_builder b)); exact D.
Qed.

Theorem source_calls stop m b src : wf_ms m ->
  match parse_source stop m b src with
  | POk _ _ _ n | PErrs _ _ _ n | PErr1 _ _ _ n => n <= 20 * (length (py_lines src) + 1)
  | PCrash => True
  | POutOfFuel => False
  end.
Proof.
  intros W. pose proof (pipeline_calls stop (scan src) m b (scan_noeof_from (py_lines src) 1) W) as D.
  unfold parse_source. assert (E : length (scan src) = length (py_lines src)) by (unfold scan; apply number_lines_length). rewrite E in D.
  change ((Tc + Gc * Lc)) with 20 in D.
  destruct (parse_tokens stop (scan src) m b) as [[] c|e c|es c|c|]; try exact D; try exact Logic.I.
  destruct (builder_result (bs c)); [exact D | exact Logic.I].
Qed.
