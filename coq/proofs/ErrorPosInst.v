(* ErrorPos.v for the regenerated table: the closure certificate, liveness of every state, and the statement in terms
   of the reference recogniser of gherkin.berp. *)
From Coq Require Import List Bool Arith Lia.
Import ListNotations.
Require Import Kinds Regex Grammar RefSem Stub NFA Table LanguageLink Bisim ErrorPos.

Notation tbl := Table.table.
Notation las := Table.lookaheads.

Lemma table_exact_at x : In x tbl -> exact_at tbl las (s_tests x).
Proof.
  intros Hx. apply (exact_tests_sound tbl las cert_fuel). pose proof table_exact as T. rewrite forallb_forall in T. exact (T x Hx).
Qed.

Lemma table_unguarded_follows : forallb (fun x => unguarded_follows (s_tests x)) tbl = true.
Proof. vm_compute. reflexivity. Qed.
Lemma table_HF1 x : In x tbl -> unguarded_follows (s_tests x) = true.
Proof. pose proof table_unguarded_follows as A. rewrite forallb_forall in A. exact (A x). Qed.

Lemma table_skip_ok : las_skip_ok las = true.
Proof. vm_compute. reflexivity. Qed.

(* the states reached by the alternatives of a guarded test, closed under blank lines, comments and tag lines *)
Definition q_init : list nat :=
  flat_map (fun x => flat_map (fun y => if unguarded y then [] else
     flat_map (fun z => if existsb (fun k => ans (t_kind y) k && ans (t_kind z) k) all_kinds then [t_tgt z] else []) (s_tests x)) (s_tests x)) tbl.
Definition q_next (Q : list nat) : list nat :=
  norm (Q ++ flat_map (fun s => match NFA.find_state tbl s with
                                | Some x => flat_map (fun k => flat_map (fun z => if ans (t_kind z) k then [t_tgt z] else []) (s_tests x)) skipk
                                | None => [] end) Q).
Definition Qset : list nat := Eval vm_compute in q_next (q_next (q_next (q_next (norm q_init)))).

Lemma table_q0 : q0_ok tbl Qset = true.
Proof. vm_compute. reflexivity. Qed.
Lemma table_qstep : qstep_ok tbl Qset = true.
Proof. vm_compute. reflexivity. Qed.

(* liveness: from every state some word is accepted (backward closure from the end state) *)
Definition ends : list nat :=
  norm (flat_map (fun x => flat_map (fun y => match NFA.find_state tbl (t_tgt y) with None => [t_tgt y] | Some _ => [] end) (s_tests x)) tbl).
Fixpoint lives (n : nat) : list nat :=
  match n with
  | 0 => ends
  | S n' => let L := lives n' in
            L ++ filter (fun s => existsb (fun k => existsb (fun s' => memn s' L) (targets tbl s k)) all_kinds) (map s_id tbl)
  end.

Lemma ends_sound s : In s ends -> NFA.find_state tbl s = None.
Proof.
  unfold ends. rewrite norm_in. intros H. apply in_flat_map in H as (x & _ & H). apply in_flat_map in H as (y & _ & H).
  destruct (NFA.find_state tbl (t_tgt y)) eqn:F; [destruct H|]. destruct H as [<-|[]]. exact F.
Qed.

Lemma lives_sound n : forall s, In s (lives n) -> exists u, runN tbl [s] u = true.
Proof.
  induction n as [|n IH]; intros s H.
  - exists []. cbn [runN is_end existsb]. rewrite (ends_sound s H). reflexivity.
  - cbn [lives] in H. apply in_app_or in H as [H|H]; [exact (IH s H)|].
    apply filter_In in H as [_ H]. apply existsb_exists in H as (k & _ & H). apply existsb_exists in H as (s' & Is' & M).
    destruct (IH s' (memn_in _ _ M)) as (u & Hu). exists (k :: u). rewrite runN_single_step. apply existsb_exists. exists s'. auto.
Qed.

Definition live_fuel := 45.
Definition Lset : list nat := Eval vm_compute in norm (lives live_fuel).
Lemma Lset_eq : Lset = norm (lives live_fuel).
Proof. vm_compute. reflexivity. Qed.
Lemma table_targets_live : forallb (fun x => forallb (fun y => memn (t_tgt y) Lset) (s_tests x)) tbl && memn Table.start_state Lset = true.
Proof. vm_compute. reflexivity. Qed.

Lemma Lset_sound s : memn s Lset = true -> exists u, runN tbl [s] u = true.
Proof. intros M. apply memn_in in M. rewrite Lset_eq, norm_in in M. exact (lives_sound _ s M). Qed.

Lemma table_live x y : In x tbl -> In y (s_tests x) -> exists u, runN tbl [t_tgt y] u = true.
Proof.
  intros Hx Hy. pose proof table_targets_live as A. apply andb_prop in A as [A _]. rewrite forallb_forall in A. specialize (A x Hx).
  rewrite forallb_forall in A. exact (Lset_sound _ (A y Hy)).
Qed.
Lemma start_live : exists u, runN tbl [Table.start_state] u = true.
Proof. pose proof table_targets_live as A. apply andb_prop in A as [_ A]. exact (Lset_sound _ A). Qed.

(* the position at which the table machine, started on the lines w, first has no transition *)
Definition first_stuck (w : list kind) : option nat := dpos tbl las Table.start_state w.

Theorem first_stuck_not_early w i : first_stuck w = Some i ->
  forall u, runR G (firstn (S i) (w ++ [KEOF]) ++ u) = false.
Proof.
  intros D u. rewrite <- nfa_language_eq.
  exact (dpos_not_early tbl las table_exact_at table_HF1 table_skip_ok Qset table_q0 table_qstep w _ i D u).
Qed.

Theorem first_stuck_not_late w i : first_stuck w = Some i -> exists u, runR G (firstn i w ++ u) = true.
Proof.
  intros D. destruct (dpos_not_late tbl las table_live w _ i D start_live) as (u & Hu).
  exists u. rewrite <- nfa_language_eq. exact Hu.
Qed.
