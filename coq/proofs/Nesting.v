(* C02 (nesting), general lemma: for every instance of the generic interpreter
   whose table passes `stack_consistent`, the builder events of a parse that
   returns normally form a derivation of the grammar (`valid_events`). *)
From Coq Require Import List Bool Arith Lia.
Import ListNotations.
Require Import Kinds Regex Grammar RefSem Automaton AutoFacts NestingDefs.

Section Nesting.
  Context {Tok MS BS Err : Type}.
  Variable P : params Tok MS BS Err.
  Notation ctx := (ctx Tok MS BS Err).
  Notation res := (res Tok MS BS Err).

  Variable alpha : amap.
  Hypothesis Hcons : stack_consistent (table P) (start_state P) alpha = true.
  (* every target outside the table is reached by an #EOF test only, and #EOF tests lead nowhere else *)
  Hypothesis Htotal : forall x y, In x (table P) -> In y (s_tests x) ->
    (find_state P (t_tgt y) = None <-> t_kind y = KEOF).
  Definition mtok (r : mres Tok MS Err) : Tok := match r with MR _ t _ | MRaise _ t _ => t end.
  Hypothesis Heof : forall k m t, is_eof P (mtok (matchf P k m t)) = is_eof P t.

  Definition aev_of (e : ev Tok) : list aev :=
    match e with EvS r => [AS r] | EvE r => [AE r] | EvB _ k => [AB k] | EvX _ _ => [] end.
  Definition abs (c : ctx) : list aev := flat_map aev_of (events c).

  Lemma apply_aevs_app s a b :
    apply_aevs s (a ++ b) = match apply_aevs s a with Some s' => apply_aevs s' b | None => None end.
  Proof. revert s. induction a as [|e a IH]; intros s; simpl; auto. destruct (apply_aev s e); auto. Qed.

  Lemma abs_emit e c : abs (emit e c) = abs c ++ aev_of e.
  Proof. unfold abs, events. simpl. rewrite flat_map_app. simpl. now rewrite app_nil_r. Qed.

  Lemma abs_log c c' : log c' = log c -> abs c' = abs c.
  Proof. unfold abs, events. intros ->. reflexivity. Qed.

  Lemma abs_exec t k ps c c' :
    log c' = rev (map (ev_of_prod t k) ps) ++ log c -> abs c' = abs c ++ map (prod_aev k) ps.
  Proof.
    unfold abs, events. intros ->. rewrite rev_app_distr, rev_involutive, flat_map_app. f_equal.
    induction ps as [|p ps IH]; simpl; auto. rewrite IH. destruct p; reflexivity.
  Qed.

  (* facts read out of stack_consistent *)
  Lemma cons_start : exists stk0, alookup (start_state P) alpha = Some stk0
                                  /\ apply_aev [] (AS RGherkinDocument) = Some stk0.
  Proof.
    unfold stack_consistent in Hcons. apply andb_prop in Hcons as [H _].
    destruct (alookup (start_state P) alpha) as [s0|]; [|discriminate].
    destruct (apply_aev [] (AS RGherkinDocument)) as [s0'|]; [|discriminate].
    apply stack_beq_eq in H. subst. eauto.
  Qed.

  Lemma find_state_in s x : find_state P s = Some x -> In x (table P) /\ s_id x = s.
  Proof. unfold find_state. intros H. apply find_some in H as [H1 H2]. apply Nat.eqb_eq in H2. auto. Qed.

  Lemma cons_state x : In x (table P) ->
    exists stk, alookup (s_id x) alpha = Some stk /\ s_err x = s_id x /\
      forall y, In y (s_tests x) ->
        exists stk', apply_test stk y = Some stk' /\
          match find_state P (t_tgt y) with
          | Some _ => alookup (t_tgt y) alpha = Some stk'
          | None => apply_aev stk' (AE RGherkinDocument) = Some []
          end.
  Proof.
    intros Hx. unfold stack_consistent in Hcons. apply andb_prop in Hcons as [_ H].
    rewrite forallb_forall in H. specialize (H x Hx).
    destruct (alookup (s_id x) alpha) as [stk|]; [|discriminate].
    apply andb_prop in H as [H1 H2]. apply Nat.eqb_eq in H1.
    exists stk. repeat split; auto. intros y Hy. rewrite forallb_forall in H2. specialize (H2 y Hy).
    destruct (apply_test stk y) as [stk'|]; [|discriminate]. exists stk'. split; auto.
    change (find_st (table P) (t_tgt y)) with (find_state P (t_tgt y)) in H2.
    destruct (find_state P (t_tgt y)).
    - destruct (alookup (t_tgt y) alpha) as [s''|]; [|discriminate]. apply stack_beq_eq in H2. congruence.
    - destruct (apply_aev stk' (AE RGherkinDocument)) as [[|? ?]|]; try discriminate. reflexivity.
  Qed.

  Definition InvS (s : nat) (c : ctx) : Prop :=
    exists stk, apply_aevs [] (abs c) = Some stk /\
      match find_state P s with
      | Some _ => alookup s alpha = Some stk
      | None => apply_aev stk (AE RGherkinDocument) = Some []
      end.

  Lemma match_k_nest c0 stop k t c : fr c0 c ->
    sat (match_k P stop k t c)
        (fun r c' => fr c0 c' /\ is_eof P (snd r) = is_eof P t
                     /\ (fst r = true -> is_eof P t = true -> k = KEOF))
        (fun _ => True) True.
  Proof.
    intros H. unfold match_k.
    destruct (negb (kind_beq k KEOF) && is_eof P t) eqn:G; simpl.
    { split; [exact H | split; [reflexivity | intros X; discriminate X]]. }
    assert (K : is_eof P t = true -> k = KEOF).
    { intros E. rewrite E, andb_true_r in G. apply negb_false_iff in G. now apply kind_beq_eq. }
    pose proof (Heof k (ms c) t) as He.
    destruct (matchf P k (ms c) t) as [b t' m'|e t' m']; simpl in *.
    - split; [eapply fr_same; eauto | split; auto].
    - destruct stop; simpl; auto.
      eapply sat_bind; [eapply sat_okonly; apply (add_error_fr P c0); eapply fr_same; eauto|].
      intros [] c' [G' _]. simpl. split; [exact G' | split; [exact He | intros X; discriminate X]].
  Qed.

  Lemma run_tests_nest stop x stk c0 e : In x (table P) -> alookup (s_id x) alpha = Some stk ->
    apply_aevs [] (abs c0) = Some stk ->
    forall tests t c, incl tests (s_tests x) -> fr c0 c -> is_eof P t = e ->
    sat (run_tests P stop tests t c)
        (fun r c' => match fst r with
                     | Some s' => InvS s' c' /\ (e = true -> find_state P s' = None)
                     | None => abs c' = abs c0
                     end /\ (errs c0 <> [] -> errs c' <> []))
        (fun _ => True) True.
  Proof.
    intros Hx Hal Hstk. destruct (cons_state x Hx) as (stk1 & Hal1 & _ & Htests).
    assert (stk1 = stk) by congruence. subst stk1.
    induction tests as [|y ys IH]; intros t c Hincl Hfr He; simpl.
    { split; [apply abs_log; apply Hfr | apply Hfr]. }
    assert (Hy : In y (s_tests x)) by (apply Hincl; now left).
    assert (Hys : incl ys (s_tests x)) by (intros z Hz; apply Hincl; now right).
    eapply sat_bind; [apply match_k_nest; exact Hfr|].
    intros [b t1] c1 (Hfr1 & He1 & Hk). simpl in *.
    assert (Taken : b = true -> forall c2, fr c0 c2 ->
      sat (bind (exec P stop t1 (t_kind y) (t_prods y) c2) (fun _ c3 => Ok (Some (t_tgt y), t1) c3))
          (fun r c' => match fst r with
                       | Some s' => InvS s' c' /\ (e = true -> find_state P s' = None)
                       | None => abs c' = abs c0
                       end /\ (errs c0 <> [] -> errs c' <> []))
          (fun _ => True) True).
    { intros Hb c2 Hfr2. eapply sat_bind; [apply exec_log|]. intros _ c3 [Hl Hm]. simpl.
      destruct (Htests y Hy) as (stk' & Hap & Htgt).
      assert (Habs : abs c3 = abs c0 ++ map (prod_aev (t_kind y)) (t_prods y)).
      { rewrite (abs_exec _ _ _ _ _ Hl). f_equal. apply abs_log. apply Hfr2. }
      split; [split|].
      - exists stk'. split.
        + rewrite Habs, apply_aevs_app, Hstk. exact Hap.
        + exact Htgt.
      - intros Et. subst e.
        apply (Htotal x y Hx Hy). apply Hk; auto.
      - intros N. apply Hm. apply Hfr2. exact N. }
    destruct b.
    - destruct (t_guard y) as [h|].
      + eapply sat_bind; [eapply sat_okonly; apply lookahead_fr; exact Hfr1|]. intros g c2 Hfr2. simpl.
        destruct g.
        * apply Taken; auto.
        * apply IH; auto. congruence.
      + apply Taken; auto.
    - apply IH; auto. congruence.
  Qed.

  Lemma match_token_nest stop s t c : InvS s c -> find_state P s <> None ->
    sat (match_token P stop s t c)
        (fun s' c' => InvS s' c' /\ (is_eof P t = true -> find_state P s' = None \/ errs c' <> [])
                      /\ (errs c <> [] -> errs c' <> []))
        (fun _ => True) True.
  Proof.
    intros (stk & Hstk & Hst) Hs. unfold match_token.
    destruct (find_state P s) as [x|] eqn:F; [|congruence]. clear Hs.
    destruct (find_state_in _ _ F) as [Hx Hid]. subst s.
    eapply sat_bind.
    { eapply (run_tests_nest stop x stk c (is_eof P t)); eauto. apply incl_refl. apply fr_refl. }
    intros [o t'] c1 [H1 H2]. simpl in *. destruct o as [s'|].
    - destruct H1 as [I1 E1]. repeat split; auto.
    - destruct stop; simpl; auto.
      destruct (cons_state x Hx) as (stk1 & Hal1 & Herr & _).
      eapply sat_bind; [eapply sat_okonly; apply (add_error_fr P (emit (EvX t' (s_id x)) c1)); apply fr_refl|].
      intros [] c3 [[Hl Hm] Hne]. simpl. rewrite Herr. repeat split.
      + exists stk. split; [|rewrite F; exact Hst].
        rewrite (abs_log _ _ Hl), abs_emit. simpl. rewrite app_nil_r, H1. exact Hstk.
      + intros _. right. exact Hne.
      + intros _. exact Hne.
  Qed.

  Lemma loop_nest stop : forall fuel s c, InvS s c -> find_state P s <> None ->
    sat (loop P fuel stop s c)
        (fun s' c' => InvS s' c' /\ (find_state P s' = None \/ errs c' <> []))
        (fun _ => True) True.
  Proof.
    induction fuel as [|f IH]; intros s c HI Hs; simpl; [exact I|].
    pose proof (read_fr P c c (fr_refl c)) as R. destruct (read P c) as [t c1]. simpl in R.
    assert (HI1 : InvS s c1).
    { destruct HI as (stk & H1 & H2). exists stk. split; auto. rewrite (abs_log _ _ (proj1 R)). exact H1. }
    eapply sat_bind; [apply match_token_nest; eauto|].
    intros s' c2 (I2 & E2 & M2). simpl.
    destruct (is_eof P t) eqn:Et.
    - simpl. split; auto.
    - destruct (find_state P s') eqn:F.
      + apply IH; auto. congruence.
      + (* a non-EOF token led outside the table: the next iteration crashes *)
        destruct f; simpl; [exact I|].
        destruct (read P c2) as [t2 c3]. unfold match_token. rewrite F. simpl. exact I.
  Qed.

  Hypothesis Hstart : find_state P (start_state P) <> None.

  Theorem nesting_sound stop toks m b c :
    parse P stop toks m b = Ok tt c -> valid_events (abs c) = true.
  Proof.
    unfold parse. intros H.
    destruct cons_start as (stk0 & Hs0 & Ha0).
    set (c0 := emit (EvS RGherkinDocument) (init_ctx toks m b)) in *.
    assert (S1 : sat (b_call P stop (b_start P RGherkinDocument) c0) (fun _ c' => fr c0 c') (fun _ => True) True).
    { eapply sat_weaken; [apply b_call_fr; apply fr_refl | | | ]; auto. }
    destruct (b_call P stop (b_start P RGherkinDocument) c0) as [[] c1| | | |]; cbn [bind] in H; try discriminate.
    simpl in S1.
    assert (I1 : InvS (start_state P) c1).
    { exists stk0. split.
      - rewrite (abs_log _ _ (proj1 S1)).
        assert (A0 : abs c0 = [AS RGherkinDocument]) by reflexivity.
        rewrite A0. cbn [apply_aevs]. rewrite Ha0. reflexivity.
      - destruct (find_state P (start_state P)); [exact Hs0 | congruence]. }
    pose proof (loop_nest stop (S (S (length toks))) _ _ I1 Hstart) as L.
    destruct (loop P (S (S (length toks))) stop (start_state P) c1) as [s' c2| | | |]; cbn [bind] in H; try discriminate.
    simpl in L. destruct L as [(stk & Hstk & Hend) Hfin].
    set (c2' := emit (EvE RGherkinDocument) c2) in *.
    assert (S3 : sat (b_call P stop (b_end P RGherkinDocument) c2') (fun _ c' => fr c2' c') (fun _ => True) True).
    { eapply sat_weaken; [apply b_call_fr; apply fr_refl | | | ]; auto. }
    destruct (b_call P stop (b_end P RGherkinDocument) c2') as [[] c3| | | |]; cbn [bind] in H; try discriminate.
    simpl in S3. destruct (errs c3) eqn:Ee; [|discriminate]. inversion H; subst c3. clear H.
    assert (Fs : find_state P s' = None).
    { destruct Hfin as [F|N]; auto. exfalso. apply (proj2 S3); auto. }
    rewrite Fs in Hend.
    unfold valid_events. rewrite (abs_log _ _ (proj1 S3)). unfold c2'. rewrite abs_emit.
    cbn [aev_of]. rewrite apply_aevs_app, Hstk. cbn [apply_aevs]. rewrite Hend. reflexivity.
  Qed.
End Nesting.
