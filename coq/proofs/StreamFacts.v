(* C17 / C11: shape and order of the envelopes GherkinEvents.enum yields; the id counter
   threads through a stream and never goes back. *)
From Coq Require Import List Bool Arith NArith Lia.
Import ListNotations.
Require Import Kinds PyStr Line Matcher Ast Builder Compiler CompilerSpec Pipeline PipelineFacts Stream Dialects.

Definition accepted_envelopes (o : options) (uri data : str) (d : document) (ps : list pickle) : list envelope :=
  (if print_source o then [EnvSource uri data MEDIA_TYPE] else [])
  ++ (if print_ast o then [EnvDocument uri d] else [])
  ++ (if print_pickles o then map EnvPickle ps else []).

(* for one source: source?, gherkinDocument?, pickle* in this order, gated by the options --
   or parseError envelopes only, one per error, carrying uri, location and message *)
Theorem enum_source_shape o idc uri data es i :
  enum_source o idc uri data = Some (es, i) ->
  (exists errs, es = map (fun e => EnvParseError uri (e_loc e) (e_msg e)) errs)
  \/ (exists d ps, es = accepted_envelopes o uri data d ps).
Proof.
  unfold enum_source. destruct (new_matcher dialects EN) as [m0|]; [|discriminate].
  destruct (parse_source (stop_first o) m0 (new_builder idc) data) as [d m b c|errs m b c|e m b c| |]; try discriminate.
  - destruct (print_pickles o) eqn:PP.
    + destruct (compile uri d (b_idc b)) as [[ps i']|]; [|discriminate].
      intros E. inversion E; subst. right. exists d, ps. unfold accepted_envelopes. rewrite PP, <- app_assoc. reflexivity.
    + intros E. inversion E; subst. right. exists d, []. unfold accepted_envelopes. rewrite PP, app_nil_r. reflexivity.
  - intros E. inversion E; subst. left. exists errs. reflexivity.
  - intros E. inversion E; subst. left. exists [e]. reflexivity.
Qed.

(* the source envelope carries the text unchanged *)
Theorem source_verbatim o idc uri data es i e :
  enum_source o idc uri data = Some (es, i) -> In e es ->
  match e with EnvSource u dt mt => u = uri /\ dt = data /\ mt = MEDIA_TYPE | _ => True end.
Proof.
  intros H Hin. apply enum_source_shape in H as [[errs ->]|[d [ps ->]]].
  - apply in_map_iff in Hin as [x [<- _]]. exact I.
  - unfold accepted_envelopes in Hin.
    apply in_app_iff in Hin as [Hin|Hin]; [destruct (print_source o); [destruct Hin as [<-|[]]; auto | destruct Hin]|].
    apply in_app_iff in Hin as [Hin|Hin]; [destruct (print_ast o); [destruct Hin as [<-|[]]; exact I | destruct Hin]|].
    destruct (print_pickles o); [|destruct Hin]. apply in_map_iff in Hin as [x [<- _]]. exact I.
Qed.

(* several sources: the concatenation, in order, threading only the counter *)
Theorem enum_sources_app o : forall a b idc,
  enum_sources o idc (a ++ b) =
  match enum_sources o idc a with
  | None => None
  | Some (es, i) => match enum_sources o i b with None => None | Some (es', i') => Some (es ++ es', i') end
  end.
Proof.
  induction a as [|[uri data] a IH]; intros b idc; simpl.
  - destruct (enum_sources o idc b) as [[es i]|]; reflexivity.
  - destruct (enum_source o idc uri data) as [[es i]|]; [|reflexivity]. rewrite IH.
    destruct (enum_sources o i a) as [[es1 i1]|]; [|reflexivity].
    destruct (enum_sources o i1 b) as [[es2 i2]|]; [|reflexivity]. now rewrite app_assoc.
Qed.

(* the id counter never goes back *)
Lemma compile_counter uri d idc ps i : compile uri d idc = Some (ps, i) -> idc <= i.
Proof. intros H. eapply pickles_ids. exact H. Qed.

Theorem enum_source_counter o idc uri data es i : enum_source o idc uri data = Some (es, i) -> idc <= i.
Proof.
  unfold enum_source. destruct (new_matcher dialects EN) as [m0|] eqn:NM; [|discriminate].
  apply new_matcher_wf in NM as [W _].
  pose proof (parse_source_counter (stop_first o) m0 (new_builder idc) data W) as C.
  destruct (parse_source (stop_first o) m0 (new_builder idc) data) as [d m b c|errs m b c|e m b c| |]; try discriminate; simpl in C.
  - destruct (print_pickles o).
    + destruct (compile uri d (b_idc b)) as [[ps i']|] eqn:K; [|discriminate]. apply compile_counter in K.
      intros E. inversion E; subst. lia.
    + intros E. inversion E; subst. lia.
  - intros E. inversion E; subst. lia.
  - intros E. inversion E; subst. lia.
Qed.

Theorem enum_sources_counter o : forall srcs idc es i, enum_sources o idc srcs = Some (es, i) -> idc <= i.
Proof.
  induction srcs as [|[uri data] r IH]; intros idc es i; simpl.
  - intros E. inversion E. lia.
  - destruct (enum_source o idc uri data) as [[es0 i0]|] eqn:E0; [|discriminate].
    apply enum_source_counter in E0.
    destruct (enum_sources o i0 r) as [[es1 i1]|] eqn:E1; [|discriminate]. apply IH in E1.
    intros E. inversion E; subst. lia.
Qed.
