(* C01: what a successful match leaves in the token (tok_ok), and how the doc-string separator state moves. *)
From Coq Require Import List Bool Arith NArith Lia.
Import ListNotations.
Require Import Kinds PyStr Line Matcher MatcherFacts Ast Builder BuilderSafe.

Theorem matcher_tok_ok ds k m t t' m' : matcher ds k m t = MYes t' m' -> tok_ok k t'.
Proof.
  unfold matcher, tok_ok.
  destruct k; destruct (tk_line t) as [l|] eqn:L; try discriminate;
    unfold match_title_line, match_docsep; matcher_cases; intros H; inversion H; subst; clear H;
    cbn [m_type m_keyword m_text m_ktype set_matched option_map]; repeat split; try discriminate.
Qed.

(* the separator state changes only through a successful #DocStringSeparator match: opening sets it
   (and the token carries the media type text), closing clears it (and the token carries no text) *)
Theorem matcher_sep ds k m t t' m' : matcher ds k m t = MYes t' m' ->
  if kind_beq k KDocStringSeparator then
    match ms_sep m with
    | None => ms_sep m' <> None /\ m_text t' <> None
    | Some _ => ms_sep m' = None
    end
  else ms_sep m' = ms_sep m.
Proof.
  unfold matcher.
  destruct k; destruct (tk_line t) as [l|] eqn:L; try discriminate; cbn [kind_beq];
    unfold match_title_line, match_docsep; matcher_cases; intros H; inversion H; subst; clear H;
    cbn [ms_sep m_text set_matched option_map]; try reflexivity; try (split; discriminate).
Qed.

Theorem matcher_err_sep ds k m t e t' m' : matcher ds k m t = MErr e t' m' -> m' = m.
Proof.
  unfold matcher.
  destruct k; destruct (tk_line t) as [l|] eqn:L; try discriminate;
    unfold match_title_line, match_docsep; matcher_cases; intros H; inversion H; subst; reflexivity.
Qed.

(* a successful match reads only the token's physical line and line number: matching the scanner's raw token
   of that line gives the same result, whatever earlier (look-ahead) matches left in the token *)
Definition canon (t : token) : token :=
  mk_token (tk_line t) (mk_loc (loc_line (tk_loc t)) None) None None None None 0 [] [].
Theorem matcher_keeps_line ds k m t t' m' : matcher ds k m t = MYes t' m' ->
  tk_line t' = tk_line t /\ loc_line (tk_loc t') = loc_line (tk_loc t).
Proof.
  unfold matcher.
  destruct k; destruct (tk_line t) as [l|] eqn:L; try discriminate;
    unfold match_title_line, match_docsep; matcher_cases; intros H; inversion H; subst; clear H;
    cbn [tk_line tk_loc set_matched loc_line]; auto.
Qed.
Theorem matcher_reads_line ds k m t t' m' : matcher ds k m t = MYes t' m' -> matcher ds k m (canon t) = MYes t' m'.
Proof.
  unfold matcher. cbn [canon tk_line].
  destruct k; destruct (tk_line t) as [l|] eqn:L; try discriminate;
    unfold match_title_line, match_docsep; matcher_cases; intros H; inversion H; subst; clear H;
    unfold set_matched, canon; cbn [tk_line tk_loc loc_line]; rewrite ?L; reflexivity.
Qed.
Corollary matcher_canon ds k m t t' m' : matcher ds k m t = MYes t' m' -> matcher ds k m (canon t') = MYes t' m'.
Proof.
  intros H. destruct (matcher_keeps_line _ _ _ _ _ _ H) as [E1 E2].
  replace (canon t') with (canon t) by (unfold canon; rewrite E1, E2; reflexivity). apply matcher_reads_line, H.
Qed.

(* only #Language and #DocStringSeparator matches change the matcher's state *)
Theorem matcher_keeps_state ds k m t t' m' : k <> KLanguage -> k <> KDocStringSeparator ->
  matcher ds k m t = MYes t' m' -> m' = m.
Proof.
  intros N1 N2. unfold matcher.
  destruct k; try congruence; destruct (tk_line t) as [l|] eqn:L; try discriminate;
    unfold match_title_line; matcher_cases; intros H; inversion H; subst; reflexivity.
Qed.
(* a closing separator carries no text *)
Theorem matcher_sep_close ds m t t' m' sep : ms_sep m = Some sep ->
  matcher ds KDocStringSeparator m t = MYes t' m' -> m_text t' = None.
Proof.
  intros Ms. unfold matcher. destruct (tk_line t) as [l|] eqn:L; try discriminate. rewrite Ms.
  unfold match_docsep. matcher_cases; intros H; inversion H; subst; reflexivity.
Qed.
