(* C16, trailing blanks end to end.  Two sources whose physical lines are pairwise equal, or differ only in
   the run of whitespace that ends them, parse to the same document or the same errors -- provided the run
   never asks of a changed line one of the three questions whose answer can see trailing whitespace
   (BlankTail.blind_ok: free text, comment, a step keyword cut at its final blank).

   Construction: run A is the real run on the first source in which every changed token carries its twin
   from the second source and the matcher raises a flag when it is asked such a question about a changed
   token; run B answers from the twin when the flag would be raised.  A and B are the same run when A ends
   with the flag down (AgreeUpTo); A projects to the real run on the first source and B is related to the real
   run on the second source by the Paramcoq-generated parametricity of the interpreter. *)
From Param Require Import Param.
From Coq Require Import String List Bool Arith NArith Lia.
Import ListNotations.
Require Import Kinds Automaton AutoFacts PyStr Line Matcher MatcherFacts Builder Pipeline PipelineFacts Table Dialects
               LayoutFacts TerminatorFacts BuilderErase ParamGlue Delivery LineEndings AgreeUpTo BlankTail.

(* ---- twins: the same token over two physical lines that differ only in trailing whitespace ---- *)
Definition tw (t t' : token) : Prop :=
  terase t = terase t' /\
  exists c n tl tl', tk_line t = Some (make_line (c ++ tl) n) /\ tk_line t' = Some (make_line (c ++ tl') n)
                     /\ all_space tl /\ all_space tl' /\ is_blank_text c = false.

Definition ostr_eqb (a b : option str) : bool :=
  match a, b with Some x, Some y => str_eqb x y | None, None => true | _, _ => false end.
Lemma ostr_eqb_eq a b : ostr_eqb a b = true -> a = b.
Proof. destruct a, b; cbn; try discriminate; auto. intros H. apply str_eqb_eq in H. now subst. Qed.

(* the matcher is asked, about a changed token, a question whose answer can see trailing whitespace *)
Definition unblind (k : kind) (m : mstate) (t t' : token) : bool :=
  match tk_line t, tk_line t' with
  | Some l, Some l' =>
    match k with
    | KOther => true
    | KComment => line_startswith l [HASH]
    | KStepLine => negb (ostr_eqb (first_prefix l (step_keywords (ms_dialect m))) (first_prefix l' (step_keywords (ms_dialect m))))
    | _ => false
    end
  | _, _ => false
  end.

Lemma tw_lines t t' : tw t t' -> tk_line t <> None /\ tk_line t' <> None.
Proof. intros [_ (c & n & tl & tl' & L & L' & _)]. rewrite L, L'. split; discriminate. Qed.

Lemma tw_match k m t t' : MIw m -> tw t t' -> unblind k m t t' = false ->
  match p_matchf k m t, p_matchf k m t' with
  | MR b t1 m1, MR b' t1' m1' => b = b' /\ (b = true -> tw t1 t1') /\ (b = false -> t1 = t /\ t1' = t') /\ m1 = m1'
  | MRaise e t1 m1, MRaise e' t1' m1' => e = e' /\ tw t1 t1' /\ m1 = m1'
  | _, _ => False
  end.
Proof.
  intros Hm [He (c & n & tl & tl' & L & L' & Ht & Ht' & Hc)] U. unfold unblind in U. rewrite L, L' in U. unfold p_matchf.
  assert (TW : forall t1 t1', terase t1 = terase t1' -> tk_line t1 = tk_line t -> tk_line t1' = tk_line t' -> tw t1 t1').
  { intros t1 t1' E A B. split; [exact E|]. exists c, n, tl, tl'. rewrite A, B. auto. }
  destruct (kind_beq k KStepLine) eqn:Ks.
  - (* a step: the keyword test gave the same answer on both lines *)
    apply kind_beq_eq in Ks. subst k. apply negb_false_iff, ostr_eqb_eq in U.
    unfold matcher. rewrite L, L', U.
    destruct (first_prefix (make_line (c ++ tl') n) (step_keywords (ms_dialect m))) as [kw|]; [|repeat split; auto; discriminate].
    split; [reflexivity|]. split; [|split; [discriminate | reflexivity]]. intros _. apply TW; [|reflexivity | reflexivity].
    apply terase_fields in He as (E1 & _). apply sm_eq; [exact E1 | | ].
    + cbn [option_map]. now rewrite (rest_wtail c n tl Ht), (rest_wtail c n tl' Ht').
    + unfold eff_ind. rewrite L, L'. now rewrite (indent_wtail c n tl Ht Hc), (indent_wtail c n tl' Ht' Hc).
  - assert (B1 : blind_ok c n tl m k /\ blind_ok c n tl' m k).
    { destruct k; cbn [blind_ok]; try (split; exact I); try discriminate.
      rewrite (startswith_wtail c n tl Ht [HASH] eq_refl) in U. split; exact U. }
    destruct B1 as [B1 B2].
    pose proof (matcher_wtail c n tl Ht Hc m Hm t L k B1) as R1.
    pose proof (matcher_wtail c n tl' Ht' Hc m Hm t' L' k B2) as R2.
    rewrite <- (with_line_eq (make_line c n) t t' He) in R2.
    destruct (matcher dialects k m (with_line (make_line c n) t)) as [|tc mc|ec tc mc];
      destruct (matcher dialects k m t) as [|t1 m1|e1 t1 m1]; cbn [mout_wrel] in R1; try contradiction;
      destruct (matcher dialects k m t') as [|t1' m1'|e1' t1' m1']; cbn [mout_wrel] in R2; try contradiction.
    + repeat split; auto; discriminate.
    + destruct R1 as (-> & E1 & La & _). destruct R2 as (-> & E2 & Lb & _).
      split; [reflexivity|]. split; [|split; [discriminate | reflexivity]]. intros _. apply TW; [congruence | exact La | exact Lb].
    + destruct R1 as (-> & -> & E1 & La & _). destruct R2 as (-> & -> & E2 & Lb & _).
      split; [reflexivity|]. split; [|reflexivity]. apply TW; [congruence | exact La | exact Lb].
Qed.

Lemma unexpected_wtail c n tl t exp : all_space tl -> is_blank_text c = false -> tk_line t = Some (make_line (c ++ tl) n) ->
  unexpected t exp = unexpected (with_line (make_line c n) t) exp.
Proof.
  intros Ht B L. unfold unexpected, token_value. rewrite L. cbn [tk_line with_line tk_loc get_line_text].
  rewrite (strip_trimmed_wtail c n tl Ht), (indent_wtail c n tl Ht B). reflexivity.
Qed.
Lemma tw_unexpected t t' exp : tw t t' -> unexpected t exp = unexpected t' exp.
Proof.
  intros [He (c & n & tl & tl' & L & L' & Ht & Ht' & Hc)].
  rewrite (unexpected_wtail c n tl t exp Ht Hc L), (unexpected_wtail c n tl' t' exp Ht' Hc L'). now rewrite (with_line_eq _ t t' He).
Qed.

(* ---- the two instrumented runs ---- *)
Definition tok2 := (token * option token)%type.
Definition ms2 := (mstate * bool)%type.

Definition relabel (t t1 : token) : token :=
  mk_token (tk_line t) (tk_loc t1) (m_type t1) (m_text t1) (m_keyword t1) (m_ktype t1) (m_indent t1) (m_items t1) (m_dialect t1).
Lemma terase_relabel t t1 : terase (relabel t t1) = terase t1. Proof. reflexivity. Qed.

Definition mres_map (f : token -> tok2) (g : mstate -> ms2) (r : mres token mstate perror) : mres tok2 ms2 perror :=
  match r with MR b t m => MR b (f t) (g m) | MRaise e t m => MRaise e (f t) (g m) end.

Definition matchA (k : kind) (m2 : ms2) (x : tok2) : mres tok2 ms2 perror :=
  match snd x with
  | None => mres_map (fun t1 => (t1, None)) (fun m1 => (m1, snd m2)) (p_matchf k (fst m2) (fst x))
  | Some t' =>
    mres_map (fun t1 => (t1, Some (mtok (p_matchf k (fst m2) t')))) (fun m1 => (m1, snd m2 || unblind k (fst m2) (fst x) t'))
             (p_matchf k (fst m2) (fst x))
  end.
Definition matchB (k : kind) (m2 : ms2) (x : tok2) : mres tok2 ms2 perror :=
  match snd x with
  | Some t' =>
    if unblind k (fst m2) (fst x) t'
    then mres_map (fun t1' => (relabel (fst x) t1', Some t1')) (fun m1 => (m1, true)) (p_matchf k (fst m2) t')
    else matchA k m2 x
  | None => matchA k m2 x
  end.

Definition PX (g : kind -> ms2 -> tok2 -> mres tok2 ms2 perror) : params tok2 ms2 bstate perror :=
  mk_params tok2 ms2 bstate perror (fun x => tok_is_eof (fst x)) (fun n => (eof_token n, None)) g p_bstart p_bend
            (fun x => p_bbuild (fst x)) Matcher.err_same_msg (fun x => unexpected (fst x))
            Table.table Table.lookaheads Table.error_cap Table.start_state.
Definition PA := PX matchA.
Definition PB := PX matchB.
Definition flag (m : ms2) : bool := snd m.

Lemma mres_ms_map f g r : mres_ms (mres_map f g r) = g (mres_ms r).
Proof. destruct r; reflexivity. Qed.

Lemma AB_same k m x : flag (mres_ms (matchA k m x)) = false -> matchB k m x = matchA k m x.
Proof.
  unfold matchB, matchA, flag. destruct (snd x) as [t'|]; [|reflexivity]. rewrite mres_ms_map. cbn [snd].
  destruct (unblind k (fst m) (fst x) t'); [|reflexivity]. rewrite orb_true_r. discriminate.
Qed.
Lemma A_flag_stays k m x : flag m = true -> flag (mres_ms (matchA k m x)) = true.
Proof.
  unfold matchA, flag. intros H. destruct (snd x) as [t'|]; rewrite mres_ms_map; cbn [snd]; rewrite H; reflexivity.
Qed.

(* run B is run A whenever run A ends with the flag down *)
Theorem AB_agree stop xs m b : good flag (parse PA stop xs m b) -> parse PB stop xs m b = parse PA stop xs m b.
Proof. exact (parse_agree PA matchA matchB flag AB_same A_flag_stays stop xs m b). Qed.

(* ---- reading a relation between two results ---- *)
Section Out.
  Context {T T' M M' B B' : Type}.
  Variable TR : T -> T' -> Prop.
  Variable MRel : M -> M' -> Prop.
  Variable BRl : B -> B' -> Prop.
  Definition out_rel (r : res T M B perror unit) (r' : res T' M' B' perror unit) : Prop :=
    match r, r' with
    | Ok _ c, Ok _ c' => MRel (ms c) (ms c') /\ BRl (bs c) (bs c') /\ calls c = calls c'
    | Raise1 e c, Raise1 e' c' => e = e' /\ MRel (ms c) (ms c') /\ BRl (bs c) (bs c') /\ calls c = calls c'
    | RaiseC es c, RaiseC es' c' => es = es' /\ MRel (ms c) (ms c') /\ BRl (bs c) (bs c') /\ calls c = calls c'
    | Crash _, Crash _ => True
    | OutOfFuel, OutOfFuel => True
    | _, _ => False
    end.
  Lemma res_R_out r r' :
    res_R T T' TR M M' MRel B B' BRl perror perror ER unit unit unit_R r r' -> out_rel r r'.
  Proof.
    intros R. destruct R as [a a' _ c c' Hc|e e' He c c' Hc|es es' Hes c c' Hc|c c' Hc|]; cbn [out_rel]; try exact I;
      destruct Hc as [q q' _ r r' _ ln ln' _ er er' _ ms1 ms1' Hms bs1 bs1' Hbs cl cl' Hcl lg lg' _]; cbn [bs ms calls];
      apply nat_R_eq in Hcl.
    - auto.
    - unfold ER in He. auto.
    - apply ER_list in Hes. auto.
  Qed.
End Out.

Lemma bres_R_refl (o : bres bstate perror) : bres_R bstate bstate eq perror perror ER o o.
Proof. destruct o; constructor; reflexivity. Qed.

(* ---- run A projects to the real run on the first tokens ---- *)
Definition TRa (x : tok2) (t : token) : Prop := fst x = t.
Definition MRa (m2 : ms2) (m : mstate) : Prop := fst m2 = m.

Lemma paramsA_related : params_R tok2 token TRa ms2 mstate MRa bstate bstate eq perror perror ER PA (pipeline_params Table.table).
Proof.
  unfold PA, PX, pipeline_params. constructor.
  - intros x t H. unfold TRa in H. subst t. apply bool_R_refl.
  - intros n n' H. apply nat_R_eq in H. subst n'. reflexivity.
  - intros k k' Hk m2 m Hm x t Hx. apply kind_R_eq in Hk. subst k'. unfold MRa, TRa in *. subst m t.
    unfold matchA. destruct (snd x) as [t'|]; destruct (p_matchf k (fst m2) (fst x)) as [b t1 m1|e t1 m1]; cbn [mres_map];
      constructor; try apply bool_R_refl; reflexivity.
  - intros r r' Hr b b' Hb. apply rule_R_eq in Hr. subst r' b'. apply bres_R_refl.
  - intros r r' Hr b b' Hb. apply rule_R_eq in Hr. subst r' b'. apply bres_R_refl.
  - intros x t Hx b b' Hb. unfold TRa in Hx. subst t b'. apply bres_R_refl.
  - intros e e' He f f' Hf. unfold ER in *. subst. apply bool_R_refl.
  - intros x t Hx l l' Hl. apply (list_R_eq kind_R) in Hl; [|apply kind_R_eq]. unfold TRa in Hx. subst l' t. reflexivity.
  - apply list_R_refl, st_R_refl.
  - apply list_R_refl, la_R_refl.
  - apply nat_R_refl.
  - apply nat_R_refl.
Qed.

(* ---- run B is related to the real run on the twins ---- *)
Definition twin (x : tok2) : token := match snd x with Some t' => t' | None => fst x end.
Definition twin_ok (x : tok2) : Prop := match snd x with Some t' => tw (fst x) t' | None => True end.
Definition TRb (x : tok2) (t : token) : Prop := twin x = t /\ twin_ok x.
Definition MRb (m2 : ms2) (m : mstate) : Prop := fst m2 = m /\ MIw m.

Lemma TRb_erase x t : TRb x t -> terase (fst x) = terase t.
Proof. intros [<- O]. unfold twin, twin_ok in *. destruct (snd x); [exact (proj1 O) | reflexivity]. Qed.

Lemma p_matchf_MIw k m t : MIw m -> MIw (mres_ms (p_matchf k m t)).
Proof.
  intros H. pose proof (matcher_MIw k m t H) as A. unfold p_matchf. destruct (matcher dialects k m t); cbn [mres_ms]; auto.
Qed.
Lemma p_matchf_line k m t : tk_line (mtok (p_matchf k m t)) = tk_line t.
Proof. unfold p_matchf. pose proof (matcher_line dialects k m t) as A. destruct (matcher dialects k m t); cbn [mtok]; auto. Qed.

Lemma paramsB_related : params_R tok2 token TRb ms2 mstate MRb bstate bstate BRel perror perror ER PB (pipeline_params Table.table).
Proof.
  unfold PB, PX, pipeline_params. constructor.
  - intros x t [<- O]. apply bool_R_of_eq. unfold twin, twin_ok in *. destruct (snd x) as [t'|]; [|reflexivity].
    destruct (tw_lines _ _ O) as [A B]. unfold tok_is_eof. destruct (tk_line (fst x)), (tk_line t'); congruence.
  - intros n n' H. apply nat_R_eq in H. subst n'. split; [reflexivity | exact I].
  - intros k k' Hk m2 m [Hm Mi] x t [Hx O]. apply kind_R_eq in Hk. subst k' m t.
    unfold matchB, matchA, twin, twin_ok in *. destruct (snd x) as [t'|].
    + destruct (unblind k (fst m2) (fst x) t') eqn:U.
      * (* answered from the twin *)
        pose proof (p_matchf_MIw k (fst m2) t' Mi) as Mi1. pose proof (p_matchf_line k (fst m2) t') as Ln.
        assert (T1 : tw (relabel (fst x) (mtok (p_matchf k (fst m2) t'))) (mtok (p_matchf k (fst m2) t'))).
        { destruct O as [_ (c & n & tl & tl' & L & L' & Hs)]. split; [reflexivity|]. exists c, n, tl, tl'. cbn [relabel tk_line]. rewrite Ln. auto. }
        destruct (p_matchf k (fst m2) t') as [b t1 m1|e t1 m1]; cbn [mres_map mres_ms mtok] in *;
          constructor; try apply bool_R_refl; try reflexivity; try (split; [reflexivity | exact T1]); (split; [reflexivity | exact Mi1]).
      * (* blind: both lines give the same answer *)
        pose proof (tw_match k (fst m2) (fst x) t' Mi O U) as R. pose proof (p_matchf_MIw k (fst m2) (fst x) Mi) as Mi1.
        destruct (p_matchf k (fst m2) (fst x)) as [b t1 m1|e t1 m1], (p_matchf k (fst m2) t') as [b' t1' m1'|e' t1' m1'];
          try contradiction; cbn [mres_map mtok mres_ms] in *.
        -- destruct R as (<- & Tw & Same & <-). constructor; [apply bool_R_refl | | split; [reflexivity | exact Mi1]].
           split; [reflexivity|]. cbn [twin_ok snd fst]. destruct b; [apply Tw; reflexivity|]. destruct (Same eq_refl) as [-> ->]. exact O.
        -- destruct R as (<- & Tw & <-). constructor; [reflexivity | | split; [reflexivity | exact Mi1]]. split; [reflexivity | exact Tw].
    + pose proof (p_matchf_MIw k (fst m2) (fst x) Mi) as Mi1.
      destruct (p_matchf k (fst m2) (fst x)) as [b t1 m1|e t1 m1]; cbn [mres_map mres_ms] in *;
        constructor; try apply bool_R_refl; try reflexivity; try (split; [reflexivity | exact I]); (split; [reflexivity | exact Mi1]).
  - intros r r' Hr b b' Hb. apply rule_R_eq in Hr. subst r'. pose proof (lift_rel _ _ (builder_start_rel r b b' Hb)) as H. unfold p_bstart.
    destruct (lift_bout (builder_start r b)), (lift_bout (builder_start r b')); try contradiction; [constructor; exact H | destruct H as [-> H]; constructor; [reflexivity | exact H] | constructor].
  - intros r r' Hr b b' Hb. apply rule_R_eq in Hr. subst r'. pose proof (lift_rel _ _ (builder_end_rel r b b' Hb)) as H. unfold p_bend.
    destruct (lift_bout (builder_end r b)), (lift_bout (builder_end r b')); try contradiction; [constructor; exact H | destruct H as [-> H]; constructor; [reflexivity | exact H] | constructor].
  - intros x t Hx b b' Hb. pose proof (lift_rel _ _ (builder_build_rel (fst x) t b b' (TRb_erase x t Hx) Hb)) as H. unfold p_bbuild.
    destruct (lift_bout (builder_build (fst x) b)), (lift_bout (builder_build t b')); try contradiction; [constructor; exact H | destruct H as [-> H]; constructor; [reflexivity | exact H] | constructor].
  - intros e e' He f f' Hf. unfold ER in *. subst. apply bool_R_refl.
  - intros x t [<- O] l l' Hl. apply (list_R_eq kind_R) in Hl; [|apply kind_R_eq]. subst l'. unfold ER, twin, twin_ok in *.
    destruct (snd x) as [t'|]; [apply tw_unexpected, O | reflexivity].
  - apply list_R_refl, st_R_refl.
  - apply list_R_refl, la_R_refl.
  - apply nat_R_refl.
  - apply nat_R_refl.
Qed.

Lemma list_R_fst xs : list_R tok2 token TRa xs (map fst xs).
Proof. induction xs; constructor; [reflexivity | assumption]. Qed.
Lemma list_R_twin xs : Forall twin_ok xs -> list_R tok2 token TRb xs (map twin xs).
Proof.
  induction xs as [|x xs IH]; intros H; constructor.
  - split; [reflexivity | exact (Forall_inv H)].
  - apply IH. exact (Forall_inv_tail H).
Qed.

Lemma reset_MIw m : wf_ms m -> MIw (reset_matcher dialects m).
Proof.
  intros W. destruct (reset_matcher_wf' m W) as [W' _]. split; [exact W'|].
  unfold reset_matcher. destruct (str_eqb _ _); [exact I|]. destruct (find_dialect dialects (ms_default m)); exact I.
Qed.

(* the run on paired tokens that decides whether the comparison applies *)
Definition paired_run (stop : bool) (xs : list tok2) (m : mstate) (b : bstate) :=
  parse PA stop xs (reset_matcher dialects m, false) (reset_builder b).
Definition blank_safe (stop : bool) (xs : list tok2) (m : mstate) (b : bstate) : Prop := good flag (paired_run stop xs m b).

Theorem blanks_tokens stop xs m b : wf_ms m -> Forall twin_ok xs -> blank_safe stop xs m b ->
  psim (presult_of (parse_tokens stop (map fst xs) m b)) (presult_of (parse_tokens stop (map twin xs) m b)).
Proof.
  intros W Ok G. unfold blank_safe, paired_run in G. unfold parse_tokens, parse_tokens_with.
  pose proof (parse_R _ _ TRa _ _ MRa _ _ eq _ _ ER PA (pipeline_params Table.table) paramsA_related stop stop (bool_R_refl stop)
                xs (map fst xs) (list_R_fst xs) (reset_matcher dialects m, false) (reset_matcher dialects m) eq_refl
                (reset_builder b) (reset_builder b) eq_refl) as Ra.
  pose proof (parse_R _ _ TRb _ _ MRb _ _ BRel _ _ ER PB (pipeline_params Table.table) paramsB_related stop stop (bool_R_refl stop)
                xs (map twin xs) (list_R_twin xs Ok) (reset_matcher dialects m, false) (reset_matcher dialects m) (conj eq_refl (reset_MIw m W))
                (reset_builder b) (reset_builder b) eq_refl) as Rb.
  rewrite (AB_agree stop xs _ _ G) in Rb.
  apply res_R_out in Ra. apply res_R_out in Rb.
  destruct (parse PA stop xs (reset_matcher dialects m, false) (reset_builder b)) as [[] cA|eA cA|esA cA|cA|];
    destruct (parse (pipeline_params Table.table) stop (map fst xs) (reset_matcher dialects m) (reset_builder b)) as [[] c|e c|es c|c|];
    cbn [out_rel] in Ra; try contradiction;
    destruct (parse (pipeline_params Table.table) stop (map twin xs) (reset_matcher dialects m) (reset_builder b)) as [[] c'|e' c'|es' c'|c'|];
    cbn [out_rel] in Rb; try contradiction; cbn [presult_of psim]; try exact I.
  - destruct Ra as (M1 & B1 & C1). destruct Rb as ([M2 _] & B2 & C2). unfold MRa in M1. rewrite <- B1.
    rewrite (builder_result_rel _ _ B2). destruct (builder_result (bs c')); [|exact I]. cbn [psim]. repeat split; congruence.
  - destruct Ra as (E1 & M1 & B1 & C1). destruct Rb as (E2 & [M2 _] & B2 & C2). unfold MRa in M1. repeat split; congruence.
  - destruct Ra as (E1 & M1 & B1 & C1). destruct Rb as (E2 & [M2 _] & B2 & C2). unfold MRa in M1. repeat split; congruence.
Qed.

(* ---- sources: physical lines pairwise equal or different only in the whitespace that ends them ---- *)
Definition lrel (a b : str) : Prop :=
  a = b \/ exists c tl tl', a = c ++ tl /\ b = c ++ tl' /\ all_space tl /\ all_space tl' /\ is_blank_text c = false.

Fixpoint pair_lines (ls ls' : list str) (n : nat) : list tok2 :=
  match ls, ls' with
  | a :: r, b :: r' => (raw_token a n, if str_eqb a b then None else Some (raw_token b n)) :: pair_lines r r' (S n)
  | _, _ => []
  end.

Lemma pair_lines_spec : forall ls ls', Forall2 lrel ls ls' -> forall n,
  map fst (pair_lines ls ls' n) = number_lines ls n /\ map twin (pair_lines ls ls' n) = number_lines ls' n
  /\ Forall twin_ok (pair_lines ls ls' n).
Proof.
  induction 1 as [|a b ls ls' R H IH]; intros n; cbn [pair_lines number_lines map]; [repeat split; constructor|].
  destruct (IH (S n)) as (I1 & I2 & I3). rewrite I1, I2. cbn [fst]. split; [reflexivity|].
  destruct (str_eqb a b) eqn:E.
  - apply str_eqb_eq in E. subst b. split; [reflexivity|]. constructor; [exact I | exact I3].
  - split; [reflexivity|]. constructor; [|exact I3]. unfold twin_ok. cbn [snd fst].
    destruct R as [->|(c & tl & tl' & -> & -> & Ht & Ht' & Hc)]; [rewrite str_eqb_refl in E; discriminate E|].
    split; [reflexivity|]. exists c, n, tl, tl'. cbn. auto.
Qed.

(* two sources whose physical lines differ at most in their trailing whitespace *)
Theorem trailing_whitespace_neutral stop m b src src' : wf_ms m ->
  Forall2 lrel (py_lines src) (py_lines src') ->
  blank_safe stop (pair_lines (py_lines src) (py_lines src') 1) m b ->
  psim (parse_source stop m b src) (parse_source stop m b src').
Proof.
  intros W R G. rewrite !parse_source_of. unfold scan.
  destruct (pair_lines_spec _ _ R 1) as (E1 & E2 & Ok). rewrite <- E1, <- E2. apply blanks_tokens; assumption.
Qed.

(* a decision procedure for lrel, for examples *)
Lemma rdrop_split p s : exists t, s = rdrop_while p s ++ t /\ forallb p t = true.
Proof.
  induction s as [|c s IH]; [exists []; split; reflexivity|]. destruct IH as (t & E & Ht). cbn [rdrop_while].
  destruct (rdrop_while p s) as [|x r] eqn:R.
  - cbn [app] in E. subst s. destruct (p c) eqn:Pc.
    + exists (c :: t). split; [reflexivity|]. cbn. now rewrite Pc.
    + exists t. split; [reflexivity | exact Ht].
  - exists t. split; [|exact Ht]. cbn [app]. f_equal. exact E.
Qed.
Definition lrelb (a b : str) : bool := str_eqb a b || (str_eqb (rstrip a) (rstrip b) && negb (forallb is_space (rstrip a))).
Lemma lrelb_lrel a b : lrelb a b = true -> lrel a b.
Proof.
  unfold lrelb. intros H. apply orb_prop in H as [H|H]; [left; now apply str_eqb_eq|]. right.
  apply andb_prop in H as [E B]. apply str_eqb_eq in E. apply negb_true_iff in B.
  destruct (rdrop_split is_space a) as (tl & Ea & Ht). destruct (rdrop_split is_space b) as (tl' & Eb & Ht').
  exists (rstrip a), tl, tl'. unfold rstrip in *. rewrite <- E in Eb. auto.
Qed.
Fixpoint forallb2 {A} (f : A -> A -> bool) (l l' : list A) : bool :=
  match l, l' with
  | [], [] => true
  | a :: r, b :: r' => f a b && forallb2 f r r'
  | _, _ => false
  end.
Lemma forallb2_Forall2 {A} (f : A -> A -> bool) (R : A -> A -> Prop) : (forall a b, f a b = true -> R a b) ->
  forall l l', forallb2 f l l' = true -> Forall2 R l l'.
Proof.
  intros H. induction l as [|a l IH]; destruct l' as [|b l']; cbn; try discriminate; [constructor|].
  intros E. apply andb_prop in E as [E1 E2]. constructor; auto.
Qed.

(* the flag of the paired run, as a boolean (for examples) *)
Definition flag_down {A} (r : res tok2 ms2 bstate perror A) : bool :=
  match r with
  | Ok _ c | Raise1 _ c | RaiseC _ c | Crash c => negb (flag (ms c))
  | OutOfFuel => false
  end.
Lemma flag_down_good {A} (r : res tok2 ms2 bstate perror A) : flag_down r = true -> good flag r.
Proof. destruct r; cbn; try discriminate; intros H; now apply negb_true_iff in H. Qed.
