(* C18: the queue invariant of the look-ahead and the delivery theorem, for the
   generic interpreter.  Tokens are mutated by matching, so everything is stated
   through a key (for real tokens: the physical line and its number) that
   matching preserves. *)
From Coq Require Import List Bool Arith Lia.
Import ListNotations.
Require Import Kinds Automaton AutoFacts.

Section Delivery.
  Context {Tok MS BS Err : Type}.
  Variable P : params Tok MS BS Err.
  Notation ctx := (ctx Tok MS BS Err).
  Notation res := (res Tok MS BS Err).

  Variable K : Type.
  Variable key : Tok -> K.
  Variable sk : Tok -> Prop.          (* skippable by every look-ahead: blank, comment, well-formed tag line *)
  Variable I : MS -> Prop.            (* an invariant of the matcher state *)

  Definition mtok (r : mres Tok MS Err) : Tok := match r with MR _ t _ | MRaise _ t _ => t end.
  Definition mst (r : mres Tok MS Err) : MS := match r with MR _ _ m | MRaise _ _ m => m end.

  Hypothesis Hkey : forall k m t, key (mtok (matchf P k m t)) = key t.
  Hypothesis Heof : forall k m t, is_eof P (mtok (matchf P k m t)) = is_eof P t.
  Hypothesis Hmkeof : forall n, is_eof P (mk_eof P n) = true.
  Hypothesis HI : forall k m t, I m -> I (mst (matchf P k m t)).
  Hypothesis sk_not_eof : forall t, sk t -> is_eof P t = false.
  (* a token that answered yes to a skip test is skippable from then on *)
  Hypothesis S1 : forall h k m t t' m', In h (lookaheads P) -> In k (la_skip h) -> I m ->
    matchf P k m t = MR true t' m' -> sk t'.
  (* a skippable token is never what a look-ahead waits for, and is always skipped again;
     failing tests leave token and matcher untouched *)
  Hypothesis S2 : forall h m t, In h (lookaheads P) -> I m -> sk t ->
    (forall k, In k (la_expected h) -> matchf P k m t = MR false t m)
    /\ exists ks1 k ks2, la_skip h = ks1 ++ k :: ks2
         /\ (forall k1, In k1 ks1 -> matchf P k1 m t = MR false t m)
         /\ exists t' m', matchf P k m t = MR true t' m' /\ sk t'.
  (* no look-ahead waits for or skips the end of file *)
  Hypothesis la_no_eof : forall h, In h (lookaheads P) -> ~ In KEOF (la_expected h) /\ ~ In KEOF (la_skip h).

  (* ---- frames ---- *)
  (* same queue, scanner and ghost log *)
  Definition fq (c c' : ctx) : Prop :=
    queue c' = queue c /\ rest c' = rest c /\ lineno c' = lineno c /\ log c' = log c.
  Lemma fq_refl c : fq c c. Proof. repeat split. Qed.
  Lemma fq_trans a b c : fq a b -> fq b c -> fq a c.
  Proof. intros (A1 & A2 & A3 & A4) (B1 & B2 & B3 & B4). repeat split; congruence. Qed.

  Lemma add_error_fq e c : sat (add_error P e c) (fun _ c' => fq c c' /\ ms c' = ms c) (fun c' => fq c c' /\ ms c' = ms c) False.
  Proof.
    unfold add_error. destruct (existsb _ _); simpl; [split; [apply fq_refl | reflexivity]|].
    destruct (_ <? _); simpl; (split; [repeat split | reflexivity]).
  Qed.

  (* one wrapper call: queue/scanner/log untouched, key and eof-ness of the token kept, invariant kept *)
  Lemma match_k_fq stop k t c : I (ms c) ->
    sat (match_k P stop k t c)
        (fun r c' => fq c c' /\ I (ms c') /\ key (snd r) = key t /\ is_eof P (snd r) = is_eof P t)
        (fun c' => fq c c') False.
  Proof.
    intros Hi. unfold match_k. destruct (_ && _); simpl; [repeat split; auto|].
    pose proof (Hkey k (ms c) t) as Kk. pose proof (Heof k (ms c) t) as Ke. pose proof (HI k (ms c) t Hi) as Ki.
    destruct (matchf P k (ms c) t) as [b t' m'|e t' m']; simpl in *.
    - repeat split; auto.
    - destruct stop; simpl; [repeat split|].
      pose proof (add_error_fq e (set_ms m' (bump c))) as A.
      destruct (add_error P e (set_ms m' (bump c))) as [[] c'| | | |]; simpl in *; auto;
        destruct A as [(A1 & A2 & A3 & A4) A5]; repeat split; auto; rewrite A5; exact Ki.
  Qed.

  Lemma any_match_fq stop ks : forall t c, I (ms c) ->
    sat (any_match P stop ks t c)
        (fun r c' => fq c c' /\ I (ms c') /\ key (snd r) = key t /\ is_eof P (snd r) = is_eof P t)
        (fun c' => fq c c') False.
  Proof.
    induction ks as [|k ks IH]; intros t c Hi; simpl; [repeat split; auto|].
    eapply sat_bind; [apply match_k_fq; exact Hi|].
    intros [b t'] c' (F & Hi' & Kk & Ke). simpl in *. destruct b; simpl.
    - repeat split; auto; apply F.
    - eapply sat_weaken; [apply IH; exact Hi' | | | auto].
      + intros r c'' (F2 & Hi2 & K2 & E2). repeat split; try (eapply fq_trans; eauto); auto; try apply (fq_trans _ _ _ F F2); congruence.
      + intros c'' F2. eapply fq_trans; eauto.
  Qed.

  (* ---- a skippable token inside a look-ahead ---- *)
  Lemma match_k_false stop k t c : is_eof P t = false -> matchf P k (ms c) t = MR false t (ms c) ->
    exists c', match_k P stop k t c = Ok (false, t) c' /\ fq c c' /\ ms c' = ms c /\ errs c' = errs c /\ bs c' = bs c.
  Proof.
    intros E M. unfold match_k. rewrite E, andb_false_r. cbn [ms bump]. rewrite M.
    eexists. split; [reflexivity|]. repeat split.
  Qed.

  Lemma any_match_all_false stop ks : forall t c, is_eof P t = false ->
    (forall k, In k ks -> matchf P k (ms c) t = MR false t (ms c)) ->
    exists c', any_match P stop ks t c = Ok (false, t) c' /\ fq c c' /\ ms c' = ms c.
  Proof.
    induction ks as [|k ks IH]; intros t c E H; simpl.
    - exists c. repeat split.
    - destruct (match_k_false stop k t c E (H k (or_introl eq_refl))) as (c1 & M & F1 & Ms1 & _ & _).
      rewrite M. cbn [bind fst snd].
      destruct (IH t c1 E) as (c2 & A & F2 & Ms2).
      { intros k' Hk'. rewrite Ms1. apply H. now right. }
      exists c2. split; [exact A|]. split; [eapply fq_trans; eauto | congruence].
  Qed.

  Lemma any_match_skip stop h t c : In h (lookaheads P) -> I (ms c) -> sk t ->
    exists t' c', any_match P stop (la_skip h) t c = Ok (true, t') c' /\ fq c c' /\ I (ms c') /\ sk t' /\ key t' = key t.
  Proof.
    intros Hh Hi Hs. destruct (S2 h (ms c) t Hh Hi Hs) as (_ & ks1 & k & ks2 & Esk & Hf & t' & m' & Hm & Hs').
    rewrite Esk. pose proof (sk_not_eof t Hs) as E.
    assert (G : forall ks c0, ms c0 = ms c -> fq c c0 ->
              (forall k1, In k1 ks -> matchf P k1 (ms c) t = MR false t (ms c)) ->
              exists c', any_match P stop (ks ++ k :: ks2) t c0 = Ok (true, t') c' /\ fq c c' /\ I (ms c') /\ key t' = key t).
    { induction ks as [|k1 ks IH]; intros c0 M0 F0 H0; cbn [app any_match].
      - unfold match_k. rewrite E, andb_false_r. cbn [ms bump]. rewrite M0, Hm. cbn [bind fst snd].
        eexists. split; [reflexivity|]. split; [|split].
        + destruct F0 as (A1 & A2 & A3 & A4). repeat split; assumption.
        + cbn [ms set_ms]. pose proof (HI k (ms c) t Hi) as Hi'. rewrite Hm in Hi'. exact Hi'.
        + pose proof (Hkey k (ms c) t) as Kk. rewrite Hm in Kk. exact Kk.
      - destruct (match_k_false stop k1 t c0 E) as (c1 & M & F1 & Ms1 & _ & _).
        { rewrite M0. apply H0. now left. }
        rewrite M. cbn [bind fst snd]. apply IH; [congruence | eapply fq_trans; eauto|].
        intros k2 Hk2. apply H0. now right. }
    destruct (G ks1 c eq_refl (fq_refl c) Hf) as (c' & A & F & Hi' & Kk).
    exists t', c'. repeat split; auto; apply F.
  Qed.

  (* ---- the pending stream ---- *)
  Fixpoint upto (l : list Tok) : list Tok :=
    match l with [] => [] | t :: r => if is_eof P t then [t] else t :: upto r end.
  Definition eofs (c : ctx) : Tok := mk_eof P (S (lineno c + length (rest c))).
  Definition stream (c : ctx) : list Tok := queue c ++ rest c ++ [eofs c].
  Definition U (c : ctx) : list K := map key (upto (stream c)).
  Definition sz (c : ctx) : nat := length (queue c) + length (rest c).

  Definition qwf (c : ctx) : Prop :=
    Forall sk (removelast (queue c))
    /\ (forall t, In t (queue c) -> is_eof P t = true -> rest c = []).
  Definition rest_ok (c : ctx) : Prop := Forall (fun t => is_eof P t = false) (rest c).
  Definition W (c : ctx) : Prop := qwf c /\ rest_ok c /\ I (ms c).

  Lemma removelast_cons_ne {A} (x : A) l : l <> [] -> removelast (x :: l) = x :: removelast l.
  Proof. destruct l; [congruence | reflexivity]. Qed.

  Lemma read_spec c t c1 : read P c = (t, c1) -> qwf c -> rest_ok c ->
    log c1 = log c /\ ms c1 = ms c /\ bs c1 = bs c /\ errs c1 = errs c /\ qwf c1 /\ rest_ok c1 /\
    U c = key t :: (if is_eof P t then [] else U c1) /\
    (is_eof P t = false -> sz c1 < sz c) /\
    (forall q qs, queue c = q :: qs -> t = q /\ queue c1 = qs) /\
    (queue c = [] -> queue c1 = []) /\
    (is_eof P t = true -> rest c1 = []).
  Proof.
    unfold read, U, stream, eofs, sz, qwf, rest_ok. intros H [Hq Hqe] Hr.
    destruct (queue c) as [|q qs] eqn:Q.
    - destruct (rest c) as [|r rs] eqn:R; inversion H; subst; clear H; cbn [queue rest lineno log ms bs errs app length].
      + rewrite Nat.add_0_r. cbn [upto map]. rewrite Hmkeof.
        repeat split; auto; try solve [constructor | intros; discriminate | lia | intros ? []].
      + inversion Hr as [|? ? Hr1 Hr2]; subst. cbn [upto map]. rewrite Hr1.
        replace (S (lineno c + S (length rs))) with (S (S (lineno c) + length rs)) by lia.
        repeat split; auto; try solve [constructor | intros; discriminate | simpl; lia | intros ? [] | congruence].
    - inversion H; subst; clear H. cbn [queue rest lineno log ms bs errs app length upto map].
      repeat split; auto; try solve [intros; discriminate | simpl; lia].
      + destruct qs as [|q2 qs]; [constructor|]. rewrite removelast_cons_ne in Hq by discriminate. now inversion Hq.
      + intros t' Hin He. apply (Hqe t'); [now right | exact He].
      + destruct (is_eof P t); reflexivity.
      + inversion H; subst; auto.
      + inversion H; subst; auto.
      + intros E. apply (Hqe t); [now left | exact E].
  Qed.

  (* a non-skippable token read from the queue was its last element *)
  Lemma nonsk_last c t qs : qwf c -> queue c = t :: qs -> ~ sk t -> qs = [].
  Proof.
    intros [Hq _] Q N. rewrite Q in Hq. destruct qs as [|q2 qs]; auto.
    rewrite removelast_cons_ne in Hq by discriminate. inversion Hq; subst. contradiction.
  Qed.

  Definition KU (l : list Tok) : list K := map key (upto l).
  Lemma KU_cons t l : KU (t :: l) = key t :: (if is_eof P t then [] else KU l).
  Proof. unfold KU. simpl. destruct (is_eof P t); reflexivity. Qed.
  Lemma U_KU c : U c = KU (queue c ++ rest c ++ [eofs c]).
  Proof. reflexivity. Qed.
  Lemma U_fq c c' : fq c c' -> U c' = U c.
  Proof. intros (A1 & A2 & A3 & A4). unfold U, stream, eofs. now rewrite A1, A2, A3. Qed.

  (* an end-of-file token answers no to every test but #EOF, without consulting the matcher *)
  Lemma any_match_eof stop ks : forall t c, is_eof P t = true -> ~ In KEOF ks ->
    any_match P stop ks t c = Ok (false, t) c.
  Proof.
    induction ks as [|k ks IH]; intros t c E N; simpl; [reflexivity|].
    unfold match_k. destruct (kind_beq k KEOF) eqn:Ek.
    - exfalso. apply N. left. symmetry. now apply kind_beq_eq.
    - rewrite E. cbn [negb andb bind fst snd]. apply IH; auto. intros X. apply N. now right.
  Qed.

  Lemma last_cons_ne {A} (x : A) l d : l <> [] -> last (x :: l) d = last l d.
  Proof. destruct l; [congruence | reflexivity]. Qed.

  Lemma sat_and {A} (r : res A) Q1 Q2 E1 E2 F1 F2 :
    sat r Q1 E1 F1 -> sat r Q2 E2 F2 -> sat r (fun a c => Q1 a c /\ Q2 a c) (fun c => E1 c /\ E2 c) (F1 /\ F2).
  Proof. destruct r; simpl; auto. Qed.

  (* a yes from a skip test makes the token skippable *)
  Lemma any_match_sk stop h : In h (lookaheads P) -> forall ks, incl ks (la_skip h) -> forall t c, I (ms c) ->
    sat (any_match P stop ks t c) (fun r _ => fst r = true -> sk (snd r)) (fun _ => True) True.
  Proof.
    intros Hh. induction ks as [|k ks IH]; intros Hin t c Hi; cbn [any_match]; [intros X; discriminate X|].
    assert (Hk : In k (la_skip h)) by (apply Hin; now left).
    assert (Hks : incl ks (la_skip h)) by (intros x Hx; apply Hin; now right).
    unfold match_k. destruct (_ && _); cbn [bind fst snd]; [apply IH; auto|].
    cbn [ms bump]. pose proof (HI k (ms c) t Hi) as Hi'.
    destruct (matchf P k (ms c) t) as [b t' m'|e t' m'] eqn:M; cbn [bind fst snd mst] in *.
    - destruct b; cbn [sat fst snd].
      + intros _. exact (S1 h k (ms c) t t' m' Hh Hk Hi M).
      + apply IH; auto.
    - destruct stop; cbn [sat]; [exact Logic.I|].
      pose proof (add_error_fq e (set_ms m' (bump c))) as A.
      destruct (add_error P e (set_ms m' (bump c))) as [[] c'| | | |]; cbn [bind sat fst snd] in *; auto.
      apply IH; auto. destruct A as [_ A5]. rewrite A5. exact Hi'.
  Qed.

  Definition la_post (c : ctx) (acc : list Tok) (r : bool * list Tok) (c1 : ctx) : Prop :=
    log c1 = log c /\ queue c1 = [] /\ rest_ok c1 /\ I (ms c1) /\
    exists toks, snd r = acc ++ toks /\ toks <> [] /\ Forall sk (removelast toks) /\
      U c = KU (toks ++ rest c1 ++ [eofs c1]) /\
      (forall d, is_eof P (last toks d) = true -> rest c1 = []).

  Lemma la_loop_spec stop h : In h (lookaheads P) -> forall fuel c acc, W c -> sz c < fuel ->
    sat (la_loop P fuel stop h c acc) (la_post c acc) (fun c1 => log c1 = log c) False.
  Proof.
    intros Hh. induction fuel as [|f IH]; intros c acc (Hq & Hr & Hi) Hf; [lia|].
    cbn [la_loop]. destruct (read P c) as [t c0] eqn:R.
    destruct (read_spec c t c0 R Hq Hr) as (Lg & Ms & _ & _ & Hq0 & Hr0 & HU & Hsz & Hqq & Hq00 & Heofr).
    assert (Hi0 : I (ms c0)) by (rewrite Ms; exact Hi).
    (* what continuing with a skipped token t2 (a matched version of t) gives *)
    assert (Cont : forall t2 c3, fq c0 c3 -> I (ms c3) -> sk t2 -> key t2 = key t -> is_eof P t = false ->
              sat (la_loop P f stop h c3 (acc ++ [t2])) (la_post c acc) (fun c1 => log c1 = log c) False).
    { intros t2 c3 F3 Hi3 Hs2 K2 Et.
      assert (W3 : W c3).
      { destruct F3 as (A1 & A2 & A3 & A4). split; [|split; [|exact Hi3]].
        - unfold qwf in *. rewrite A1, A2. exact Hq0.
        - unfold rest_ok in *. rewrite A2. exact Hr0. }
      assert (Sz3 : sz c3 < f).
      { destruct F3 as (A1 & A2 & A3 & A4). unfold sz in *. rewrite A1, A2. specialize (Hsz Et). lia. }
      eapply sat_weaken; [apply (IH c3 (acc ++ [t2]) W3 Sz3) | | | auto].
      - intros r c1 (L1 & Q1 & R1 & I1 & toks & E1 & N1 & F1 & U1 & La1).
        split; [rewrite L1; destruct F3 as (_ & _ & _ & A4); congruence|].
        repeat split; auto. exists (t2 :: toks). repeat split.
        + rewrite E1, <- app_assoc. reflexivity.
        + discriminate.
        + rewrite removelast_cons_ne by assumption. constructor; assumption.
        + rewrite HU, Et. cbn [app]. rewrite KU_cons, K2.
          rewrite (sk_not_eof t2 Hs2). f_equal. rewrite <- (U_fq c0 c3 F3). exact U1.
        + intros d. rewrite last_cons_ne by assumption. apply La1.
      - intros c1 L1. rewrite L1. destruct F3 as (_ & _ & _ & A4). congruence. }
    destruct (queue c0) as [|q1 qs1] eqn:Q0.
    - (* the token read was the last of the queue or came from the scanner *)
      pose proof (any_match_fq stop (la_expected h) t c0 Hi0) as AM.
      eapply sat_bind with (Q1 := fun r c2 => fq c0 c2 /\ I (ms c2) /\ key (snd r) = key t /\ is_eof P (snd r) = is_eof P t).
      { eapply sat_weaken; [exact AM | auto | | auto]. intros c2 X. destruct X as (_ & _ & _ & A4). congruence. }
      intros [b t1] c2 (F2 & Hi2 & K1 & E1). cbn [fst snd] in *.
      assert (Stop : forall tx cx, fq c0 cx -> I (ms cx) -> key tx = key t -> is_eof P tx = is_eof P t ->
                forall bb, la_post c acc (bb, acc ++ [tx]) cx).
      { intros tx cx Fx Hix Kx Ex bb. destruct Fx as (A1 & A2 & A3 & A4).
        split; [congruence|]. split; [congruence|]. split; [unfold rest_ok; rewrite A2; exact Hr0|]. split; [exact Hix|].
        exists [tx]. repeat split; auto; try discriminate; try constructor.
        - rewrite HU. cbn [app]. rewrite KU_cons, Kx, Ex. f_equal.
          destruct (is_eof P t); [reflexivity|]. rewrite <- (U_fq c0 cx) by (repeat split; assumption).
          rewrite U_KU, A1, Q0. reflexivity.
        - intros d. cbn [last]. rewrite Ex, A2. exact Heofr. }
      destruct b; cbn [sat]; [apply Stop; auto|].
      destruct (is_eof P t) eqn:Et.
      + (* end of file: no skip test fires *)
        rewrite any_match_eof; [|congruence | apply (la_no_eof h Hh)]. cbn [bind fst snd sat].
        apply Stop; auto; congruence.
      + pose proof (sat_and _ _ _ _ _ _ _ (any_match_fq stop (la_skip h) t1 c2 Hi2)
                              (any_match_sk stop h Hh (la_skip h) (incl_refl _) t1 c2 Hi2)) as AM2.
        eapply sat_bind with (Q1 := fun r c3 => (fq c2 c3 /\ I (ms c3) /\ key (snd r) = key t1 /\ is_eof P (snd r) = is_eof P t1)
                                              /\ (fst r = true -> sk (snd r))).
        { eapply sat_weaken; [exact AM2 | auto | | tauto]. intros c3 [X _]. destruct X as (_ & _ & _ & A4).
          destruct F2 as (_ & _ & _ & B4). congruence. }
        intros [b' t2] c3 ((F3 & Hi3 & K2 & E2) & Sk2). cbn [fst snd] in *.
        assert (F03 : fq c0 c3) by (eapply fq_trans; eauto).
        destruct b'.
        * (* skipped: it answered yes to a skip test, hence skippable *)
          apply Cont; auto. congruence.
        * cbn [sat]. apply Stop; auto; congruence.
    - (* more tokens follow in the queue: this one is skippable, the look-ahead goes on *)
      assert (Hst : sk t).
      { destruct (queue c) as [|q qs] eqn:Qc; [specialize (Hq00 eq_refl); discriminate|].
        destruct (Hqq q qs eq_refl) as [-> Eq]. subst qs.
        destruct Hq as [Hq _]. rewrite Qc in Hq. rewrite removelast_cons_ne in Hq by discriminate.
        now inversion Hq. }
      pose proof (sk_not_eof t Hst) as Et.
      destruct (S2 h (ms c0) t Hh Hi0 Hst) as (Hexp & _).
      destruct (any_match_all_false stop (la_expected h) t c0 Et Hexp) as (c2 & A & F2 & Ms2).
      rewrite A. cbn [bind fst snd].
      assert (Hi2 : I (ms c2)) by (rewrite Ms2; exact Hi0).
      destruct (any_match_skip stop h t c2 Hh Hi2 Hst) as (t' & c3 & A3 & F3 & Hi3 & Hs' & K').
      rewrite A3. cbn [bind fst snd].
      apply Cont; auto. eapply fq_trans; eauto.
  Qed.

  Lemma in_removelast_or_last (l : list Tok) t d : In t l -> In t (removelast l) \/ t = last l d.
  Proof.
    induction l as [|x l IH]; [intros []|]. intros [->|H].
    - destruct l; [right; reflexivity | left; now left].
    - destruct l as [|y l]; [destruct H|]. destruct (IH H) as [H1|H1].
      + left. rewrite removelast_cons_ne by discriminate. now right.
      + right. exact H1.
  Qed.

  (* the look-ahead changes nothing but the split between queue and scanner *)
  Lemma lookahead_spec stop h c : W c ->
    sat (lookahead P stop h c) (fun _ c2 => W c2 /\ U c2 = U c /\ log c2 = log c) (fun c2 => log c2 = log c) False.
  Proof.
    intros Hw. unfold lookahead. destruct (find_la P h) as [x|] eqn:Fl; [|reflexivity].
    assert (Hx : In x (lookaheads P)) by (unfold find_la in Fl; apply find_some in Fl; tauto).
    eapply sat_bind; [apply (la_loop_spec stop x Hx); [exact Hw | unfold sz; lia]|].
    intros [b acc] c1 (L1 & Q1 & R1 & I1 & toks & E1 & N1 & F1 & U1 & La1). cbn [sat fst snd app] in *. subst acc.
    rewrite Q1. cbn [app]. split; [|split].
    - split; [split|split].
      + exact F1.
      + cbn [queue rest set_queue]. intros t Hin He.
        destruct (in_removelast_or_last toks t t Hin) as [H1|H1].
        * rewrite Forall_forall in F1. apply F1, sk_not_eof in H1. congruence.
        * apply (La1 t). rewrite <- H1. exact He.
      + exact R1.
      + exact I1.
    - rewrite U1. reflexivity.
    - exact L1.
  Qed.

  (* ---- what reaches the builder ---- *)
  Definition delivered (c : ctx) : list K :=
    flat_map (fun e => match e with EvB t _ => [key t] | EvX t _ => [key t] | _ => [] end) (events c).

  Lemma delivered_log c c' : log c' = log c -> delivered c' = delivered c.
  Proof. unfold delivered, events. intros ->. reflexivity. Qed.

  Fixpoint count_pb (ps : list prod) : nat :=
    match ps with [] => 0 | PB :: r => S (count_pb r) | _ :: r => count_pb r end.

  Lemma delivered_exec_log t k ps c c' : log c' = rev (map (ev_of_prod t k) ps) ++ log c ->
    delivered c' = delivered c ++ repeat (key t) (count_pb ps).
  Proof.
    unfold delivered, events. intros ->. rewrite rev_app_distr, rev_involutive, flat_map_app. f_equal.
    induction ps as [|p ps IH]; simpl; auto. destruct p; simpl; auto. now rewrite IH.
  Qed.

  (* builder calls touch neither queue, scanner nor matcher *)
  Definition fqm (c c' : ctx) : Prop := queue c' = queue c /\ rest c' = rest c /\ lineno c' = lineno c /\ ms c' = ms c.
  Lemma fqm_W c c' : fqm c c' -> W c -> W c'.
  Proof. intros (A1 & A2 & A3 & A4) (Hq & Hr & Hi). unfold W, qwf, rest_ok in *. rewrite A1, A2, A4. auto. Qed.
  Lemma fqm_U c c' : fqm c c' -> U c' = U c.
  Proof. intros (A1 & A2 & A3 & A4). unfold U, stream, eofs. now rewrite A1, A2, A3. Qed.
  Lemma fqm_trans a b c : fqm a b -> fqm b c -> fqm a c.
  Proof. intros (A1 & A2 & A3 & A4) (B1 & B2 & B3 & B4). repeat split; congruence. Qed.

  Lemma b_call_fqm stop f c : sat (b_call P stop f c) (fun _ c' => fqm c c') (fqm c) False.
  Proof.
    unfold b_call. destruct (f (bs c)); simpl; [repeat split| |repeat split].
    destruct stop; simpl; [repeat split|].
    pose proof (add_error_fq e (set_bs b c)) as A.
    destruct (add_error P e (set_bs b c)) as [[] c'| | | |]; simpl in *; auto;
      destruct A as [(A1 & A2 & A3 & A4) A5]; repeat split; auto.
  Qed.

  (* exec: on a normal return every production was logged; otherwise a prefix of them *)
  Lemma exec_spec stop t k : forall ps c,
    sat (exec P stop t k ps c)
        (fun _ c' => fqm c c' /\ delivered c' = delivered c ++ repeat (key t) (count_pb ps))
        (fun c' => exists n, n <= count_pb ps /\ delivered c' = delivered c ++ repeat (key t) n)
        False.
  Proof.
    induction ps as [|p ps IH]; intros c; cbn [exec].
    - cbn [sat count_pb repeat]. rewrite app_nil_r. repeat split.
    - set (c0 := match p with PS r => emit (EvS r) c | PE r => emit (EvE r) c | PB => emit (EvB t k) c end).
      set (f := match p with PS r => b_start P r | PE r => b_end P r | PB => b_build P t end).
      assert (D0 : delivered c0 = delivered c ++ repeat (key t) (count_pb [p])).
      { unfold delivered, events, c0. destruct p; cbn [log emit rev flat_map count_pb repeat];
          rewrite ?flat_map_app; cbn [flat_map]; rewrite ?app_nil_r; reflexivity. }
      assert (F0 : fqm c c0) by (unfold c0; destruct p; repeat split).
      assert (E : match p with
                  | PS r => b_call P stop (b_start P r) (emit (EvS r) c)
                  | PE r => b_call P stop (b_end P r) (emit (EvE r) c)
                  | PB => b_call P stop (b_build P t) (emit (EvB t k) c)
                  end = b_call P stop f c0) by (unfold f, c0; destruct p; reflexivity).
      rewrite E. clear E.
      assert (Cn : count_pb (p :: ps) = count_pb [p] + count_pb ps) by (destruct p; reflexivity).
      eapply sat_bind with (Q1 := fun _ c1 => fqm c0 c1 /\ log c1 = log c0).
      + pose proof (b_call_fqm stop f c0) as B1. pose proof (b_call_fr P c0 stop f c0 (fr_refl c0)) as B2.
        destruct (b_call P stop f c0) as [[] c1|e c1|es c1|c1|]; cbn [sat] in *; try tauto.
        * split; [exact B1 | apply B2].
        * exists (count_pb [p]). split; [lia|]. rewrite (delivered_log c0 c1) by apply B2. exact D0.
        * exists (count_pb [p]). split; [lia|]. rewrite (delivered_log c0 c1) by apply B2. exact D0.
        * exists (count_pb [p]). split; [lia|]. rewrite (delivered_log c0 c1) by apply B2. exact D0.
      + intros _ c1 [F1 L1]. eapply sat_weaken; [apply IH | | | auto].
        * intros _ c2 [F2 D2]. split; [eapply fqm_trans; [exact F0|]; eapply fqm_trans; eauto|].
          rewrite D2, (delivered_log c0 c1 L1), D0, Cn, <- app_assoc, repeat_app. reflexivity.
        * intros c2 (n & Hn & D2). exists (count_pb [p] + n). split; [lia|].
          rewrite D2, (delivered_log c0 c1 L1), D0, <- app_assoc, repeat_app. reflexivity.
  Qed.

  Lemma fq_W c c' : fq c c' -> I (ms c') -> W c -> W c'.
  Proof. intros (A1 & A2 & A3 & A4) Hi (Hq & Hr & _). unfold W, qwf, rest_ok in *. rewrite A1, A2. auto. Qed.
  Lemma fq_delivered c c' : fq c c' -> delivered c' = delivered c.
  Proof. intros (_ & _ & _ & A4). now apply delivered_log. Qed.

  (* the #EOF test answers yes to the end-of-file token only *)
  Hypothesis Hmatch_eof : forall m t t' m', matchf P KEOF m t = MR true t' m' -> is_eof P t = true.

  Lemma match_k_eof_true stop k t c :
    sat (match_k P stop k t c) (fun r _ => fst r = true -> k = KEOF -> is_eof P t = true) (fun _ => True) True.
  Proof.
    unfold match_k. destruct (_ && _); cbn [sat fst]; [intros X; discriminate X|].
    cbn [ms bump]. destruct (matchf P k (ms c) t) as [b t' m'|e t' m'] eqn:M; cbn [sat fst].
    - intros -> ->. eapply Hmatch_eof; eauto.
    - destruct stop; cbn [sat]; [exact Logic.I|].
      destruct (add_error P e _) as [[] c'| | | |]; cbn [bind sat fst]; auto. intros X; discriminate X.
  Qed.

  Definition tgt_ok (tests : list test) (t : Tok) (o : option nat) : Prop :=
    match o with
    | Some s' => exists y, In y tests /\ t_tgt y = s' /\ (t_kind y = KEOF -> is_eof P t = true)
    | None => True
    end.

  Lemma run_tests_spec stop : forall tests t c, W c -> (forall y, In y tests -> count_pb (t_prods y) = 1) ->
    sat (run_tests P stop tests t c)
        (fun r c' => W c' /\ U c' = U c /\ key (snd r) = key t /\ is_eof P (snd r) = is_eof P t /\
                     delivered c' = delivered c ++ (match fst r with Some _ => [key t] | None => [] end) /\
                     tgt_ok tests t (fst r))
        (fun c' => exists n, n <= 1 /\ delivered c' = delivered c ++ repeat (key t) n)
        False.
  Proof.
    induction tests as [|x xs IH]; intros t c Hw Hb; cbn [run_tests].
    - cbn [sat fst snd tgt_ok]. rewrite app_nil_r. split; [exact Hw|]. repeat split; auto.
    - assert (Hbx : count_pb (t_prods x) = 1) by (apply Hb; now left).
      assert (Hbxs : forall y, In y xs -> count_pb (t_prods y) = 1) by (intros y Hy; apply Hb; now right).
      pose proof (sat_and _ _ _ _ _ _ _ (match_k_fq stop (t_kind x) t c (proj2 (proj2 Hw))) (match_k_eof_true stop (t_kind x) t c)) as MK.
      eapply sat_bind with (Q1 := fun r c1 => (fq c c1 /\ I (ms c1) /\ key (snd r) = key t /\ is_eof P (snd r) = is_eof P t)
                                              /\ (fst r = true -> t_kind x = KEOF -> is_eof P t = true)).
      { eapply sat_weaken; [exact MK | auto | | tauto]. intros c1 [F _]. exists 0. split; [lia|].
        rewrite (fq_delivered c c1 F). cbn [repeat]. now rewrite app_nil_r. }
      intros [b t1] c1 ((F1 & Hi1 & K1 & E1) & Eof1). cbn [fst snd] in *.
      assert (W1 : W c1) by (eapply fq_W; eauto).
      assert (D1 : delivered c1 = delivered c) by (apply fq_delivered; exact F1).
      assert (U1 : U c1 = U c) by (apply U_fq; exact F1).
      (* continuing with the remaining tests *)
      assert (Next : forall c2, W c2 -> U c2 = U c -> delivered c2 = delivered c ->
                sat (run_tests P stop xs t1 c2)
                    (fun r c' => W c' /\ U c' = U c /\ key (snd r) = key t /\ is_eof P (snd r) = is_eof P t /\
                       delivered c' = delivered c ++ (match fst r with Some _ => [key t] | None => [] end) /\
                       tgt_ok (x :: xs) t (fst r))
                    (fun c' => exists n, n <= 1 /\ delivered c' = delivered c ++ repeat (key t) n) False).
      { intros c2 W2 U2 D2. eapply sat_weaken; [apply (IH t1 c2 W2 Hbxs) | | | auto].
        - intros r c' (A & B & C & D & E & G).
          split; [exact A|]. split; [congruence|]. split; [congruence|]. split; [congruence|].
          split; [rewrite E, D2, K1; reflexivity|].
          destruct (fst r) as [s'|]; cbn [tgt_ok] in *; auto.
          destruct G as (y & Hy & Ty & Ey). exists y. split; [now right|]. split; [exact Ty|].
          intros X. specialize (Ey X). congruence.
        - intros c' (n & Hn & Dn). exists n. split; auto. rewrite Dn, D2, K1. reflexivity. }
      (* the test fires: its productions are executed *)
      assert (Fire : forall c2, W c2 -> U c2 = U c -> delivered c2 = delivered c -> b = true ->
                sat (bind (exec P stop t1 (t_kind x) (t_prods x) c2) (fun _ c3 => Ok (Some (t_tgt x), t1) c3))
                    (fun r c' => W c' /\ U c' = U c /\ key (snd r) = key t /\ is_eof P (snd r) = is_eof P t /\
                       delivered c' = delivered c ++ (match fst r with Some _ => [key t] | None => [] end) /\
                       tgt_ok (x :: xs) t (fst r))
                    (fun c' => exists n, n <= 1 /\ delivered c' = delivered c ++ repeat (key t) n) False).
      { intros c2 W2 U2 D2 Hbt.
        eapply sat_bind with (Q1 := fun _ c3 => fqm c2 c3 /\ delivered c3 = delivered c2 ++ repeat (key t1) (count_pb (t_prods x))).
        - eapply sat_weaken; [apply exec_spec | auto | | auto]. intros c3 (n & Hn & D3). exists n.
          split; [lia|]. rewrite D3, D2, K1. reflexivity.
        - intros _ c3 [F3 D3]. cbn [sat fst snd tgt_ok]. rewrite Hbx in D3. cbn [repeat] in D3.
          split; [eapply fqm_W; eauto|]. split; [rewrite (fqm_U c2 c3 F3); exact U2|].
          split; [exact K1|]. split; [exact E1|]. split; [rewrite D3, D2, K1; reflexivity|].
          exists x. split; [now left|]. split; [reflexivity|]. intros Ek. apply Eof1; auto. }
      destruct b.
      + destruct (t_guard x) as [h|].
        * eapply sat_bind with (Q1 := fun _ c2 => W c2 /\ U c2 = U c1 /\ log c2 = log c1).
          { eapply sat_weaken; [apply (lookahead_spec stop h c1 W1) | auto | | auto].
            intros c2 L2. exists 0. split; [lia|]. rewrite (delivered_log c1 c2 L2), D1. cbn [repeat]. now rewrite app_nil_r. }
          intros g c2 (W2 & U2 & L2).
          assert (D2 : delivered c2 = delivered c) by (rewrite (delivered_log c1 c2 L2); exact D1).
          destruct g; [apply Fire; auto; congruence | apply Next; auto; congruence].
        * apply Fire; auto.
      + apply Next; auto.
  Qed.

  (* ---- the table ---- *)
  Hypothesis builds_once : forall x y, In x (table P) -> In y (s_tests x) -> count_pb (t_prods y) = 1.
  Hypothesis Htotal : forall x y, In x (table P) -> In y (s_tests x) ->
    (find_state P (t_tgt y) = None <-> t_kind y = KEOF).
  Hypothesis Herr_known : forall x, In x (table P) -> find_state P (s_err x) <> None.

  Lemma find_state_in s x : find_state P s = Some x -> In x (table P).
  Proof. unfold find_state. intros H. apply find_some in H. tauto. Qed.

  Lemma match_token_spec stop s t c : W c -> find_state P s <> None ->
    sat (match_token P stop s t c)
        (fun s' c' => W c' /\ U c' = U c /\ delivered c' = delivered c ++ [key t]
                      /\ (is_eof P t = false -> find_state P s' <> None))
        (fun c' => exists n, n <= 1 /\ delivered c' = delivered c ++ repeat (key t) n)
        False.
  Proof.
    intros Hw Hs. unfold match_token. destruct (find_state P s) as [x|] eqn:Fs; [|congruence].
    pose proof (find_state_in s x Fs) as Hx.
    eapply sat_bind; [apply (run_tests_spec stop (s_tests x) t c Hw (fun y Hy => builds_once x y Hx Hy))|].
    intros [o t'] c1 (W1 & U1 & K1 & E1 & D1 & T1). cbn [fst snd] in *.
    destruct o as [s'|]; cbn [sat].
    - split; [exact W1|]. split; [exact U1|]. split; [exact D1|].
      intros Et. destruct T1 as (y & Hy & <- & Ey).
      intros Fn. apply (Htotal x y Hx Hy) in Fn. specialize (Ey Fn). congruence.
    - rewrite app_nil_r in D1.
      assert (D2 : delivered (emit (EvX t' s) c1) = delivered c ++ [key t]).
      { unfold delivered, events in *. cbn [log emit rev]. rewrite flat_map_app, D1. cbn [flat_map]. now rewrite app_nil_r, K1. }
      destruct stop; cbn [sat].
      + exists 1. split; [lia|]. exact D2.
      + pose proof (add_error_fq (mk_unexpected P t' (s_expected x)) (emit (EvX t' s) c1)) as A.
        destruct (add_error P _ (emit (EvX t' s) c1)) as [[] c3| | | |]; cbn [bind sat] in *; try tauto.
        * destruct A as [F3 M3].
          split; [eapply fq_W; [exact F3 | rewrite M3; apply W1 | ]|].
          { destruct W1 as (Hq & Hr & Hi). split; [exact Hq | split; [exact Hr | exact Hi]]. }
          split; [rewrite (U_fq _ _ F3); exact U1|].
          split; [rewrite (fq_delivered _ _ F3); exact D2|].
          intros _. apply Herr_known. exact Hx.
        * exists 1. split; [lia|]. destruct A as [F3 _]. rewrite (fq_delivered _ _ F3). exact D2.
        * exists 1. split; [lia|]. destruct A as [F3 _]. rewrite (fq_delivered _ _ F3). exact D2.
        * exists 1. split; [lia|]. destruct A as [F3 _]. rewrite (fq_delivered _ _ F3). exact D2.
  Qed.

  Definition prefix_of (pre l : list K) : Prop := exists suf, l = pre ++ suf.

  Lemma U_nonempty c : U c <> [].
  Proof.
    unfold U, stream. destruct (queue c ++ rest c ++ [eofs c]) as [|t l] eqn:E.
    - destruct (queue c); destruct (rest c); discriminate.
    - simpl. destruct (is_eof P t); discriminate.
  Qed.

  Lemma loop_spec stop : forall fuel s c, W c -> find_state P s <> None -> length (U c) <= fuel ->
    sat (loop P fuel stop s c)
        (fun _ c' => delivered c' = delivered c ++ U c)
        (fun c' => exists pre, prefix_of pre (U c) /\ delivered c' = delivered c ++ pre)
        False.
  Proof.
    induction fuel as [|f IH]; intros s c Hw Hs Hf.
    - exfalso. pose proof (U_nonempty c). destruct (U c); [congruence | simpl in Hf; lia].
    - cbn [loop]. destruct (read P c) as [t c1] eqn:R.
      destruct Hw as (Hq & Hr & Hi).
      destruct (read_spec c t c1 R Hq Hr) as (Lg & Ms & _ & _ & Hq1 & Hr1 & HU & _).
      assert (W1 : W c1) by (split; [exact Hq1 | split; [exact Hr1 | rewrite Ms; exact Hi]]).
      assert (D1 : delivered c1 = delivered c) by (apply delivered_log; exact Lg).
      eapply sat_bind with (Q1 := fun s' c2 => W c2 /\ U c2 = U c1 /\ delivered c2 = delivered c ++ [key t]
                                             /\ (is_eof P t = false -> find_state P s' <> None)).
      + eapply sat_weaken; [apply (match_token_spec stop s t c1 W1 Hs) | | | auto].
        * intros s' c2 (A & B & C & D). rewrite D1 in C. auto.
        * intros c2 (n & Hn & Dn). exists (repeat (key t) n). split; [|rewrite Dn, D1; reflexivity].
          rewrite HU. destruct n as [|[|n]]; [exists (key t :: (if is_eof P t then [] else U c1)); reflexivity | | lia].
          exists (if is_eof P t then [] else U c1). reflexivity.
      + intros s' c2 (W2 & U2 & D2 & Kn).
        destruct (is_eof P t) eqn:Et; cbn [sat].
        * rewrite D2, HU. reflexivity.
        * eapply sat_weaken; [apply (IH s' c2 W2 (Kn eq_refl)) | | | auto].
          -- rewrite U2. rewrite HU in Hf. simpl in Hf. lia.
          -- intros s3 c3 D3. rewrite D3, D2, U2, HU, <- app_assoc. reflexivity.
          -- intros c3 (pre & [suf Hp] & D3). exists (key t :: pre). split.
             ++ exists suf. rewrite HU, <- U2, Hp. reflexivity.
             ++ rewrite D3, D2, <- app_assoc. reflexivity.
  Qed.

  (* ---- a composite exception raised before the end of parse comes from the error cap ---- *)
  Definition capped {A} (r : res A) : Prop :=
    match r with RaiseC es _ => error_cap P < length es | _ => True end.
  Lemma capped_bind {A B} (r : res A) (f : A -> ctx -> res B) :
    capped r -> (forall a c, capped (f a c)) -> capped (bind r f).
  Proof. destruct r; simpl; auto. Qed.
  Lemma add_error_capped e c : capped (add_error P e c).
  Proof.
    unfold add_error. destruct (existsb _ _); simpl; auto.
    destruct (_ <? _) eqn:E; simpl; auto. apply Nat.ltb_lt in E. exact E.
  Qed.
  Lemma match_k_capped stop k t c : capped (match_k P stop k t c).
  Proof.
    unfold match_k. destruct (_ && _); simpl; auto. destruct (matchf P k (ms c) t); simpl; auto.
    destruct stop; simpl; auto. apply capped_bind; [apply add_error_capped|]. intros; simpl; auto.
  Qed.
  Lemma any_match_capped stop ks : forall t c, capped (any_match P stop ks t c).
  Proof.
    induction ks as [|k ks IH]; intros t c; simpl; auto.
    apply capped_bind; [apply match_k_capped|]. intros [b t'] c'. simpl. destruct b; simpl; auto.
  Qed.
  Lemma la_loop_capped stop h : forall fuel c acc, capped (la_loop P fuel stop h c acc).
  Proof.
    induction fuel as [|f IH]; intros c acc; simpl; auto. destruct (read P c) as [t c1].
    apply capped_bind; [apply any_match_capped|]. intros [b t'] c2. simpl. destruct b; simpl; auto.
    apply capped_bind; [apply any_match_capped|]. intros [b' t''] c3. simpl. destruct b'; simpl; auto.
  Qed.
  Lemma lookahead_capped stop h c : capped (lookahead P stop h c).
  Proof.
    unfold lookahead. destruct (find_la P h); [|exact Logic.I].
    apply capped_bind; [apply la_loop_capped|]. intros; exact Logic.I.
  Qed.
  Lemma b_call_capped stop f c : capped (b_call P stop f c).
  Proof. unfold b_call. destruct (f (bs c)); simpl; auto. destruct stop; simpl; auto. apply add_error_capped. Qed.
  Lemma exec_capped stop t k : forall ps c, capped (exec P stop t k ps c).
  Proof.
    induction ps as [|p ps IH]; intros c; simpl; auto.
    apply capped_bind; [destruct p; apply b_call_capped | intros; apply IH].
  Qed.
  Lemma run_tests_capped stop : forall tests t c, capped (run_tests P stop tests t c).
  Proof.
    induction tests as [|x xs IH]; intros t c; simpl; auto.
    apply capped_bind; [apply match_k_capped|]. intros [b t1] c1. simpl. destruct b; auto.
    destruct (t_guard x).
    - apply capped_bind; [apply lookahead_capped|]. intros g c2. destruct g; auto.
      apply capped_bind; [apply exec_capped|]. intros; simpl; auto.
    - apply capped_bind; [apply exec_capped|]. intros; simpl; auto.
  Qed.
  Lemma match_token_capped stop s t c : capped (match_token P stop s t c).
  Proof.
    unfold match_token. destruct (find_state P s); simpl; auto.
    apply capped_bind; [apply run_tests_capped|]. intros [o t'] c1. simpl. destruct o; simpl; auto.
    destruct stop; simpl; auto. apply capped_bind; [apply add_error_capped|]. intros; simpl; auto.
  Qed.
  Lemma loop_capped stop : forall fuel s c, capped (loop P fuel stop s c).
  Proof.
    induction fuel as [|f IH]; intros s c; simpl; auto. destruct (read P c) as [t c1].
    apply capped_bind; [apply match_token_capped|]. intros s' c2. destruct (is_eof P t); simpl; auto.
  Qed.

  (* ---- the theorem ---- *)
  Lemma upto_app_noeof l r : Forall (fun t => is_eof P t = false) l -> upto (l ++ r) = l ++ upto r.
  Proof. induction 1 as [|t l Ht Hl IH]; simpl; auto. rewrite Ht, IH. reflexivity. Qed.

  Definition all_keys (toks : list Tok) : list K := map key toks ++ [key (mk_eof P (S (length toks)))].

  Lemma prefix_refl l : prefix_of l l.
  Proof. exists []. now rewrite app_nil_r. Qed.
  Lemma prefix_nil l : prefix_of [] l.
  Proof. exists l. reflexivity. Qed.

  Theorem delivery stop toks m b :
    Forall (fun t => is_eof P t = false) toks -> I m -> find_state P (start_state P) <> None ->
    match parse P stop toks m b with
    | Ok _ c => delivered c = all_keys toks
    | RaiseC es c => prefix_of (delivered c) (all_keys toks)
                     /\ (length es <= error_cap P -> delivered c = all_keys toks)
    | Raise1 _ c | Crash c => prefix_of (delivered c) (all_keys toks)
    | OutOfFuel => False
    end.
  Proof.
    intros Hne Him Hst. unfold parse.
    set (c0 := emit (EvS RGherkinDocument) (init_ctx toks m b)).
    assert (W0 : W c0) by (repeat split; [constructor | intros ? [] | exact Hne | exact Him]).
    assert (D0 : delivered c0 = []) by reflexivity.
    assert (U0 : U c0 = all_keys toks).
    { unfold U, stream, eofs, c0, all_keys. cbn [queue rest lineno emit init_ctx app].
      rewrite upto_app_noeof by exact Hne. cbn [upto]. rewrite Hmkeof, map_app. reflexivity. }
    pose proof (b_call_fqm stop (b_start P RGherkinDocument) c0) as B1.
    pose proof (b_call_fr P c0 stop (b_start P RGherkinDocument) c0 (fr_refl c0)) as B1'.
    pose proof (b_call_capped stop (b_start P RGherkinDocument) c0) as B1c.
    destruct (b_call P stop (b_start P RGherkinDocument) c0) as [[] c1|e c1|es c1|c1|]; cbn [bind sat capped] in *;
      try (rewrite (delivered_log c0 _ (proj1 B1')), D0; try split; try apply prefix_nil; intros; lia); [|contradiction].
    assert (W1 : W c1) by (eapply fqm_W; eauto).
    assert (D1 : delivered c1 = []) by (rewrite (delivered_log c0 c1 (proj1 B1')); exact D0).
    assert (U1 : U c1 = all_keys toks) by (rewrite (fqm_U c0 c1 B1); exact U0).
    pose proof (loop_spec stop (S (S (length toks))) (start_state P) c1 W1 Hst) as L.
    pose proof (loop_capped stop (S (S (length toks))) (start_state P) c1) as Lc.
    assert (Len : length (U c1) <= S (S (length toks))).
    { rewrite U1. unfold all_keys. rewrite app_length, map_length. simpl. lia. }
    specialize (L Len). rewrite D1, U1 in L. cbn [app] in L.
    destruct (loop P (S (S (length toks))) stop (start_state P) c1) as [s' c2|e c2|es c2|c2|]; cbn [bind sat capped] in *;
      [| destruct L as (pre & Hp & ->); exact Hp
       | destruct L as (pre & Hp & ->); split; [exact Hp | intros; lia]
       | destruct L as (pre & Hp & ->); exact Hp
       | contradiction].
    set (c2' := emit (EvE RGherkinDocument) c2).
    assert (D2 : delivered c2' = all_keys toks).
    { unfold delivered, events, c2' in *. cbn [log emit rev]. rewrite flat_map_app, L. cbn [flat_map]. now rewrite app_nil_r. }
    pose proof (b_call_fr P c2' stop (b_end P RGherkinDocument) c2' (fr_refl c2')) as B3.
    pose proof (b_call_fqm stop (b_end P RGherkinDocument) c2') as B3f.
    destruct (b_call P stop (b_end P RGherkinDocument) c2') as [[] c3|e c3|es c3|c3|]; cbn [bind sat] in *;
      try (rewrite (delivered_log c2' _ (proj1 B3)), D2; try split; try apply prefix_refl; auto); [|contradiction].
    destruct (errs c3); rewrite (delivered_log c2' _ (proj1 B3)), D2; [reflexivity|].
    split; [apply prefix_refl | auto].
  Qed.
End Delivery.
