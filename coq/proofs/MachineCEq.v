(* Parser.parse with stop_at_first_error = False computes the error-collecting queue-free machine of MachineC.v.
   Generic interpreter, under the hypotheses of the delivery theorem (Delivery.v): tokens pushed back by a look-ahead
   are skippable by every later look-ahead, so the queue always is a prefix of the pending input in its original order. *)
From Coq Require Import List Bool Arith Lia.
Import ListNotations.
Require Import Kinds Automaton AutoFacts Delivery MachineC.

Section MachineCEq.
  Context {Tok MS BS Err : Type}.
  Variable P : params Tok MS BS Err.
  Notation ctx := (ctx Tok MS BS Err).
  Notation res := (res Tok MS BS Err).
  Notation cr := (@MachineC.cr MS Err).
  Notation co := (@MachineC.co MS BS Err).

  Variable K : Type.
  Variable key : Tok -> K.
  Variable sk : Tok -> Prop.
  Variable I : MS -> Prop.
  Hypothesis Hkey : forall k m t, key (mtok (matchf P k m t)) = key t.
  Hypothesis Heof : forall k m t, is_eof P (mtok (matchf P k m t)) = is_eof P t.
  Hypothesis Hmkeof : forall n, is_eof P (mk_eof P n) = true.
  Hypothesis HI : forall k m t, I m -> I (mst (matchf P k m t)).
  Hypothesis sk_not_eof : forall t, sk t -> is_eof P t = false.
  Hypothesis S1 : forall h k m t t' m', In h (lookaheads P) -> In k (la_skip h) -> I m ->
    matchf P k m t = MR true t' m' -> sk t'.
  Hypothesis S2 : forall h m t, In h (lookaheads P) -> I m -> sk t ->
    (forall k, In k (la_expected h) -> matchf P k m t = MR false t m)
    /\ exists ks1 k ks2, la_skip h = ks1 ++ k :: ks2
         /\ (forall k1, In k1 ks1 -> matchf P k1 m t = MR false t m)
         /\ exists t' m', matchf P k m t = MR true t' m' /\ sk t'.
  Hypothesis la_no_eof : forall h, In h (lookaheads P) -> ~ In KEOF (la_expected h) /\ ~ In KEOF (la_skip h).

  Notation W := (W P sk I).
  Notation qwf := (qwf P sk).
  Notation rest_ok := (rest_ok P).
  Notation upto := (upto P).
  Notation eofs := (eofs P).

  (* the pending tokens *)
  Definition T (c : ctx) : list Tok := upto (stream P c).

  Lemma read_T c t c1 : read P c = (t, c1) -> qwf c -> rest_ok c ->
    T c = t :: (if is_eof P t then [] else T c1).
  Proof.
    unfold read, T, stream, Delivery.eofs, Delivery.rest_ok. intros H [Hq Hqe] Hr.
    destruct (queue c) as [|q qs] eqn:Q.
    - destruct (rest c) as [|r rs] eqn:R; inversion H; subst; clear H; cbn [queue rest lineno app length Delivery.upto].
      + rewrite Nat.add_0_r, Hmkeof. reflexivity.
      + inversion Hr as [|? ? Hr1 Hr2]; subst. rewrite Hr1.
        replace (S (lineno c + S (length rs))) with (S (S (lineno c) + length rs)) by lia. reflexivity.
    - inversion H; subst; clear H. cbn [queue rest lineno app length Delivery.upto set_queue]. destruct (is_eof P t); reflexivity.
  Qed.

  Lemma T_same c c' : queue c' = queue c -> rest c' = rest c -> lineno c' = lineno c -> T c' = T c.
  Proof. intros A B C. unfold T, stream, Delivery.eofs. now rewrite A, B, C. Qed.

  Lemma upto_cons t l : upto (t :: l) = t :: (if is_eof P t then [] else upto l).
  Proof. cbn [Delivery.upto]. destruct (is_eof P t); reflexivity. Qed.
  Lemma W_frame c c' : queue c' = queue c -> rest c' = rest c -> I (ms c') -> W c -> W c'.
  Proof. intros Q R Hi (A & B & _). unfold Delivery.W, Delivery.qwf, Delivery.rest_ok in *. rewrite Q, R. auto. Qed.

  (* same queue, scanner and builder state *)
  Definition fr3 (c c' : ctx) : Prop := queue c' = queue c /\ rest c' = rest c /\ lineno c' = lineno c /\ bs c' = bs c.
  Lemma fr3_refl c : fr3 c c. Proof. repeat split. Qed.
  Lemma fr3_trans a b c : fr3 a b -> fr3 b c -> fr3 a c.
  Proof. intros (A1 & A2 & A3 & A4) (B1 & B2 & B3 & B4). repeat split; congruence. Qed.

  (* ---- add_error ---- *)
  Lemma add_error_C e c :
    match add_error P e c, c_add P (errs c) e with
    | Ok _ c', inl es' => errs c' = es' /\ ms c' = ms c /\ fr3 c c' /\ log c' = log c
    | RaiseC es c', inr es' => es = es' /\ errs c' = es' /\ ms c' = ms c /\ fr3 c c'
    | _, _ => False
    end.
  Proof.
    unfold add_error, c_add. destruct (existsb _ _); [repeat split|]. cbn [errs set_errs].
    destruct (_ <? _); cbn [errs set_errs ms]; repeat split.
  Qed.

  Definition cm {A} (c : ctx) (r : res A) (o : cr (A * MS)) : Prop :=
    match r, o with
    | Ok a c', CrOk (a', m') es' => a = a' /\ ms c' = m' /\ errs c' = es' /\ fr3 c c'
    | RaiseC es c', CrCap es' m' => es = es' /\ errs c' = es' /\ ms c' = m' /\ fr3 c c'
    | _, _ => False
    end.
  Definition pack (x : bool * Tok * MS) : (bool * Tok) * MS := (fst x, snd x).
  Definition crmap {A B} (f : A -> B) (o : cr A) : cr B :=
    match o with CrOk a es => CrOk (f a) es | CrCap es m => CrCap es m | CrCrash => CrCrash end.

  Lemma match_k_C k t c : cm c (match_k P false k t c) (crmap pack (c_match P k t (ms c) (errs c))).
  Proof.
    unfold match_k, c_match. destruct (_ && _); cbn [crmap pack cm fst snd]; [repeat split|].
    cbn [ms bump]. destruct (matchf P k (ms c) t) as [b t' m'|e t' m']; cbn [crmap pack cm fst snd]; [repeat split|].
    pose proof (add_error_C e (set_ms m' (bump c))) as A. cbn [errs set_ms bump] in A.
    destruct (add_error P e (set_ms m' (bump c))) as [[] c2|e2 c2|es2 c2|c2|], (c_add P (errs c) e) as [es'|es']; try contradiction;
      cbn [bind crmap pack cm fst snd].
    - destruct A as (E & M & (F1 & F2 & F3 & F4) & _). cbn [ms queue rest lineno bs set_ms bump] in *. repeat split; assumption.
    - destruct A as (E1 & E2 & M & (F1 & F2 & F3 & F4)). cbn [ms queue rest lineno bs set_ms bump] in *. repeat split; assumption.
  Qed.

  Lemma any_match_C ks : forall t c, cm c (any_match P false ks t c) (crmap pack (c_any P ks t (ms c) (errs c))).
  Proof.
    induction ks as [|k ks IH]; intros t c; cbn [any_match c_any]; [cbn; repeat split|].
    pose proof (match_k_C k t c) as M.
    destruct (match_k P false k t c) as [[b t1] c1|e c1|es c1|c1|]; destruct (c_match P k t (ms c) (errs c)) as [[[b' t1'] m1'] es1'|es1' m1'|];
      cbn [crmap pack cm fst snd bind] in *; try contradiction.
    - destruct M as (E & Em & Ee & F). inversion E; subst. destruct b'; [cbn [crmap pack cm fst snd]; auto|].
      pose proof (IH t1' c1) as R. destruct (any_match P false ks t1' c1) as [[b2 t2] c2|e2 c2|es2 c2|c2|];
        destruct (c_any P ks t1' (ms c1) (errs c1)) as [[[b2' t2'] m2'] es2'|es2' m2'|]; cbn [crmap pack cm fst snd] in *; try contradiction.
      + destruct R as (E2 & Em2 & Ee2 & F2). split; [exact E2|]. split; [exact Em2|]. split; [exact Ee2 | exact (fr3_trans _ _ _ F F2)].
      + destruct R as (E2 & Ee2 & Em2 & F2). split; [exact E2|]. split; [exact Ee2|]. split; [exact Em2 | exact (fr3_trans _ _ _ F F2)].
    - exact M.
  Qed.

  (* ---- facts about c_any ---- *)
  Lemma c_match_eof k t m es b t1 m1 es1 : c_match P k t m es = CrOk (b, t1, m1) es1 -> is_eof P t1 = is_eof P t.
  Proof.
    unfold c_match. destruct (_ && _); [intros H; now inversion H|]. pose proof (Heof k m t) as E.
    destruct (matchf P k m t) as [b' t' m'|e t' m']; [intros H; inversion H; subst; exact E|].
    destruct (c_add P es e); [|discriminate]. intros H. inversion H; subst. exact E.
  Qed.
  Lemma c_any_eof ks : forall t m es b t1 m1 es1, c_any P ks t m es = CrOk (b, t1, m1) es1 -> is_eof P t1 = is_eof P t.
  Proof.
    induction ks as [|k ks IH]; intros t m es b t1 m1 es1; cbn [c_any]; [intros H; now inversion H|].
    destruct (c_match P k t m es) as [[[b' t'] m'] es'|es' m'|] eqn:M; try discriminate.
    pose proof (c_match_eof _ _ _ _ _ _ _ _ M) as E. destruct b'; [intros H; inversion H; subst; exact E|].
    intros H. rewrite (IH _ _ _ _ _ _ _ H). exact E.
  Qed.
  Lemma c_match_I k t m es b t1 m1 es1 : I m -> c_match P k t m es = CrOk (b, t1, m1) es1 -> I m1.
  Proof.
    intros Hi. unfold c_match. destruct (_ && _); [intros H; inversion H; subst; exact Hi|]. pose proof (HI k m t Hi) as E.
    destruct (matchf P k m t) as [b' t' m'|e t' m']; [intros H; inversion H; subst; exact E|].
    destruct (c_add P es e); [|discriminate]. intros H. inversion H; subst. exact E.
  Qed.
  Lemma c_any_I ks : forall t m es b t1 m1 es1, I m -> c_any P ks t m es = CrOk (b, t1, m1) es1 -> I m1.
  Proof.
    induction ks as [|k ks IH]; intros t m es b t1 m1 es1 Hi; cbn [c_any]; [intros H; inversion H; subst; exact Hi|].
    destruct (c_match P k t m es) as [[[b' t'] m'] es'|es' m'|] eqn:M; try discriminate.
    pose proof (c_match_I _ _ _ _ _ _ _ _ Hi M) as E. destruct b'; [intros H; inversion H; subst; exact E|]. apply IH. exact E.
  Qed.
  Lemma c_any_at_eof ks : ~ In KEOF ks -> forall t m es, is_eof P t = true -> c_any P ks t m es = CrOk (false, t, m) es.
  Proof.
    induction ks as [|k ks IH]; intros N t m es E; cbn [c_any]; [reflexivity|].
    unfold c_match. assert (Nk : kind_beq k KEOF = false).
    { destruct (kind_beq k KEOF) eqn:B; [|reflexivity]. apply kind_beq_eq in B. subst k. exfalso. apply N. now left. }
    rewrite Nk, E. cbn [negb andb]. apply IH; [|exact E]. intros X. apply N. now right.
  Qed.

  (* ---- the look-ahead ---- *)
  Definition la_rel (c : ctx) (acc : list Tok) (r : res (bool * list Tok)) (o : cr (bool * MS * list Tok)) : Prop :=
    match r, o with
    | Ok (b, acc') c1, CrOk (b', m', ups') es' =>
      b = b' /\ ms c1 = m' /\ errs c1 = es' /\ bs c1 = bs c /\
      exists toks, acc' = acc ++ toks /\ queue c1 = [] /\ ups' = upto (toks ++ rest c1 ++ [eofs c1])
    | RaiseC es c1, CrCap es' m' => es = es' /\ errs c1 = es' /\ ms c1 = m' /\ bs c1 = bs c
    | _, _ => False
    end.

  Lemma la_loop_C h : In h (lookaheads P) -> forall fuel c acc, W c -> sz c < fuel ->
    la_rel c acc (la_loop P fuel false h c acc) (c_la_loop P h (T c) (ms c) (errs c)).
  Proof.
    intros Hh. destruct (la_no_eof h Hh) as [Ne Ns].
    induction fuel as [|f IH]; intros c acc Hw Hf; [lia|].
    pose proof (la_loop_spec P K key sk I Hkey Heof Hmkeof HI sk_not_eof S1 S2 la_no_eof false h Hh (S f) c acc Hw Hf) as D.
    destruct Hw as (Hq & Hr & Hi). cbn [la_loop] in D |- *.
    destruct (read P c) as [t c0] eqn:R.
    destruct (read_spec P K key sk Hmkeof c t c0 R Hq Hr) as (_ & M0 & B0 & E0 & Hq0 & Hr0 & _ & Hsz & _ & _ & Hre).
    rewrite (read_T c t c0 R Hq Hr). cbn [c_la_loop]. rewrite <- M0, <- E0.
    pose proof (any_match_C (la_expected h) t c0) as M1.
    destruct (any_match P false (la_expected h) t c0) as [[b1 t1] c2|e1 c2|es1 c2|c2|];
      destruct (c_any P (la_expected h) t (ms c0) (errs c0)) as [[[b1' t1'] m1'] es1'|es1' m1'|] eqn:A1; cbn [crmap pack cm fst snd bind sat] in *; try contradiction.
    - destruct M1 as (E1 & Em1 & Ee1 & (Fq & Fr & Fl & Fb)). inversion E1; subst b1' t1'. clear E1.
      pose proof (c_any_eof _ _ _ _ _ _ _ _ A1) as Et1. pose proof (c_any_I _ _ _ _ _ _ _ _ (eq_ind_r I Hi M0) A1) as Hi1.
      destruct b1; cbn [fst snd bind sat la_rel] in *.
      + destruct D as (_ & Q2 & _). split; [reflexivity|]. split; [exact Em1|]. split; [exact Ee1|]. split; [congruence|].
        exists [t1]. split; [reflexivity|]. split; [exact Q2|]. cbn [app]. rewrite upto_cons, Et1. destruct (is_eof P t) eqn:Et; [reflexivity|].
        f_equal. unfold T, stream, Delivery.eofs. replace (queue c0) with (@nil Tok) by congruence.
        replace (rest c2) with (rest c0) by congruence. replace (lineno c2) with (lineno c0) by congruence. reflexivity.
      + pose proof (any_match_C (la_skip h) t1 c2) as M2. rewrite Em1, Ee1 in M2.
        destruct (any_match P false (la_skip h) t1 c2) as [[b2 t2] c3|e2 c3|es2 c3|c3|];
          destruct (c_any P (la_skip h) t1 m1' es1') as [[[b2' t2'] m2'] es2'|es2' m2'|] eqn:A2;
          cbn [crmap pack cm fst snd bind sat] in *; try contradiction.
        * destruct M2 as (E2 & Em2 & Ee2 & (Gq & Gr & Gl & Gb)). inversion E2; subst b2' t2'. clear E2.
          pose proof (c_any_eof _ _ _ _ _ _ _ _ A2) as Et2. pose proof (c_any_I _ _ _ _ _ _ _ _ Hi1 A2) as Hi2.
          destruct b2; cbn [fst snd bind sat la_rel] in *.
          -- assert (Et : is_eof P t = false).
             { destruct (is_eof P t) eqn:Et; [|reflexivity]. rewrite (c_any_at_eof _ Ns t1 m1' es1') in A2 by congruence. discriminate A2. }
             rewrite Et in *.
             assert (Hw3 : W c3) by (split; [unfold Delivery.qwf in *; rewrite Gq, Gr, Fq, Fr; exact Hq0 | split; [unfold Delivery.rest_ok in *; rewrite Gr, Fr; exact Hr0 | rewrite Em2; exact Hi2]]).
             assert (Hs3 : sz c3 < f) by (specialize (Hsz eq_refl); unfold sz in *; rewrite Gq, Gr, Fq, Fr; lia).
             pose proof (IH c3 (acc ++ [t2]) Hw3 Hs3) as R3.
             assert (T3 : T c3 = T c0) by (apply T_same; congruence). rewrite T3, Em2, Ee2 in R3.
             destruct (la_loop P f false h c3 (acc ++ [t2])) as [[b acc'] c1|e c1|es c1|c1|];
               destruct (c_la_loop P h (T c0) m2' es2') as [[[b' m'] ups'] es'|es' m'|]; cbn [la_rel] in *; try contradiction.
             ++ destruct R3 as (Eb & Em & Ee & Ebs & toks & Ea & Q1 & Eu). split; [exact Eb|]. split; [exact Em|]. split; [exact Ee|]. split; [congruence|].
                exists (t2 :: toks). split; [rewrite Ea, <- app_assoc; reflexivity|]. split; [exact Q1|].
                cbn [app]. rewrite upto_cons, Et2, Et1, Eu. reflexivity.
             ++ destruct R3 as (A & B & C & D0). repeat split; congruence.
          -- destruct D as (_ & Q3 & _). split; [reflexivity|]. split; [exact Em2|]. split; [exact Ee2|]. split; [congruence|].
             exists [t2]. split; [reflexivity|]. split; [exact Q3|]. cbn [app]. rewrite upto_cons, Et2, Et1. destruct (is_eof P t) eqn:Et; [reflexivity|].
             f_equal. unfold T, stream, Delivery.eofs. replace (queue c0) with (@nil Tok) by congruence.
             replace (rest c3) with (rest c0) by congruence. replace (lineno c3) with (lineno c0) by congruence. reflexivity.
        * destruct M2 as (A & B & C & (Gq & Gr & Gl & Gb)). repeat split; congruence.
    - destruct M1 as (A & B & C & (Fq & Fr & Fl & Fb)). repeat split; congruence.
  Qed.

  Definition lk_rel (c : ctx) (r : res bool) (o : cr (bool * MS * list Tok)) : Prop :=
    match r, o with
    | Ok b c2, CrOk (b', m', ups') es' => b = b' /\ ms c2 = m' /\ errs c2 = es' /\ bs c2 = bs c /\ T c2 = ups' /\ W c2
    | RaiseC es c2, CrCap es' m' => es = es' /\ errs c2 = es' /\ ms c2 = m' /\ bs c2 = bs c
    | Crash c2, CrCrash => True
    | _, _ => False
    end.

  Lemma lookahead_C h c : W c -> lk_rel c (lookahead P false h c) (c_la P h (T c) (ms c) (errs c)).
  Proof.
    intros Hw. pose proof (lookahead_spec P K key sk I Hkey Heof Hmkeof HI sk_not_eof S1 S2 la_no_eof false h c Hw) as D.
    unfold lookahead, c_la in *. destruct (find_la P h) as [x|] eqn:Fl; [|exact Logic.I].
    assert (Hx : In x (lookaheads P)) by (unfold find_la in Fl; apply find_some in Fl; tauto).
    pose proof (la_loop_C x Hx (S (length (queue c) + length (rest c))) c [] Hw ltac:(unfold sz; lia)) as R.
    destruct (la_loop P _ false x c []) as [[b acc'] c1|e c1|es c1|c1|];
      destruct (c_la_loop P x (T c) (ms c) (errs c)) as [[[b' m'] ups'] es'|es' m'|]; cbn [la_rel lk_rel bind sat fst snd] in *; try contradiction.
    - destruct R as (Eb & Em & Ee & Ebs & toks & Ea & Q1 & Eu). destruct D as (W2 & _).
      split; [exact Eb|]. split; [exact Em|]. split; [exact Ee|]. split; [exact Ebs|]. split; [|exact W2].
      unfold T, stream, Delivery.eofs. cbn [queue rest lineno set_queue]. rewrite Q1, Ea, Eu. reflexivity.
    - exact R.
  Qed.

  (* ---- builder calls ---- *)
  Definition ex_rel (c : ctx) (r : res unit) (o : co unit) : Prop :=
    match r, o with
    | Ok _ c', CoOk _ m' b' es' => ms c' = m' /\ bs c' = b' /\ errs c' = es' /\ queue c' = queue c /\ rest c' = rest c /\ lineno c' = lineno c /\ ms c' = ms c
    | RaiseC es c', CoCap es' m' b' => es = es' /\ errs c' = es' /\ ms c' = m' /\ bs c' = b'
    | Crash _, CoCrash => True
    | _, _ => False
    end.

  Lemma b_call_C f c :
    match b_call P false f c, f (bs c) with
    | Ok _ c', BOk b' => c' = set_bs b' c
    | Ok _ c', BRaise e b' => exists es', c_add P (errs c) e = inl es' /\ errs c' = es' /\ ms c' = ms c /\ bs c' = b' /\ queue c' = queue c /\ rest c' = rest c /\ lineno c' = lineno c
    | RaiseC es c', BRaise e b' => c_add P (errs c) e = inr es /\ errs c' = es /\ ms c' = ms c /\ bs c' = b'
    | Crash c', BCrash => True
    | _, _ => False
    end.
  Proof.
    unfold b_call. destruct (f (bs c)) as [b'|e b'|]; [reflexivity | | exact Logic.I].
    pose proof (add_error_C e (set_bs b' c)) as A. cbn [errs set_bs] in A.
    destruct (add_error P e (set_bs b' c)) as [[] c2|e2 c2|es2 c2|c2|], (c_add P (errs c) e) as [es'|es']; try contradiction.
    - destruct A as (E & M & (F1 & F2 & F3 & F4) & _). cbn [ms queue rest lineno bs set_bs] in *. exists es'. repeat split; assumption.
    - destruct A as (E1 & E2 & M & (F1 & F2 & F3 & F4)). cbn [ms queue rest lineno bs set_bs] in *. subst. repeat split; assumption.
  Qed.

  Lemma exec_C t k : forall ps c, ex_rel c (exec P false t k ps c) (c_exec P t ps (ms c) (bs c) (errs c)).
  Proof.
    induction ps as [|p ps IH]; intros c; cbn [exec c_exec ex_rel]; [repeat split|].
    assert (G : forall f ev0, ex_rel c (bind (b_call P false f (emit ev0 c)) (fun _ c' => exec P false t k ps c'))
                       (match f (bs c) with
                        | BOk b' => c_exec P t ps (ms c) b' (errs c)
                        | BRaise e b' => match c_add P (errs c) e with inl es' => c_exec P t ps (ms c) b' es' | inr es' => CoCap es' (ms c) b' end
                        | BCrash => CoCrash end)).
    { intros f ev0. pose proof (b_call_C f (emit ev0 c)) as B. cbn [bs errs ms queue rest lineno emit] in B.
      destruct (b_call P false f (emit ev0 c)) as [[] c1|e1 c1|es1 c1|c1|], (f (bs c)) as [b'|e b'|]; try contradiction; cbn [bind ex_rel].
      - subst c1. pose proof (IH (set_bs b' (emit ev0 c))) as R. cbn [ms bs errs set_bs emit] in R.
        destruct (exec P false t k ps (set_bs b' (emit ev0 c))) as [[] c'|e c'|es c'|c'|]; destruct (c_exec P t ps (ms c) b' (errs c)) as [[] m' b2 es2|es2 m' b2|];
          cbn [ex_rel] in *; try contradiction; auto.
      - destruct B as (es' & Ea & Ee & Em & Eb & Fq & Fr & Fl). rewrite Ea. pose proof (IH c1) as R. rewrite Em, Eb, Ee in R.
        destruct (exec P false t k ps c1) as [[] c'|e2 c'|es c'|c'|]; destruct (c_exec P t ps (ms c) b' es') as [[] m' b2 es2|es2 m' b2|];
          cbn [ex_rel] in *; try contradiction; auto.
        destruct R as (A1 & A2 & A3 & A4 & A5 & A6 & A7). repeat split; congruence.
      - destruct B as (Ea & Ee & Em & Eb). rewrite Ea. cbn [ex_rel]. repeat split; auto.
      - exact Logic.I. }
    destruct p; [exact (G _ _) | exact (G _ _) | exact (G _ _)].
  Qed.

  (* ---- the tests of a state ---- *)
  Definition rt_rel (c : ctx) (r : res (option nat * Tok)) (o : co (option nat * Tok * list Tok)) : Prop :=
    match r, o with
    | Ok (o1, t1) c', CoOk (o2, t2, ups') m' b' es' => o1 = o2 /\ t1 = t2 /\ ms c' = m' /\ bs c' = b' /\ errs c' = es' /\ T c' = ups' /\ W c'
    | RaiseC es c', CoCap es' m' b' => es = es' /\ errs c' = es' /\ ms c' = m' /\ bs c' = b'
    | Crash _, CoCrash => True
    | _, _ => False
    end.

  Lemma run_tests_C : forall tests t c, W c -> rt_rel c (run_tests P false tests t c) (c_tests P tests t (ms c) (bs c) (errs c) (T c)).
  Proof.
    induction tests as [|x xs IH]; intros t c Hw; cbn [run_tests c_tests rt_rel]; [split; [reflexivity|]; split; [reflexivity|]; split; [reflexivity|]; split; [reflexivity|]; split; [reflexivity|]; split; [reflexivity | exact Hw]|].
    pose proof (match_k_C (t_kind x) t c) as M1.
    destruct (match_k P false (t_kind x) t c) as [[b1 t1] c1|e1 c1|es1 c1|c1|];
      destruct (c_match P (t_kind x) t (ms c) (errs c)) as [[[b1' t1'] m1'] es1'|es1' m1'|] eqn:A1; cbn [crmap pack cm fst snd bind] in *; try contradiction.
    - destruct M1 as (E1 & Em1 & Ee1 & (Fq & Fr & Fl & Fb)). inversion E1; subst b1' t1'. clear E1.
      assert (Hi1 : I (ms c1)) by (rewrite Em1; destruct Hw as (_ & _ & Hi); exact (c_match_I _ _ _ _ _ _ _ _ Hi A1)).
      assert (Hw1 : W c1) by (apply (W_frame c); assumption).
      assert (T1 : T c1 = T c) by (apply T_same; assumption).
      destruct b1.
      + destruct (t_guard x) as [h|].
        * pose proof (lookahead_C h c1 Hw1) as L. rewrite T1, Em1, Ee1 in L.
          destruct (lookahead P false h c1) as [bb c2|e2 c2|es2 c2|c2|]; destruct (c_la P h (T c) m1' es1') as [[[bb' m2'] ups2] es2'|es2' m2'|];
            cbn [lk_rel bind] in *; try contradiction.
          -- destruct L as (Eb & Em2 & Ee2 & Eb2 & T2 & W2). subst bb'. destruct bb.
             ++ pose proof (exec_C t1 (t_kind x) (t_prods x) c2) as X. rewrite Em2, Eb2, Fb, Ee2 in X.
                destruct (exec P false t1 (t_kind x) (t_prods x) c2) as [[] c3|e3 c3|es3 c3|c3|]; destruct (c_exec P t1 (t_prods x) m2' (bs c) es2') as [[] m3 b3 es3'|es3' m3 b3|];
                  cbn [ex_rel bind rt_rel] in *; try contradiction; auto.
                destruct X as (Em3 & Eb3 & Ee3 & Xq & Xr & Xl & Xm). split; [reflexivity|]. split; [reflexivity|]. split; [exact Em3|]. split; [exact Eb3|]. split; [exact Ee3|].
                split; [rewrite <- T2; apply T_same; assumption|]. apply (W_frame c2); [assumption | assumption | rewrite Xm; apply W2 | exact W2].
             ++ pose proof (IH t1 c2 W2) as R. rewrite Em2, Eb2, Fb, Ee2, T2 in R. exact R.
          -- destruct L as (A & B & C & D). repeat split; congruence.
          -- exact Logic.I.
        * pose proof (exec_C t1 (t_kind x) (t_prods x) c1) as X. rewrite Em1, Fb, Ee1 in X.
          destruct (exec P false t1 (t_kind x) (t_prods x) c1) as [[] c3|e3 c3|es3 c3|c3|]; destruct (c_exec P t1 (t_prods x) m1' (bs c) es1') as [[] m3 b3 es3'|es3' m3 b3|];
            cbn [ex_rel bind rt_rel] in *; try contradiction; auto.
          destruct X as (Em3 & Eb3 & Ee3 & Xq & Xr & Xl & Xm). split; [reflexivity|]. split; [reflexivity|]. split; [exact Em3|]. split; [exact Eb3|]. split; [exact Ee3|].
          split; [rewrite <- T1; apply T_same; assumption|]. apply (W_frame c1); [assumption | assumption | rewrite Xm; exact Hi1 | exact Hw1].
      + pose proof (IH t1 c1 Hw1) as R. rewrite Em1, Fb, Ee1, T1 in R. exact R.
    - destruct M1 as (A & B & C & (Fq & Fr & Fl & Fb)). repeat split; congruence.
  Qed.

  (* ---- one token ---- *)
  Definition mt_rel (c : ctx) (r : res nat) (o : co (nat * list Tok)) : Prop :=
    match r, o with
    | Ok s' c', CoOk (s'', ups') m' b' es' => s' = s'' /\ ms c' = m' /\ bs c' = b' /\ errs c' = es' /\ T c' = ups' /\ W c'
    | RaiseC es c', CoCap es' m' b' => es = es' /\ errs c' = es' /\ ms c' = m' /\ bs c' = b'
    | Crash _, CoCrash => True
    | _, _ => False
    end.

  Lemma match_token_C s t c : W c -> mt_rel c (match_token P false s t c) (c_step P s t (ms c) (bs c) (errs c) (T c)).
  Proof.
    intros Hw. unfold match_token, c_step. destruct (find_state P s) as [x|]; [|exact Logic.I].
    pose proof (run_tests_C (s_tests x) t c Hw) as R.
    destruct (run_tests P false (s_tests x) t c) as [[o t1] c1|e c1|es c1|c1|];
      destruct (c_tests P (s_tests x) t (ms c) (bs c) (errs c) (T c)) as [[[o2 t2] ups3] m3 b3 es3|es3 m3 b3|];
      cbn [rt_rel mt_rel bind fst snd] in *; try contradiction; auto.
    destruct R as (<- & <- & Em & Eb & Ee & Et & Hw1). destruct o as [s'|]; [cbn [mt_rel]; split; [reflexivity|]; split; [exact Em|]; split; [exact Eb|]; split; [exact Ee|]; split; [exact Et | exact Hw1]|].
    pose proof (add_error_C (mk_unexpected P t1 (s_expected x)) (emit (EvX t1 s) c1)) as A. cbn [errs emit] in A. rewrite Ee in A.
    destruct (add_error P (mk_unexpected P t1 (s_expected x)) (emit (EvX t1 s) c1)) as [[] c2|e2 c2|es2 c2|c2|],
             (c_add P es3 (mk_unexpected P t1 (s_expected x))) as [es'|es']; try contradiction; cbn [bind mt_rel].
    - destruct A as (E & M & (F1 & F2 & F3 & F4) & _). cbn [ms queue rest lineno bs emit] in *.
      split; [reflexivity|]. split; [congruence|]. split; [congruence|]. split; [exact E|].
      split; [rewrite <- Et; apply T_same; assumption|]. apply (W_frame c1); [assumption | assumption | rewrite M; apply Hw1 | exact Hw1].
    - destruct A as (E1 & E2 & M & (F1 & F2 & F3 & F4)). cbn [ms queue rest lineno bs emit] in *. repeat split; congruence.
  Qed.

  (* ---- facts about the machine ---- *)
  Lemma c_la_loop_len h : forall ups m es b m' ups' es', c_la_loop P h ups m es = CrOk (b, m', ups') es' -> length ups' = length ups.
  Proof.
    induction ups as [|t r IH]; intros m es b m' ups' es'; cbn [c_la_loop]; [intros H; now inversion H|].
    destruct (c_any P (la_expected h) t m es) as [[[b1 t1] m1] es1|es1 m1|]; try discriminate.
    destruct b1; [intros H; inversion H; reflexivity|].
    destruct (c_any P (la_skip h) t1 m1 es1) as [[[b2 t2] m2] es2|es2 m2|]; try discriminate.
    destruct b2; [|intros H; inversion H; reflexivity].
    destruct (c_la_loop P h r m2 es2) as [[[b3 m3] r3] es3|es3 m3|] eqn:L; try discriminate.
    intros H. inversion H; subst. cbn [length]. f_equal. exact (IH _ _ _ _ _ _ L).
  Qed.
  Lemma c_tests_len : forall tests t m b es ups o t1 ups' m' b' es', c_tests P tests t m b es ups = CoOk (o, t1, ups') m' b' es' -> length ups' = length ups.
  Proof.
    induction tests as [|x xs IH]; intros t m b es ups o t1 ups' m' b' es'; cbn [c_tests]; [intros H; now inversion H|].
    destruct (c_match P (t_kind x) t m es) as [[[b1 t2] m1] es1|es1 m1|]; try discriminate.
    destruct b1; [|apply IH].
    destruct (t_guard x) as [h|].
    - unfold c_la. destruct (find_la P h) as [y|]; [|discriminate].
      destruct (c_la_loop P y ups m1 es1) as [[[bb m2] ups2] es2|es2 m2|] eqn:L; try discriminate.
      pose proof (c_la_loop_len _ _ _ _ _ _ _ _ L) as E. destruct bb.
      + destruct (c_exec P t2 (t_prods x) m2 b es2) as [[] m3 b3 es3|es3 m3 b3|]; try discriminate. intros H. inversion H; subst. exact E.
      + intros H. rewrite (IH _ _ _ _ _ _ _ _ _ _ _ H). exact E.
    - destruct (c_exec P t2 (t_prods x) m1 b es1) as [[] m3 b3 es3|es3 m3 b3|]; try discriminate. intros H. inversion H; subst. reflexivity.
  Qed.
  Lemma c_step_len s t m b es ups s' ups' m' b' es' : c_step P s t m b es ups = CoOk (s', ups') m' b' es' -> length ups' = length ups.
  Proof.
    unfold c_step. destruct (find_state P s) as [x|]; [|discriminate].
    destruct (c_tests P (s_tests x) t m b es ups) as [[[o t1] u1] m1 b1 es1|es1 m1 b1|] eqn:C; try discriminate.
    pose proof (c_tests_len _ _ _ _ _ _ _ _ _ _ _ _ C) as L. destruct o.
    - intros H. inversion H; subst. exact L.
    - destruct (c_add P es1 _); [|discriminate]. intros H. inversion H; subst. exact L.
  Qed.

  Definition co_same {A} (o1 o2 : co (A * list Tok)) : Prop :=
    match o1, o2 with
    | CoOk (a1, _) m1 b1 es1, CoOk (a2, _) m2 b2 es2 => a1 = a2 /\ m1 = m2 /\ b1 = b2 /\ es1 = es2
    | CoCap es1 m1 b1, CoCap es2 m2 b2 => es1 = es2 /\ m1 = m2 /\ b1 = b2
    | CoCrash, CoCrash => True
    | _, _ => False
    end.
  Lemma c_tests_eof u1 u2 : forall tests t m b es, is_eof P t = true ->
    (forall y, In y tests -> t_kind y = KEOF -> t_guard y = None) ->
    co_same (c_tests P tests t m b es u1) (c_tests P tests t m b es u2).
  Proof.
    induction tests as [|x xs IH]; intros t m b es Et Hg; cbn [c_tests co_same]; [auto|].
    assert (Hg' : forall y, In y xs -> t_kind y = KEOF -> t_guard y = None) by (intros y Iy; apply Hg; now right).
    destruct (c_match P (t_kind x) t m es) as [[[b1 t1] m1] es1|es1 m1|] eqn:M; cbn [co_same]; auto.
    pose proof (c_match_eof _ _ _ _ _ _ _ _ M) as E1. rewrite Et in E1.
    destruct b1; [|apply IH; assumption].
    assert (Kx : t_kind x = KEOF).
    { unfold c_match in M. destruct (kind_beq (t_kind x) KEOF) eqn:B; [now apply kind_beq_eq in B|]. rewrite Et in M. cbn in M. discriminate M. }
    rewrite (Hg x (or_introl eq_refl) Kx). destruct (c_exec P t1 (t_prods x) m1 b es1) as [[] m3 b3 es3|es3 m3 b3|]; cbn [co_same]; auto.
  Qed.

  Hypothesis Heof_unguarded : forall x y, In x (table P) -> In y (s_tests x) -> t_kind y = KEOF -> t_guard y = None.

  Lemma c_step_eof s t m b es u1 u2 : is_eof P t = true -> co_same (c_step P s t m b es u1) (c_step P s t m b es u2).
  Proof.
    intros Et. unfold c_step. destruct (find_state P s) as [x|] eqn:Fs; [|exact Logic.I].
    assert (Ix : In x (table P)) by (unfold find_state in Fs; apply find_some in Fs; tauto).
    pose proof (c_tests_eof u1 u2 (s_tests x) t m b es Et (fun y Iy => Heof_unguarded x y Ix Iy)) as S.
    destruct (c_tests P (s_tests x) t m b es u1) as [[[o1 t1] r1] m1 b1 es1|es1 m1 b1|], (c_tests P (s_tests x) t m b es u2) as [[[o2 t2] r2] m2 b2 es2|es2 m2 b2|];
      cbn [co_same] in *; try contradiction; auto.
    destruct S as (E & <- & <- & <-). inversion E; subst. destruct o2; [cbn; auto|].
    destruct (c_add P es1 _); cbn [co_same]; auto.
  Qed.

  (* ---- the loop ---- *)
  Definition lp_rel (r : res nat) (o : co nat) : Prop :=
    match r, o with
    | Ok s' c', CoOk s'' m' b' es' => s' = s'' /\ ms c' = m' /\ bs c' = b' /\ errs c' = es'
    | RaiseC es c', CoCap es' m' b' => es = es' /\ errs c' = es' /\ ms c' = m' /\ bs c' = b'
    | Crash _, CoCrash => True
    | _, _ => False
    end.

  Lemma loop_C : forall fuel s c, W c -> length (T c) <= fuel ->
    lp_rel (loop P fuel false s c) (c_loop P fuel s (ms c) (bs c) (errs c) (T c)).
  Proof.
    induction fuel as [|f IH]; intros s c Hw Hf.
    - exfalso. destruct Hw as (Hq & Hr & _). destruct (read P c) as [t c1] eqn:R. rewrite (read_T c t c1 R Hq Hr) in Hf. cbn in Hf. lia.
    - cbn [loop c_loop]. pose proof Hw as (Hq & Hr & Hi). destruct (read P c) as [t c1] eqn:R.
      destruct (read_spec P K key sk Hmkeof c t c1 R Hq Hr) as (_ & M0 & B0 & E0 & Hq0 & Hr0 & _).
      pose proof (read_T c t c1 R Hq Hr) as Tc. rewrite Tc in Hf |- *.
      assert (Hw1 : W c1) by (split; [exact Hq0 | split; [exact Hr0 | rewrite M0; exact Hi]]).
      pose proof (match_token_C s t c1 Hw1) as Mt. rewrite M0, B0, E0 in Mt.
      destruct (is_eof P t) eqn:Et.
      + pose proof (c_step_eof s t (ms c) (bs c) (errs c) (T c1) [] Et) as Sm.
        destruct (match_token P false s t c1) as [s' c2|e c2|es c2|c2|]; destruct (c_step P s t (ms c) (bs c) (errs c) (T c1)) as [[s2 u2] m2 b2 es2|es2 m2 b2|];
          cbn [mt_rel bind] in Mt; try contradiction;
          destruct (c_step P s t (ms c) (bs c) (errs c) []) as [[s3 u3] m3 b3 es3|es3 m3 b3|]; cbn [co_same lp_rel] in *; try contradiction; auto.
        * destruct Mt as (A & B & C & D & _). destruct Sm as (X & Y & Z & V). repeat split; congruence.
        * destruct Mt as (A & B & C & D). destruct Sm as (X & Y & Z). repeat split; congruence.
      + destruct (match_token P false s t c1) as [s' c2|e c2|es c2|c2|]; destruct (c_step P s t (ms c) (bs c) (errs c) (T c1)) as [[s2 u2] m2 b2 es2|es2 m2 b2|] eqn:Ms;
          cbn [mt_rel bind lp_rel] in *; try contradiction; auto.
        destruct Mt as (A & B & C & D & E & F). subst s2 m2 b2 es2 u2.
        pose proof (c_step_len _ _ _ _ _ _ _ _ _ _ _ Ms) as Len.
        apply IH; [exact F | cbn [length] in Hf; lia].
  Qed.

  (* ---- the whole run ---- *)
  Definition pc_rel (r : res unit) (o : @cout MS BS Err) : Prop :=
    match r, o with
    | Ok _ c, CAccept m' b' => ms c = m' /\ bs c = b' /\ errs c = []
    | RaiseC es c, CReject es' m' b' => es = es' /\ ms c = m' /\ bs c = b'
    | Crash _, CCrash => True
    | _, _ => False
    end.

  Lemma c_call_C f c ev0 :
    match b_call P false f (emit ev0 c), c_call P f (ms c) (bs c) (errs c) with
    | Ok _ c', CoOk _ m' b' es' => ms c' = m' /\ bs c' = b' /\ errs c' = es' /\ queue c' = queue c /\ rest c' = rest c /\ lineno c' = lineno c
    | RaiseC es c', CoCap es' m' b' => es = es' /\ errs c' = es' /\ ms c' = m' /\ bs c' = b'
    | Crash _, CoCrash => True
    | _, _ => False
    end.
  Proof.
    pose proof (b_call_C f (emit ev0 c)) as B. cbn [bs errs ms queue rest lineno emit] in B. unfold c_call.
    destruct (b_call P false f (emit ev0 c)) as [[] c1|e1 c1|es1 c1|c1|], (f (bs c)) as [b'|e b'|]; try contradiction.
    - subst c1. cbn. repeat split.
    - destruct B as (es' & Ea & Ee & Em & Eb & Fq & Fr & Fl). rewrite Ea. repeat split; assumption.
    - destruct B as (Ea & Ee & Em & Eb). rewrite Ea. repeat split; auto.
    - exact Logic.I.
  Qed.

  Lemma c_call_ms f m b es u m1 b1 es1 : c_call P f m b es = CoOk u m1 b1 es1 -> m1 = m.
  Proof.
    unfold c_call. destruct (f b) as [b'|e b'|]; [intros H; now inversion H | | discriminate].
    destruct (c_add P es e); [intros H; now inversion H | discriminate].
  Qed.

  Theorem parse_machine_collecting toks m b : Forall (fun t => is_eof P t = false) toks -> I m ->
    pc_rel (parse P false toks m b) (c_parse P toks m b).
  Proof.
    intros Ht Hi. unfold parse, c_parse.
    pose proof (c_call_C (b_start P RGherkinDocument) (init_ctx toks m b) (EvS RGherkinDocument)) as S0. cbn [ms bs errs queue rest lineno init_ctx] in S0.
    destruct (b_call P false (b_start P RGherkinDocument) (emit (EvS RGherkinDocument) (init_ctx toks m b))) as [[] c1|e1 c1|es1 c1|c1|],
             (c_call P (b_start P RGherkinDocument) m b []) as [[] m1 b1 es1'|es1' m1 b1|] eqn:C0; try contradiction; cbn [bind pc_rel]; auto.
    2: { destruct S0 as (A & B & C & D). repeat split; congruence. }
    destruct S0 as (Em1 & Eb1 & Ee1 & Q1 & R1 & L1). pose proof (c_call_ms _ _ _ _ _ _ _ _ C0) as Mm. rewrite Mm in *. clear Mm.
    assert (Hw : W c1).
    { split; [unfold Delivery.qwf; rewrite Q1, R1; split; [constructor | intros t []]|]. split; [unfold Delivery.rest_ok; rewrite R1; exact Ht | rewrite Em1; exact Hi]. }
    assert (Tc : T c1 = toks ++ [mk_eof P (S (length toks))]).
    { rewrite (T_same (init_ctx toks m b) c1 Q1 R1 L1). unfold T, stream, Delivery.eofs. cbn [queue rest lineno init_ctx app].
      rewrite (upto_app_noeof P toks _ Ht). cbn [Delivery.upto]. rewrite Hmkeof. reflexivity. }
    pose proof (loop_C (S (S (length toks))) (start_state P) c1 Hw ltac:(rewrite Tc, app_length; cbn; lia)) as L.
    rewrite Tc, Em1, Eb1, Ee1 in L.
    destruct (loop P (S (S (length toks))) false (start_state P) c1) as [s' c2|e c2|es c2|c2|];
      destruct (c_loop P (S (S (length toks))) (start_state P) m b1 es1' (toks ++ [mk_eof P (S (length toks))])) as [s2 m2 b2 es2|es2 m2 b2|];
      cbn [lp_rel bind pc_rel] in *; try contradiction; auto.
    2: { destruct L as (A & B & C & D). repeat split; congruence. }
    destruct L as (_ & Em & Eb & Ee).
    pose proof (c_call_C (b_end P RGherkinDocument) c2 (EvE RGherkinDocument)) as S9. rewrite Em, Eb, Ee in S9.
    destruct (b_call P false (b_end P RGherkinDocument) (emit (EvE RGherkinDocument) c2)) as [[] c3|e3 c3|es3 c3|c3|],
             (c_call P (b_end P RGherkinDocument) m2 b2 es2) as [[] m3 b3 es3'|es3' m3 b3|]; try contradiction; cbn [bind pc_rel]; auto.
    2: { destruct S9 as (A & B & C & D). repeat split; congruence. }
    destruct S9 as (Em3 & Eb3 & Ee3 & _). rewrite Ee3. destruct es3' as [|e0 es0]; cbn [pc_rel]; repeat split; assumption.
  Qed.
End MachineCEq.
