(* Two instances of the generic interpreter that differ only in their token matcher, where the first
   matcher keeps a monotone flag in its state ("an answer was given that the second matcher would not
   have given") and the second matcher answers exactly like the first whenever the first does not raise
   the flag: if the first run ends with the flag down, the second run is the same run.
   Generic interpreter; used to make the blindness of the real matcher to a layout change conditional on
   the questions a run actually asks (C16). *)
From Coq Require Import List Bool Arith Lia.
Import ListNotations.
Require Import Kinds Automaton.

Section Agree.
  Context {Tok MS BS Err : Type}.
  Variable P : params Tok MS BS Err.
  Notation ctx := (ctx Tok MS BS Err).
  Notation res := (res Tok MS BS Err).

  Definition withm (g : kind -> MS -> Tok -> mres Tok MS Err) : params Tok MS BS Err :=
    mk_params Tok MS BS Err (is_eof P) (mk_eof P) g (b_start P) (b_end P) (b_build P) (err_same_msg P) (mk_unexpected P)
              (table P) (lookaheads P) (error_cap P) (start_state P).

  Variables g1 g2 : kind -> MS -> Tok -> mres Tok MS Err.
  Variable bad : MS -> bool.
  Definition mres_ms (r : mres Tok MS Err) : MS := match r with MR _ _ m | MRaise _ _ m => m end.

  Hypothesis same_when_good : forall k m t, bad (mres_ms (g1 k m t)) = false -> g2 k m t = g1 k m t.
  Hypothesis bad_stays : forall k m t, bad m = true -> bad (mres_ms (g1 k m t)) = true.

  Notation P1 := (withm g1).
  Notation P2 := (withm g2).

  (* the run ended (in any way but fuel exhaustion) with the flag down *)
  Definition good {A} (r : res A) : Prop :=
    match r with
    | Ok _ c | Raise1 _ c | RaiseC _ c | Crash c => bad (ms c) = false
    | OutOfFuel => False
    end.
  (* if the first computation ends with the flag down, the flag was down before and the second computation is the same *)
  Definition agr {A} (c : ctx) (r1 r2 : res A) : Prop := good r1 -> bad (ms c) = false /\ r2 = r1.

  Lemma agr_bind {A B} c (x1 x2 : res A) (f1 f2 : A -> ctx -> res B) :
    agr c x1 x2 -> (forall a c1, agr c1 (f1 a c1) (f2 a c1)) -> agr c (bind x1 f1) (bind x2 f2).
  Proof.
    intros H1 H2 G. destruct x1 as [a c1|e c1|es c1|c1|]; cbn [bind good] in *.
    - destruct (H2 a c1 G) as [B1 E]. destruct (H1 B1) as [B0 ->]. cbn [bind]. split; [exact B0 | exact E].
    - destruct (H1 G) as [B0 ->]. split; [exact B0 | reflexivity].
    - destruct (H1 G) as [B0 ->]. split; [exact B0 | reflexivity].
    - destruct (H1 G) as [B0 ->]. split; [exact B0 | reflexivity].
    - contradiction.
  Qed.

  (* computations that do not involve the matcher: the same term, and the matcher state is kept *)
  Definition keeps {A} (c : ctx) (r : res A) : Prop :=
    match r with
    | Ok _ c' | Raise1 _ c' | RaiseC _ c' | Crash c' => ms c' = ms c
    | OutOfFuel => True
    end.
  Lemma agr_keeps {A} c (r : res A) : keeps c r -> agr c r r.
  Proof. intros K G. split; [|reflexivity]. destruct r; cbn [keeps good] in *; try congruence. contradiction. Qed.
  Lemma agr_ret {A} c c' (a : A) : ms c' = ms c -> agr c (Ok a c') (Ok a c').
  Proof. intros H. apply agr_keeps. exact H. Qed.
  Lemma agr_shift {A} c c0 (r1 r2 : res A) : ms c0 = ms c -> agr c0 r1 r2 -> agr c r1 r2.
  Proof. intros E H G. destruct (H G) as [B R]. split; [congruence | exact R]. Qed.

  Lemma add_error_keeps e c : keeps c (add_error P1 e c).
  Proof. unfold add_error. destruct (existsb _ _); cbn [keeps]; [reflexivity|]. destruct (_ <? _); reflexivity. Qed.
  Lemma add_error_agr e c : agr c (add_error P1 e c) (add_error P2 e c).
  Proof. change (add_error P2 e c) with (add_error P1 e c). apply agr_keeps, add_error_keeps. Qed.

  Lemma b_call_keeps stop f c : keeps c (b_call P1 stop f c).
  Proof.
    unfold b_call. destruct (f (bs c)) as [b'|e b'|]; cbn [keeps]; try reflexivity.
    destruct stop; cbn [keeps]; [reflexivity|]. pose proof (add_error_keeps e (set_bs b' c)) as K.
    destruct (add_error P1 e (set_bs b' c)); cbn [keeps] in *; auto.
  Qed.
  Lemma b_call_agr stop f c : agr c (b_call P1 stop f c) (b_call P2 stop f c).
  Proof. change (b_call P2 stop f c) with (b_call P1 stop f c). apply agr_keeps, b_call_keeps. Qed.

  Lemma exec_agr stop t k : forall ps c, agr c (exec P1 stop t k ps c) (exec P2 stop t k ps c).
  Proof.
    induction ps as [|p ps IH]; intros c; cbn [exec]; [apply agr_ret; reflexivity|].
    apply agr_bind; [|intros _ c1; apply IH].
    destruct p; (eapply agr_shift; [|apply b_call_agr]); reflexivity.
  Qed.

  Lemma match_k_agr stop k t c : agr c (match_k P1 stop k t c) (match_k P2 stop k t c).
  Proof.
    unfold match_k. change (is_eof P2 t) with (is_eof P1 t). destruct (_ && _); [apply agr_ret; reflexivity|].
    cbn [matchf withm ms bump].
    pose proof (same_when_good k (ms c) t) as S. pose proof (bad_stays k (ms c) t) as M.
    assert (Key : bad (mres_ms (g1 k (ms c) t)) = false -> bad (ms c) = false /\ g2 k (ms c) t = g1 k (ms c) t).
    { intros B. split; [|exact (S B)]. destruct (bad (ms c)); [|reflexivity]. rewrite (M eq_refl) in B. discriminate B. }
    destruct (g1 k (ms c) t) as [b t' m'|e t' m'] eqn:E1; cbn [mres_ms] in Key.
    - intros G. cbn [good ms set_ms] in G. destruct (Key G) as [B0 ->]. split; [exact B0 | reflexivity].
    - destruct stop.
      + intros G. cbn [good ms set_ms] in G. destruct (Key G) as [B0 ->]. split; [exact B0 | reflexivity].
      + intros G.
        assert (B : bad m' = false).
        { pose proof (add_error_keeps e (set_ms m' (bump c))) as K.
          destruct (add_error P1 e (set_ms m' (bump c))) as [[] c3|e3 c3|es3 c3|c3|]; cbn [bind good keeps ms set_ms] in *; congruence || contradiction. }
        destruct (Key B) as [B0 ->]. split; [exact B0 | reflexivity].
  Qed.

  Lemma any_match_agr stop ks : forall t c, agr c (any_match P1 stop ks t c) (any_match P2 stop ks t c).
  Proof.
    induction ks as [|k ks IH]; intros t c; cbn [any_match]; [apply agr_ret; reflexivity|].
    apply agr_bind; [apply match_k_agr|]. intros [b t1] c1. cbn [fst snd]. destruct b; [apply agr_ret; reflexivity | apply IH].
  Qed.

  Lemma read_ms c : ms (snd (read P1 c)) = ms c.
  Proof. unfold read. destruct (queue c); [destruct (rest c)|]; reflexivity. Qed.

  Lemma la_loop_agr stop h : forall fuel c acc, agr c (la_loop P1 fuel stop h c acc) (la_loop P2 fuel stop h c acc).
  Proof.
    induction fuel as [|f IH]; intros c acc; cbn [la_loop]; [intros G; contradiction|].
    change (read P2 c) with (read P1 c). pose proof (read_ms c) as R. destruct (read P1 c) as [t c1]. cbn [snd] in R.
    eapply agr_shift; [exact R|].
    apply agr_bind; [apply any_match_agr|]. intros [b t1] c2. cbn [fst snd]. destruct b; [apply agr_ret; reflexivity|].
    apply agr_bind; [apply any_match_agr|]. intros [b' t2] c3. cbn [fst snd]. destruct b'; [apply IH | apply agr_ret; reflexivity].
  Qed.

  Lemma lookahead_agr stop h c : agr c (lookahead P1 stop h c) (lookahead P2 stop h c).
  Proof.
    unfold lookahead. change (find_la P2 h) with (find_la P1 h). destruct (find_la P1 h); [|apply agr_keeps; reflexivity].
    apply agr_bind; [apply la_loop_agr|]. intros r c1. apply agr_ret. reflexivity.
  Qed.

  Lemma run_tests_agr stop : forall tests t c, agr c (run_tests P1 stop tests t c) (run_tests P2 stop tests t c).
  Proof.
    induction tests as [|x xs IH]; intros t c; cbn [run_tests]; [apply agr_ret; reflexivity|].
    apply agr_bind; [apply match_k_agr|]. intros [b t1] c1. cbn [fst snd]. destruct b; [|apply IH].
    destruct (t_guard x) as [h|].
    - apply agr_bind; [apply lookahead_agr|]. intros bb c2. destruct bb; [|apply IH].
      apply agr_bind; [apply exec_agr|]. intros _ c3. apply agr_ret. reflexivity.
    - apply agr_bind; [apply exec_agr|]. intros _ c3. apply agr_ret. reflexivity.
  Qed.

  Lemma match_token_agr stop s t c : agr c (match_token P1 stop s t c) (match_token P2 stop s t c).
  Proof.
    unfold match_token. change (find_state P2 s) with (find_state P1 s). destruct (find_state P1 s) as [x|]; [|apply agr_keeps; reflexivity].
    apply agr_bind; [apply run_tests_agr|]. intros [o t1] c1. cbn [fst snd]. destruct o; [apply agr_ret; reflexivity|].
    change (mk_unexpected P2) with (mk_unexpected P1).
    destruct stop; [apply agr_keeps; reflexivity|].
    apply agr_bind; [eapply agr_shift; [|apply add_error_agr]; reflexivity|]. intros _ c3. apply agr_ret. reflexivity.
  Qed.

  Lemma loop_agr stop : forall fuel s c, agr c (loop P1 fuel stop s c) (loop P2 fuel stop s c).
  Proof.
    induction fuel as [|f IH]; intros s c; cbn [loop]; [intros G; contradiction|].
    change (read P2 c) with (read P1 c). pose proof (read_ms c) as R. destruct (read P1 c) as [t c1]. cbn [snd] in R.
    eapply agr_shift; [exact R|].
    apply agr_bind; [apply match_token_agr|]. intros s' c2. change (is_eof P2 t) with (is_eof P1 t).
    destruct (is_eof P1 t); [apply agr_ret; reflexivity | apply IH].
  Qed.

  (* the whole run *)
  Theorem parse_agree stop toks m b : good (parse P1 stop toks m b) -> parse P2 stop toks m b = parse P1 stop toks m b.
  Proof.
    intros G.
    assert (A : agr (init_ctx toks m b) (parse P1 stop toks m b) (parse P2 stop toks m b)).
    { unfold parse.
      apply agr_bind; [eapply agr_shift; [|apply b_call_agr]; reflexivity|]. intros _ c1.
      change (start_state P2) with (start_state P1).
      apply agr_bind; [apply loop_agr|]. intros _ c2.
      apply agr_bind; [eapply agr_shift; [|apply b_call_agr]; reflexivity|]. intros _ c3.
      apply agr_keeps. destruct (errs c3); reflexivity. }
    exact (proj2 (A G)).
  Qed.
End Agree.
