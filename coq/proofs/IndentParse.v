(* C16, indentation end to end (stop-at-first-error mode, hence also every accepted document in collecting
   mode -- C14_stop_accepts).  Two sources whose physical lines pairwise have the same text after their leading
   whitespace parse to the same document up to columns -- or stop at the same first error up to its column --
   provided the run never asks of a pair of lines one of the two questions whose answer can see indentation
   (IndentTail.iblind: free text whose text, after removing the doc string's indentation, differs; a comment
   line whose text differs).

   Same construction as BlankParse: paired runs A (answers of the first source, flag) and B (answers of the
   second source when the flag goes up), AgreeUpTo, and two instances of the Paramcoq-generated parametricity
   of the interpreter; the builder half is ColErase (the builder never looks at a column). *)
From Param Require Import Param.
From Coq Require Import String List Bool Arith NArith Lia.
Import ListNotations.
Require Import Kinds Automaton AutoFacts PyStr Line Matcher MatcherFacts Ast Builder Pipeline PipelineFacts Table Dialects
               BuilderErase ColErase ParamGlue Delivery LineEndings AgreeUpTo StopIndep IndentTail BlankParse.

Definition itok := (token * token)%type.
Definition ims := (mstate * mstate * bool)%type.
Definition im1 (x : ims) : mstate := fst (fst x).
Definition im2 (x : ims) : mstate := snd (fst x).
Definition iflag (x : ims) : bool := snd x.

(* a question about a pair of tokens whose answer can see the indentation *)
Definition iunblind (k : kind) (m m' : mstate) (t t' : token) : bool :=
  match tk_line t, tk_line t' with
  | Some l, Some l' =>
    match k with
    | KOther => negb (str_eqb (get_line_text l (Some (ms_indent m))) (get_line_text l' (Some (ms_indent m'))))
    | KComment => line_startswith l [HASH] && negb (str_eqb (l_text l) (l_text l'))
    | _ => false
    end
  | _, _ => false
  end.

Definition imap (f : token -> itok) (g : mstate -> ims) (r : mres token mstate perror) : mres itok ims perror :=
  match r with MR b t m => MR b (f t) (g m) | MRaise e t m => MRaise e (f t) (g m) end.

Definition imatchA (k : kind) (s : ims) (x : itok) : mres itok ims perror :=
  let r' := p_matchf k (im2 s) (snd x) in
  imap (fun t1 => (t1, mtok r')) (fun m1 => (m1, mres_ms r', iflag s || iunblind k (im1 s) (im2 s) (fst x) (snd x)))
       (p_matchf k (im1 s) (fst x)).
Definition imatchB (k : kind) (s : ims) (x : itok) : mres itok ims perror :=
  if iunblind k (im1 s) (im2 s) (fst x) (snd x)
  then imap (fun t1' => (t1', t1')) (fun m1' => (m1', m1', true)) (p_matchf k (im2 s) (snd x))
  else imatchA k s x.

Definition no_dedupe (e f : perror) : bool := false.
Definition IX (g : kind -> ims -> itok -> mres itok ims perror) : params itok ims bstate perror :=
  mk_params itok ims bstate perror (fun x => tok_is_eof (fst x)) (fun n => (eof_token n, eof_token n)) g p_bstart p_bend
            (fun x => p_bbuild (fst x)) no_dedupe (fun x => unexpected (fst x))
            Table.table Table.lookaheads Table.error_cap Table.start_state.
Definition IA := IX imatchA.
Definition IB := IX imatchB.
(* the real pipeline, without de-duplication of errors (never used in stop mode) *)
Definition pipeline_nd : params token mstate bstate perror := with_same (pipeline_params Table.table) no_dedupe.

Lemma ims_map f g r : mres_ms (imap f g r) = g (mres_ms r).
Proof. destruct r; reflexivity. Qed.
Lemma IAB_same k s x : iflag (mres_ms (imatchA k s x)) = false -> imatchB k s x = imatchA k s x.
Proof.
  unfold imatchB. intros H. unfold imatchA in H. rewrite ims_map in H. unfold iflag in H at 1. cbn [snd] in H.
  destruct (iunblind k (im1 s) (im2 s) (fst x) (snd x)); [|reflexivity]. rewrite orb_true_r in H. discriminate H.
Qed.
Lemma IA_flag_stays k s x : iflag s = true -> iflag (mres_ms (imatchA k s x)) = true.
Proof. intros H. unfold imatchA. rewrite ims_map. unfold iflag at 1. cbn [snd]. rewrite H. reflexivity. Qed.
Theorem IAB_agree stop xs s b : good iflag (parse IA stop xs s b) -> parse IB stop xs s b = parse IA stop xs s b.
Proof. exact (parse_agree IA imatchA imatchB iflag IAB_same IA_flag_stays stop xs s b). Qed.

(* ---- run A projects to the run on the first tokens ---- *)
Definition ITRa (x : itok) (t : token) : Prop := fst x = t.
Definition IMRa (s : ims) (m : mstate) : Prop := im1 s = m.

Lemma iparamsA_related : params_R itok token ITRa ims mstate IMRa bstate bstate eq perror perror ER IA pipeline_nd.
Proof.
  unfold IA, IX, pipeline_nd, with_same, pipeline_params. cbn [is_eof mk_eof matchf b_start b_end b_build mk_unexpected table lookaheads error_cap start_state].
  constructor.
  - intros x t H. unfold ITRa in H. subst t. apply bool_R_refl.
  - intros n n' H. apply nat_R_eq in H. subst n'. reflexivity.
  - intros k k' Hk s m Hm x t Hx. apply kind_R_eq in Hk. subst k'. unfold IMRa, ITRa in *. subst m t.
    unfold imatchA. destruct (p_matchf k (im1 s) (fst x)) as [b t1 m1|e t1 m1]; cbn [imap];
      constructor; try apply bool_R_refl; reflexivity.
  - intros r r' Hr b b' Hb. apply rule_R_eq in Hr. subst r' b'. apply bres_R_refl.
  - intros r r' Hr b b' Hb. apply rule_R_eq in Hr. subst r' b'. apply bres_R_refl.
  - intros x t Hx b b' Hb. unfold ITRa in Hx. subst t b'. apply bres_R_refl.
  - intros e e' He f f' Hf. apply bool_R_refl.
  - intros x t Hx l l' Hl. apply (list_R_eq kind_R) in Hl; [|apply kind_R_eq]. unfold ITRa in Hx. subst l' t. reflexivity.
  - apply list_R_refl, st_R_refl.
  - apply list_R_refl, la_R_refl.
  - apply nat_R_refl.
  - apply nat_R_refl.
Qed.

(* ---- run B is related, up to columns, to the run on the second tokens ---- *)
Definition ERc (e e' : perror) : Prop := ce_err e = ce_err e'.
Definition ITRb (x : itok) (t : token) : Prop := snd x = t /\ twi (fst x) (snd x).
Definition IMRb (s : ims) (m : mstate) : Prop := im2 s = m /\ msim (im1 s) (im2 s).

Lemma liftc_rel o o' : boutc_rel o o' ->
  match lift_bout o, lift_bout o' with
  | BOk b1, BOk b1' => BRc b1 b1'
  | BRaise e b1, BRaise e' b1' => ERc e e' /\ BRc b1 b1'
  | BCrash, BCrash => True
  | _, _ => False
  end.
Proof. destruct o, o'; cbn; auto. Qed.

Lemma eof_pair k m m' t t' : msim m m' -> tce t = tce t' -> tk_line t = None -> tk_line t' = None ->
  mouti_rel t t' (matcher dialects k m t) (matcher dialects k m' t').
Proof.
  intros Hm He L L'. unfold matcher. rewrite L, L'. destruct k; try exact I.
  cbn [mouti_rel]. split; [exact Hm|]. split; [|split; reflexivity].
  apply sm_ce; [apply tce_line, He | reflexivity | reflexivity | exact (proj1 (proj2 Hm))].
Qed.

Lemma iunblind_blind k m m' t t' l l' : tk_line t = Some l -> tk_line t' = Some l' -> iunblind k m m' t t' = false -> iblind k m m' l l'.
Proof.
  intros L L' U. unfold iunblind in U. rewrite L, L' in U. destruct k; cbn [iblind]; try exact I.
  - intros S. rewrite S in U. cbn [andb] in U. apply negb_false_iff, str_eqb_eq in U. exact U.
  - apply negb_false_iff, str_eqb_eq in U. exact U.
Qed.

Lemma twi_match k m m' t t' : msim m m' -> twi t t' -> iunblind k m m' t t' = false ->
  match p_matchf k m t, p_matchf k m' t' with
  | MR b t1 m1, MR b' t1' m1' => b = b' /\ twi t1 t1' /\ msim m1 m1'
  | MRaise e t1 m1, MRaise e' t1' m1' => ERc e e' /\ twi t1 t1' /\ msim m1 m1'
  | _, _ => False
  end.
Proof.
  intros Hm [He Hl] U. unfold p_matchf.
  assert (R : mouti_rel t t' (matcher dialects k m t) (matcher dialects k m' t')).
  { destruct (tk_line t) as [l|] eqn:L, (tk_line t') as [l'|] eqn:L'; cbn [LRi] in Hl; try contradiction.
    - destruct Hl as [Htr Hno]. apply (matcher_indent l l' Htr Hno m m' Hm t t' L L' He k). exact (iunblind_blind k m m' t t' l l' L L' U).
    - apply eof_pair; assumption. }
  destruct (matcher dialects k m t) as [|t1 m1|e t1 m1], (matcher dialects k m' t') as [|t1' m1'|e' t1' m1']; cbn [mouti_rel] in R; try contradiction.
  - split; [reflexivity|]. split; [split; assumption | exact Hm].
  - destruct R as (M & E & La & Lb). split; [reflexivity|]. split; [|exact M]. split; [exact E|]. rewrite La, Lb. exact Hl.
  - destruct R as (Ee & M & E & La & Lb). split; [exact Ee|]. split; [|exact M]. split; [exact E|]. rewrite La, Lb. exact Hl.
Qed.

Lemma iparamsB_related : params_R itok token ITRb ims mstate IMRb bstate bstate BRc perror perror ERc IB pipeline_nd.
Proof.
  unfold IB, IX, pipeline_nd, with_same, pipeline_params. cbn [is_eof mk_eof matchf b_start b_end b_build mk_unexpected table lookaheads error_cap start_state].
  constructor.
  - intros x t [<- [_ L]]. apply bool_R_of_eq. unfold tok_is_eof. destruct (tk_line (fst x)), (tk_line (snd x)); cbn [LRi] in L; tauto.
  - intros n n' H. apply nat_R_eq in H. subst n'. split; [reflexivity | apply twi_refl].
  - intros k k' Hk s m [Hm Ms] x t [Hx O]. apply kind_R_eq in Hk. subst k' m t.
    unfold imatchB. destruct (iunblind k (im1 s) (im2 s) (fst x) (snd x)) eqn:U.
    + destruct (p_matchf k (im2 s) (snd x)) as [b t1 m1|e t1 m1]; cbn [imap];
        constructor; try apply bool_R_refl; try reflexivity; try (split; [reflexivity | apply twi_refl]); (split; [reflexivity | apply msim_refl]).
    + pose proof (twi_match k (im1 s) (im2 s) (fst x) (snd x) Ms O U) as R. unfold imatchA.
      destruct (p_matchf k (im1 s) (fst x)) as [b t1 m1|e t1 m1], (p_matchf k (im2 s) (snd x)) as [b' t1' m1'|e' t1' m1'];
        try contradiction; cbn [imap mtok mres_ms].
      * destruct R as (<- & Tw & M). constructor; [apply bool_R_refl | split; [reflexivity | exact Tw] | split; [reflexivity | exact M]].
      * destruct R as (Ee & Tw & M). constructor; [exact Ee | split; [reflexivity | exact Tw] | split; [reflexivity | exact M]].
  - intros r r' Hr b b' Hb. apply rule_R_eq in Hr. subst r'. pose proof (liftc_rel _ _ (builder_start_crel r b b' Hb)) as H. unfold p_bstart.
    destruct (lift_bout (builder_start r b)), (lift_bout (builder_start r b')); try contradiction; [constructor; exact H | destruct H as [He H]; constructor; [exact He | exact H] | constructor].
  - intros r r' Hr b b' Hb. apply rule_R_eq in Hr. subst r'. pose proof (liftc_rel _ _ (builder_end_crel r b b' Hb)) as H. unfold p_bend.
    destruct (lift_bout (builder_end r b)), (lift_bout (builder_end r b')); try contradiction; [constructor; exact H | destruct H as [He H]; constructor; [exact He | exact H] | constructor].
  - intros x t [<- [E _]] b b' Hb. pose proof (liftc_rel _ _ (builder_build_crel (fst x) (snd x) b b' E Hb)) as H. unfold p_bbuild.
    destruct (lift_bout (builder_build (fst x) b)), (lift_bout (builder_build (snd x) b')); try contradiction; [constructor; exact H | destruct H as [He H]; constructor; [exact He | exact H] | constructor].
  - intros e e' He f f' Hf. apply bool_R_refl.
  - intros x t [<- O] l l' Hl. apply (list_R_eq kind_R) in Hl; [|apply kind_R_eq]. subst l'. apply unexpected_ce, O.
  - apply list_R_refl, st_R_refl.
  - apply list_R_refl, la_R_refl.
  - apply nat_R_refl.
  - apply nat_R_refl.
Qed.

(* ---- reading a relation between two results (errors related by any relation) ---- *)
Section OutE.
  Context {T T' M M' B B' : Type}.
  Variable TR : T -> T' -> Prop.
  Variable MRel : M -> M' -> Prop.
  Variable BRl : B -> B' -> Prop.
  Variable ERl : perror -> perror -> Prop.
  Definition oute_rel (r : res T M B perror unit) (r' : res T' M' B' perror unit) : Prop :=
    match r, r' with
    | Ok _ c, Ok _ c' => MRel (ms c) (ms c') /\ BRl (bs c) (bs c') /\ calls c = calls c'
    | Raise1 e c, Raise1 e' c' => ERl e e' /\ MRel (ms c) (ms c') /\ BRl (bs c) (bs c') /\ calls c = calls c'
    | RaiseC es c, RaiseC es' c' => MRel (ms c) (ms c') /\ BRl (bs c) (bs c') /\ calls c = calls c'
    | Crash _, Crash _ => True
    | OutOfFuel, OutOfFuel => True
    | _, _ => False
    end.
  Lemma res_R_oute r r' :
    res_R T T' TR M M' MRel B B' BRl perror perror ERl unit unit unit_R r r' -> oute_rel r r'.
  Proof.
    intros R. destruct R as [a a' _ c c' Hc|e e' He c c' Hc|es es' Hes c c' Hc|c c' Hc|]; cbn [oute_rel]; try exact I;
      destruct Hc as [q q' _ r r' _ ln ln' _ er er' _ ms1 ms1' Hms bs1 bs1' Hbs cl cl' Hcl lg lg' _]; cbn [bs ms calls];
      apply nat_R_eq in Hcl; auto.
  Qed.
End OutE.

Lemma ilist_fst xs : list_R itok token ITRa xs (map fst xs).
Proof. induction xs; constructor; [reflexivity | assumption]. Qed.
Lemma ilist_snd xs : Forall (fun x => twi (fst x) (snd x)) xs -> list_R itok token ITRb xs (map snd xs).
Proof.
  induction xs as [|x xs IH]; intros H; constructor.
  - split; [reflexivity | exact (Forall_inv H)].
  - apply IH. exact (Forall_inv_tail H).
Qed.

(* what the caller observes, up to columns *)
Definition psimc (r r' : presult) : Prop :=
  match r, r' with
  | POk d m1 _ n1, POk d' m1' _ n1' => ce_doc d = ce_doc d' /\ msim m1 m1' /\ n1 = n1'
  | PErr1 e m1 _ n1, PErr1 e' m1' _ n1' => ce_err e = ce_err e' /\ msim m1 m1' /\ n1 = n1'
  | PErrs _ _ _ _, PErrs _ _ _ _ => True
  | PCrash, PCrash => True
  | POutOfFuel, POutOfFuel => True
  | _, _ => False
  end.

Definition ipaired_run (xs : list itok) (m : mstate) (b : bstate) :=
  parse IA true xs (reset_matcher dialects m, reset_matcher dialects m, false) (reset_builder b).
Definition indent_safe (xs : list itok) (m : mstate) (b : bstate) : Prop := good iflag (ipaired_run xs m b).

Theorem indent_tokens xs m b : Forall (fun x => twi (fst x) (snd x)) xs -> indent_safe xs m b ->
  psimc (presult_of (parse_tokens true (map fst xs) m b)) (presult_of (parse_tokens true (map snd xs) m b)).
Proof.
  intros Ok G. unfold indent_safe, ipaired_run in G. unfold parse_tokens, parse_tokens_with.
  rewrite <- !(parse_stop_indep (pipeline_params Table.table) no_dedupe). fold pipeline_nd.
  pose proof (parse_R _ _ ITRa _ _ IMRa _ _ eq _ _ ER IA pipeline_nd iparamsA_related true true (bool_R_refl true)
                xs (map fst xs) (ilist_fst xs) (reset_matcher dialects m, reset_matcher dialects m, false) (reset_matcher dialects m) eq_refl
                (reset_builder b) (reset_builder b) eq_refl) as Ra.
  pose proof (parse_R _ _ ITRb _ _ IMRb _ _ BRc _ _ ERc IB pipeline_nd iparamsB_related true true (bool_R_refl true)
                xs (map snd xs) (ilist_snd xs Ok) (reset_matcher dialects m, reset_matcher dialects m, false) (reset_matcher dialects m)
                (conj eq_refl (msim_refl _)) (reset_builder b) (reset_builder b) eq_refl) as Rb.
  rewrite (IAB_agree true xs _ _ G) in Rb.
  apply (res_R_oute ITRa IMRa eq ER) in Ra. apply (res_R_oute ITRb IMRb BRc ERc) in Rb.
  destruct (parse IA true xs (reset_matcher dialects m, reset_matcher dialects m, false) (reset_builder b)) as [[] cA|eA cA|esA cA|cA|];
    destruct (parse pipeline_nd true (map fst xs) (reset_matcher dialects m) (reset_builder b)) as [[] c|e c|es c|c|];
    cbn [oute_rel] in Ra; try contradiction;
    destruct (parse pipeline_nd true (map snd xs) (reset_matcher dialects m) (reset_builder b)) as [[] c'|e' c'|es' c'|c'|];
    cbn [oute_rel] in Rb; try contradiction; cbn [presult_of psimc]; try exact I.
  - destruct Ra as (M1 & B1 & C1). destruct Rb as ([M2 Ms] & B2 & C2). unfold IMRa in M1. rewrite <- B1.
    pose proof (builder_result_crel _ _ B2) as D. destruct (builder_result (bs cA)), (builder_result (bs c')); cbn [option_map] in D; try discriminate D; [|exact I].
    cbn [psimc]. split; [congruence|]. split; [rewrite <- M1, <- M2; exact Ms | congruence].
  - destruct Ra as (E1 & M1 & B1 & C1). destruct Rb as (E2 & [M2 Ms] & B2 & C2). unfold IMRa, ER in *. subst e.
    split; [exact E2|]. split; [rewrite <- M1, <- M2; exact Ms | congruence].
Qed.

(* ---- sources ---- *)
Fixpoint ipair_lines (ls ls' : list str) (n : nat) : list itok :=
  match ls, ls' with
  | a :: r, b :: r' => (raw_token a n, raw_token b n) :: ipair_lines r r' (S n)
  | _, _ => []
  end.
Definition same_text (a b : str) : Prop := lstrip a = lstrip b.

Lemma ipair_lines_spec : forall ls ls', Forall2 same_text ls ls' -> forall n,
  map fst (ipair_lines ls ls' n) = number_lines ls n /\ map snd (ipair_lines ls ls' n) = number_lines ls' n
  /\ Forall (fun x => twi (fst x) (snd x)) (ipair_lines ls ls' n).
Proof.
  induction 1 as [|a b ls ls' R H IH]; intros n; cbn [ipair_lines number_lines map]; [repeat split; constructor|].
  destruct (IH (S n)) as (I1 & I2 & I3). rewrite I1, I2. cbn [fst snd]. split; [reflexivity|]. split; [reflexivity|].
  constructor; [|exact I3]. cbn [fst snd]. split; [reflexivity|]. cbn. split; [exact R | reflexivity].
Qed.

(* two sources whose physical lines differ at most in their leading whitespace: stop mode *)
Theorem indentation_neutral m b src src' :
  Forall2 same_text (py_lines src) (py_lines src') ->
  indent_safe (ipair_lines (py_lines src) (py_lines src') 1) m b ->
  psimc (parse_source true m b src) (parse_source true m b src').
Proof.
  intros R G. rewrite !parse_source_of. unfold scan.
  destruct (ipair_lines_spec _ _ R 1) as (E1 & E2 & Ok). rewrite <- E1, <- E2. apply indent_tokens; assumption.
Qed.

(* the flag of the paired run, as a boolean (for examples) *)
Definition iflag_down {A} (r : res itok ims bstate perror A) : bool :=
  match r with
  | Ok _ c | Raise1 _ c | RaiseC _ c | Crash c => negb (iflag (ms c))
  | OutOfFuel => false
  end.
Lemma iflag_down_good {A} (r : res itok ims bstate perror A) : iflag_down r = true -> good iflag r.
Proof. destruct r; cbn; try discriminate; intros H; now apply negb_true_iff in H. Qed.
Definition same_textb (a b : str) : bool := str_eqb (lstrip a) (lstrip b).
Lemma same_textb_ok a b : same_textb a b = true -> same_text a b.
Proof. apply str_eqb_eq. Qed.
