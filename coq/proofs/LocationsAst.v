(* C04 lifted to whole ASTs: every element of the AST of an accepted document sits at the physical line it was
   read from, at the column where that line's keyword / tag / row starts, and carries what the line says there. *)
From Coq Require Import List Bool Arith NArith Lia.
Import ListNotations.
Require Import Kinds PyStr Line Matcher MatcherFacts Ast Builder BuilderSafe MatcherTyping Pipeline PipelineFacts Dialects
               LocationFacts Delivery DeliveryInst DenseMain ConserveDefs ConserveMain.

(* get_location(token, column): column 0 / None means the token's own column *)
Definition loc_at (n dflt c : nat) : loc := match c with S _ => mk_loc n (Some c) | 0 => mk_loc n (Some dflt) end.

(* what an element read from physical line l (number n) looks like *)
Definition elem_at (l : gline) (n : nat) (e : elem) : Prop :=
  match e with
  | ELine k loc kw tx =>
    loc = mk_loc n (Some (l_indent l + 1))
    /\ (if kind_beq k KStepLine
        then line_startswith l kw = true /\ tx = rstrip_crlf (get_rest_trimmed l (length kw))
        else startswith_title_keyword l kw = true /\ tx = rstrip_crlf (get_rest_trimmed l (length kw + 1)))
  | ETag loc name =>
    exists c res, line_startswith l [AT] = true /\ line_tags l = TagsOk res /\ In (c, name) res /\ loc = mk_loc n (Some c)
  | ERow loc cells =>
    loc = mk_loc n (Some (l_indent l + 1)) /\ line_startswith l [PIPE] = true
    /\ cells = map (fun it => mk_cell (loc_at n (l_indent l + 1) (fst it)) (snd it)) (table_cells l)
  | EText _ => True       (* free text carries no location *)
  | EDoc loc delim media =>
    loc = mk_loc n (Some (l_indent l + 1)) /\ line_startswith l delim = true
    /\ media = match rstrip_crlf (get_rest_trimmed l (length delim)) with [] => None | mt => Some mt end
  end.

Lemma first_title_keyword_some l ks k : first_title_keyword l ks = Some k -> In k ks /\ startswith_title_keyword l k = true.
Proof.
  induction ks as [|k0 ks IH]; cbn; [discriminate|]. destruct (startswith_title_keyword l k0) eqn:E.
  - intros H. inversion H; subst. auto.
  - intros H. destruct (IH H). auto.
Qed.
Lemma first_prefix_some l ks k : first_prefix l ks = Some k -> In k ks /\ line_startswith l k = true.
Proof.
  induction ks as [|k0 ks IH]; cbn; [discriminate|]. destruct (line_startswith l k0) eqn:E.
  - intros H. inversion H; subst. auto.
  - intros H. destruct (IH H). auto.
Qed.

Lemma title_elem_at m t0 l n ty ks t m' : tk_line t0 = Some l -> loc_line (tk_loc t0) = n ->
  In ty [KFeatureLine; KRuleLine; KBackgroundLine; KScenarioLine; KExamplesLine] ->
  match_title_line m t0 l ty ks = MYes t m' -> Forall (elem_at l n) (tok_elems ty t).
Proof.
  intros L N Hty. unfold match_title_line. destruct (first_title_keyword l ks) as [k|] eqn:F; [|discriminate].
  intros H. inversion H; subst t m'. clear H. destruct (first_title_keyword_some _ _ _ F) as [_ St].
  assert (E : tok_elems ty (set_matched m t0 ty (Some (get_rest_trimmed l (length k + 1))) (Some k) None None [])
              = [ELine ty (mk_loc (loc_line (tk_loc t0)) (Some (l_indent l + 1))) k (rstrip_crlf (get_rest_trimmed l (length k + 1)))]).
  { cbn in Hty. unfold tok_elems, set_matched, get_location. cbn [m_keyword m_text option_map tk_loc tk_line]. rewrite L.
    repeat (destruct Hty as [<-|Hty]; [reflexivity|]). contradiction. }
  rewrite E, N. constructor; [|constructor]. cbn [elem_at]. split; [reflexivity|].
  assert (Ns : kind_beq ty KStepLine = false) by (cbn in Hty; repeat (destruct Hty as [<-|Hty]; [reflexivity|]); contradiction).
  rewrite Ns. auto.
Qed.

Theorem matcher_elems_at ds k m t0 l n t m' : tk_line t0 = Some l -> loc_line (tk_loc t0) = n ->
  matcher ds k m t0 = MYes t m' -> Forall (elem_at l n) (tok_elems k t).
Proof.
  intros L <-. unfold matcher. rewrite L.
  destruct k; try (intros _; apply Forall_nil).
  all: try (intros _; unfold tok_elems; destruct (m_text t); [|constructor]; apply Forall_forall; intros e He; unfold text_elems in He; apply in_map_iff in He as [x [<- _]]; exact I).
  - (* TagLine *)
    destruct (line_startswith l [AT]) eqn:St; [|discriminate]. destruct (line_tags l) as [items|c] eqn:Lt; [|discriminate].
    intros H. inversion H; subst t m'. clear H. unfold tok_elems, set_matched. cbn [m_items].
    apply Forall_forall. intros e He. apply in_map_iff in He as [[c v] [<- Hin]]. cbn [fst snd elem_at].
    exists c, items. repeat split; auto.
    destruct (line_tags_columns l items c v St Lt Hin) as (pre & post & _ & Hc & _).
    unfold get_location. cbn [tk_loc loc_line]. destruct c; [lia | reflexivity].
  - eapply title_elem_at; eauto; cbn; tauto.
  - eapply title_elem_at; eauto; cbn; tauto.
  - eapply title_elem_at; eauto; cbn; tauto.
  - (* ScenarioLine: two keyword lists *)
    destruct (match_title_line m t0 l KScenarioLine (d_scenario (ms_dialect m))) as [|t1 m1|e t1 m1] eqn:M1.
    + intros H. eapply (title_elem_at m t0 l (loc_line (tk_loc t0)) KScenarioLine); eauto; cbn; tauto.
    + intros H. inversion H; subst. eapply (title_elem_at m t0 l (loc_line (tk_loc t0)) KScenarioLine); eauto; cbn; tauto.
    + discriminate.
  - eapply title_elem_at; eauto; cbn; tauto.
  - (* StepLine *)
    destruct (first_prefix l (step_keywords (ms_dialect m))) as [kw|] eqn:F; [|discriminate].
    intros H. inversion H; subst t m'. clear H. destruct (first_prefix_some _ _ _ F) as [_ St].
    unfold tok_elems, set_matched, get_location. cbn [m_keyword m_text option_map tk_loc tk_line]. rewrite L.
    constructor; [|constructor]. cbn [elem_at kind_beq]. auto.
  - (* DocStringSeparator *)
    assert (Open : forall sep, match_docsep m t0 l sep true = MYes t m' -> Forall (elem_at l (loc_line (tk_loc t0))) (tok_elems KDocStringSeparator t)).
    { intros sep. unfold match_docsep. destruct (line_startswith l sep) eqn:St; [|discriminate]. intros H. inversion H; subst t m'. clear H.
      unfold tok_elems, set_matched, get_location. cbn [m_text m_keyword option_map tk_loc tk_line]. rewrite L.
      constructor; [|constructor]. cbn [elem_at]. split; [reflexivity|]. split; [exact St|]. destruct (rstrip_crlf _); reflexivity. }
    destruct (ms_sep m) as [sep|].
    + unfold match_docsep. destruct (line_startswith l sep); [|discriminate]. intros H. inversion H; subst t m'. cbn. constructor.
    + destruct (match_docsep m t0 l DQ3 true) as [|t1 m1|e t1 m1] eqn:M1.
      * apply Open.
      * intros H. inversion H; subst. apply (Open DQ3 M1).
      * discriminate.
  - (* TableRow *)
    destruct (line_startswith l [PIPE]) eqn:St; [|discriminate].
    intros H. inversion H; subst t m'. clear H. unfold tok_elems, set_matched, get_location, get_cells. cbn [m_items tk_loc tk_line loc_line]. rewrite L.
    constructor; [|constructor]. cbn [elem_at]. split; [reflexivity|]. split; [exact St|].
    apply map_ext. intros [c v]. cbn [fst snd]. unfold get_location, loc_at. cbn [tk_loc loc_line]. destruct c; reflexivity.
Qed.

Lemma in_source_keys src key : In key (source_keys src) ->
  (exists i text, nth_error (py_lines src) i = Some text /\ key = (Some (make_line text (S i)), S i))
  \/ fst key = None.
Proof.
  unfold source_keys. intros H. apply in_app_or in H as [H|[<-|[]]]; [|right; reflexivity]. left.
  apply in_map_iff in H as [[text n] [<- Hin]]. cbn [fst snd].
  apply In_nth_error in Hin as [i Hi].
  assert (Hn : nth_error (py_lines src) i = Some text /\ nth_error (seq 1 (length (py_lines src))) i = Some n).
  { revert Hi. generalize (py_lines src) 1. intros ls. revert i. induction ls as [|x ls IH]; intros i s0 Hi; cbn in *.
    - destruct i; discriminate.
    - destruct i; cbn in *; [inversion Hi; auto | apply (IH i (S s0) Hi)]. }
  destruct Hn as [H1 H2]. assert (n = S i).
  { assert (i < length (py_lines src)) by (apply nth_error_Some; congruence).
    rewrite nth_error_nth' with (d := 0) in H2 by (rewrite seq_length; exact H). rewrite seq_nth in H2 by exact H. inversion H2. lia. }
  subst n. exists i, text. auto.
Qed.

(* every element of the AST of an accepted source: read from one physical line of the source, located there *)
Theorem ast_elements_located stop m b src d m1 b1 n : wf_ms m -> parse_source stop m b src = POk d m1 b1 n ->
  Forall (fun e => exists i text, nth_error (py_lines src) i = Some text /\ elem_at (make_line text (S i)) (S i) e) (doc_elems d).
Proof.
  intros W H. destruct (source_conservation _ _ _ _ _ _ _ _ W H) as (kts & Hk & Hm & He & _). rewrite He.
  apply Forall_forall. intros e Hin. apply in_flat_map in Hin as [[k t] [Hkt Hel]]. unfold kt_elems in Hel. cbn [fst snd] in Hel.
  rewrite Forall_forall in Hm. destruct (Hm _ Hkt) as [_ (m0 & m' & _ & Mm)]. cbn [fst snd] in Mm.
  assert (Hkey : In (tkey t) (source_keys src)).
  { rewrite <- Hk. apply in_map_iff. exists (k, t). auto. }
  apply in_source_keys in Hkey as [(i & text & Hn & Hkey)|Hnone].
  - unfold tkey in Hkey. inversion Hkey as [[K1 K2]]. exists i, text. split; [exact Hn|].
    assert (A : Forall (elem_at (make_line text (S i)) (S i)) (tok_elems k t)).
    { eapply (matcher_elems_at dialects k m0 (canon t)); eauto. }
    rewrite Forall_forall in A. apply A, Hel.
  - (* the EOF token carries no element *)
    unfold tkey in Hnone. cbn in Hnone. exfalso. unfold matcher in Mm. cbn [canon tk_line] in Mm. rewrite Hnone in Mm.
    destruct k; try discriminate. exact Hel.
Qed.

(* comments: the whole physical line (terminator removed), at column 1 of its line *)
Definition comment_at (l : gline) (n : nat) (c : comment) : Prop :=
  cm_loc c = mk_loc n (Some 1) /\ cm_text c = rstrip_crlf (l_text l) /\ line_startswith l [HASH] = true.

Lemma matcher_comments_at ds k m t0 l t m' : tk_line t0 = Some l ->
  matcher ds k m t0 = MYes t m' -> Forall (comment_at l (loc_line (tk_loc t0))) (tok_comment k t).
Proof.
  intros L. unfold tok_comment. destruct k; try (intros _; apply Forall_nil).
  unfold matcher. rewrite L. destruct (line_startswith l [HASH]) eqn:St; [|discriminate].
  intros H. inversion H; subst t m'. clear H. unfold set_matched, get_location. cbn [m_text option_map tk_loc].
  constructor; [|constructor]. unfold comment_at. cbn. auto.
Qed.

Theorem ast_comments_located stop m b src d m1 b1 n : wf_ms m -> parse_source stop m b src = POk d m1 b1 n ->
  Forall (fun c => exists i text, nth_error (py_lines src) i = Some text /\ comment_at (make_line text (S i)) (S i) c) (doc_comments d).
Proof.
  intros W H. destruct (source_conservation _ _ _ _ _ _ _ _ W H) as (kts & Hk & Hm & _ & Hc). rewrite Hc.
  apply Forall_forall. intros e Hin. apply in_flat_map in Hin as [[k t] [Hkt Hel]]. unfold kt_comments in Hel. cbn [fst snd] in Hel.
  rewrite Forall_forall in Hm. destruct (Hm _ Hkt) as [_ (m0 & m' & _ & Mm)]. cbn [fst snd] in Mm.
  assert (Hkey : In (tkey t) (source_keys src)).
  { rewrite <- Hk. apply in_map_iff. exists (k, t). auto. }
  apply in_source_keys in Hkey as [(i & text & Hn & Hkey)|Hnone].
  - unfold tkey in Hkey. inversion Hkey as [[K1 K2]]. exists i, text. split; [exact Hn|].
    assert (A : Forall (comment_at (make_line text (S i)) (S i)) (tok_comment k t)).
    { rewrite <- K2 at 2. replace (loc_line (tk_loc t)) with (loc_line (tk_loc (canon t))) by reflexivity.
      eapply (matcher_comments_at dialects k m0 (canon t)); eauto. }
    rewrite Forall_forall in A. apply A, Hel.
  - unfold tkey in Hnone. cbn in Hnone. exfalso. unfold matcher in Mm. cbn [canon tk_line] in Mm. rewrite Hnone in Mm.
    destruct k; try discriminate. exact Hel.
Qed.
