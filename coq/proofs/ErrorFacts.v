(* C14 / C01: the error list of the generic interpreter -- identical messages are reported once,
   at most error_cap + 1 errors, a composite exception is never empty; Ok only with no error. *)
From Coq Require Import List Bool Arith Lia.
Import ListNotations.
Require Import Kinds Automaton AutoFacts InterpInv.

Section Errors.
  Context {Tok MS BS Err : Type}.
  Variable P : params Tok MS BS Err.
  Notation ctx := (ctx Tok MS BS Err).

  (* every error differs (by message) from all earlier ones *)
  Definition ndm (l : list Err) : Prop :=
    forall l1 e l2, l = l1 ++ e :: l2 -> existsb (err_same_msg P e) l1 = false.

  Lemma ndm_nil : ndm [].
  Proof. intros l1 e l2 H. destruct l1; discriminate. Qed.

  Lemma ndm_snoc l e : ndm l -> existsb (err_same_msg P e) l = false -> ndm (l ++ [e]).
  Proof.
    intros N F l1 x l2 H.
    destruct l2 as [|y l2].
    - change (l1 ++ [x]) with (l1 ++ [x]) in H. apply app_inj_tail in H as [-> ->]. exact F.
    - assert (E : l = l1 ++ x :: removelast (y :: l2)).
      { apply (f_equal (@removelast _)) in H. rewrite removelast_last in H.
        rewrite H. rewrite removelast_app by discriminate. reflexivity. }
      eapply N. exact E.
  Qed.

  Definition JE (c : ctx) : Prop := ndm (errs c) /\ length (errs c) <= error_cap P.
  Definition EE (c : ctx) : Prop := ndm (errs c) /\ length (errs c) <= S (error_cap P).

  Lemma add_error_JE e c : JE c -> holds2 JE EE (add_error P e c).
  Proof.
    intros [N L]. unfold holds2, add_error. destruct (existsb _ _) eqn:F; [split; assumption|].
    assert (N' : ndm (errs c ++ [e])) by (apply ndm_snoc; assumption).
    assert (L' : length (errs c ++ [e]) = S (length (errs c))) by (rewrite app_length; cbn [length]; lia).
    destruct (error_cap P <? length (errs (set_errs (errs c ++ [e]) c))) eqn:C; simpl in *.
    - split; [unfold EE; simpl; split; [exact N' | lia]|]. split; [reflexivity | destruct (errs c); discriminate].
    - apply Nat.ltb_ge in C. unfold JE; simpl. split; [exact N' | lia].
  Qed.

  Theorem parse_errors stop toks m b :
    match parse P stop toks m b with
    | Ok _ c => errs c = []
    | RaiseC es c => es = errs c /\ ndm es /\ 1 <= length es <= S (error_cap P)
    | _ => True
    end.
  Proof.
    assert (T : match parse P stop toks m b with
                | Ok _ c => JE c /\ errs c = []
                | Raise1 _ c | Crash c => EE c
                | RaiseC es c => EE c /\ es = errs c /\ es <> []
                | OutOfFuel => True
                end).
    { apply (parse_J2 P JE EE).
      - intros c [N L]. split; [exact N | lia].
      - intros q c H. exact H.
      - intros c H. unfold read. destruct (queue c); [destruct (rest c)|]; exact H.
      - intros c H. exact H.
      - intros e c H. exact H.
      - exact add_error_JE.
      - intros k t c H. destruct (matchf P k (ms c) t); exact H.
      - intros r c H. destruct (b_start P r (bs c)); auto.
      - intros r c H. destruct (b_end P r (bs c)); auto.
      - intros t c H. destruct (b_build P t (bs c)); auto.
      - split; [apply ndm_nil | simpl; lia]. }
    destruct (parse P stop toks m b) as [a c|e c|es c|c|]; auto; [tauto|].
    destruct T as [[N L] [-> NE]]. repeat split; auto.
    destruct (errs c); [congruence | simpl; lia].
  Qed.

  (* stop-at-first-error mode never collects: no composite exception, and a normal return has no error *)
End Errors.

(* in collecting mode no single ParserException ever propagates: errors are collected *)
Section NoRaise1.
  Context {Tok MS BS Err : Type}.
  Variable P : params Tok MS BS Err.
  Notation ctx := (ctx Tok MS BS Err).
  Notation res := (res Tok MS BS Err).
  Definition nr1 {A} (r : res A) : Prop := match r with Raise1 _ _ => False | _ => True end.
  Lemma nr1_bind {A B} (r : res A) (f : A -> ctx -> res B) : nr1 r -> (forall a c, nr1 (f a c)) -> nr1 (bind r f).
  Proof. destruct r; simpl; auto. Qed.
  Lemma add_error_nr1 e c : nr1 (add_error P e c).
  Proof. unfold add_error. destruct (existsb _ _); simpl; auto. destruct (_ <? _); simpl; auto. Qed.
  Lemma match_k_nr1 k t c : nr1 (match_k P false k t c).
  Proof.
    unfold match_k. destruct (_ && _); simpl; auto. destruct (matchf P k (ms c) t); simpl; auto.
    apply nr1_bind; [apply add_error_nr1|]. intros; simpl; auto.
  Qed.
  Lemma any_match_nr1 ks : forall t c, nr1 (any_match P false ks t c).
  Proof.
    induction ks as [|k ks IH]; intros t c; simpl; auto.
    apply nr1_bind; [apply match_k_nr1|]. intros [b t'] c'. simpl. destruct b; simpl; auto.
  Qed.
  Lemma la_loop_nr1 h : forall fuel c acc, nr1 (la_loop P fuel false h c acc).
  Proof.
    induction fuel as [|f IH]; intros c acc; simpl; auto. destruct (read P c) as [t c1].
    apply nr1_bind; [apply any_match_nr1|]. intros [b t'] c2. simpl. destruct b; simpl; auto.
    apply nr1_bind; [apply any_match_nr1|]. intros [b' t''] c3. simpl. destruct b'; simpl; auto.
  Qed.
  Lemma lookahead_nr1 h c : nr1 (lookahead P false h c).
  Proof.
    unfold lookahead. destruct (find_la P h); [|exact I].
    apply nr1_bind; [apply la_loop_nr1|]. intros; exact I.
  Qed.
  Lemma b_call_nr1 f c : nr1 (b_call P false f c).
  Proof. unfold b_call. destruct (f (bs c)); simpl; auto. apply add_error_nr1. Qed.
  Lemma exec_nr1 t k : forall ps c, nr1 (exec P false t k ps c).
  Proof.
    induction ps as [|p ps IH]; intros c; simpl; auto.
    apply nr1_bind; [destruct p; apply b_call_nr1 | intros; apply IH].
  Qed.
  Lemma run_tests_nr1 : forall tests t c, nr1 (run_tests P false tests t c).
  Proof.
    induction tests as [|x xs IH]; intros t c; simpl; auto.
    apply nr1_bind; [apply match_k_nr1|]. intros [b t1] c1. simpl. destruct b; auto.
    destruct (t_guard x).
    - apply nr1_bind; [apply lookahead_nr1|]. intros g c2. destruct g; auto.
      apply nr1_bind; [apply exec_nr1|]. intros; simpl; auto.
    - apply nr1_bind; [apply exec_nr1|]. intros; simpl; auto.
  Qed.
  Lemma match_token_nr1 s t c : nr1 (match_token P false s t c).
  Proof.
    unfold match_token. destruct (find_state P s); simpl; auto.
    apply nr1_bind; [apply run_tests_nr1|]. intros [o t'] c1. simpl. destruct o; simpl; auto.
    apply nr1_bind; [apply add_error_nr1|]. intros; simpl; auto.
  Qed.
  Lemma loop_nr1 : forall fuel s c, nr1 (loop P fuel false s c).
  Proof.
    induction fuel as [|f IH]; intros s c; simpl; auto. destruct (read P c) as [t c1].
    apply nr1_bind; [apply match_token_nr1|]. intros s' c2. destruct (is_eof P t); simpl; auto.
  Qed.
  Theorem parse_nr1 toks m b : nr1 (parse P false toks m b).
  Proof.
    unfold parse. apply nr1_bind; [apply b_call_nr1|]. intros _ c1.
    apply nr1_bind; [apply loop_nr1|]. intros _ c2.
    apply nr1_bind; [apply b_call_nr1|]. intros _ c3. destruct (errs c3); exact I.
  Qed.
End NoRaise1.
