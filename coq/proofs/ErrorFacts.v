(* C14 / C01: the error list of the generic interpreter -- identical messages are reported once,
   at most error_cap + 1 errors, a composite exception is never empty; Ok only with no error. *)
From Coq Require Import List Bool Arith Lia.
Import ListNotations.
Require Import Kinds Automaton AutoFacts InterpInv.

Section Errors.
  Context {Tok MS BS Err : Type}.
  Variable P : params Tok MS BS Err.
  Notation ctx := (ctx Tok MS BS Err).

  (* every error differs (by message) from all earlier ones *)
  Definition ndm (l : list Err) : Prop :=
    forall l1 e l2, l = l1 ++ e :: l2 -> existsb (err_same_msg P e) l1 = false.

  Lemma ndm_nil : ndm [].
  Proof. intros l1 e l2 H. destruct l1; discriminate. Qed.

  Lemma ndm_snoc l e : ndm l -> existsb (err_same_msg P e) l = false -> ndm (l ++ [e]).
  Proof.
    intros N F l1 x l2 H.
    destruct l2 as [|y l2].
    - change (l1 ++ [x]) with (l1 ++ [x]) in H. apply app_inj_tail in H as [-> ->]. exact F.
    - assert (E : l = l1 ++ x :: removelast (y :: l2)).
      { apply (f_equal (@removelast _)) in H. rewrite removelast_last in H.
        rewrite H. rewrite removelast_app by discriminate. reflexivity. }
      eapply N. exact E.
  Qed.

  Definition JE (c : ctx) : Prop := ndm (errs c) /\ length (errs c) <= error_cap P.
  Definition EE (c : ctx) : Prop := ndm (errs c) /\ length (errs c) <= S (error_cap P).

  Lemma add_error_JE e c : JE c -> holds2 JE EE (add_error P e c).
  Proof.
    intros [N L]. unfold holds2, add_error. destruct (existsb _ _) eqn:F; [split; assumption|].
    assert (N' : ndm (errs c ++ [e])) by (apply ndm_snoc; assumption).
    assert (L' : length (errs c ++ [e]) = S (length (errs c))) by (rewrite app_length; cbn [length]; lia).
    destruct (error_cap P <? length (errs (set_errs (errs c ++ [e]) c))) eqn:C; simpl in *.
    - split; [unfold EE; simpl; split; [exact N' | lia]|]. split; [reflexivity | destruct (errs c); discriminate].
    - apply Nat.ltb_ge in C. unfold JE; simpl. split; [exact N' | lia].
  Qed.

  Theorem parse_errors stop toks m b :
    match parse P stop toks m b with
    | Ok _ c => errs c = []
    | RaiseC es c => es = errs c /\ ndm es /\ 1 <= length es <= S (error_cap P)
    | _ => True
    end.
  Proof.
    assert (T : match parse P stop toks m b with
                | Ok _ c => JE c /\ errs c = []
                | Raise1 _ c | Crash c => EE c
                | RaiseC es c => EE c /\ es = errs c /\ es <> []
                | OutOfFuel => True
                end).
    { apply (parse_J2 P JE EE).
      - intros c [N L]. split; [exact N | lia].
      - intros q c H. exact H.
      - intros c H. unfold read. destruct (queue c); [destruct (rest c)|]; exact H.
      - intros c H. exact H.
      - intros e c H. exact H.
      - exact add_error_JE.
      - intros k t c H. destruct (matchf P k (ms c) t); exact H.
      - intros r c H. destruct (b_start P r (bs c)); auto.
      - intros r c H. destruct (b_end P r (bs c)); auto.
      - intros t c H. destruct (b_build P t (bs c)); auto.
      - split; [apply ndm_nil | simpl; lia]. }
    destruct (parse P stop toks m b) as [a c|e c|es c|c|]; auto; [tauto|].
    destruct T as [[N L] [-> NE]]. repeat split; auto.
    destruct (errs c); [congruence | simpl; lia].
  Qed.

  (* stop-at-first-error mode never collects: no composite exception, and a normal return has no error *)
End Errors.
