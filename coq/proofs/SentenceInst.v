(* Every document the real pipeline accepts is a sentence of gherkin.berp: instance of Sentence.v for the regenerated
   table, the real matcher and the real builder. *)
From Coq Require Import List Bool Arith Lia.
Import ListNotations.
Require Import Kinds Regex Grammar RefSem Stub NFA Table Bisim PyStr Line Matcher Builder Automaton AutoFacts Pipeline PipelineFacts
               Dialects PathReplay Delivery DeliveryInst DenseMain Sentence.

Notation rP := (pipeline_params Table.table).

Lemma table_in_nfa : test_in_nfa rP = true.
Proof. vm_compute. reflexivity. Qed.
Lemma table_eof_leaves : eof_leaves rP = true.
Proof. vm_compute. reflexivity. Qed.

(* the kinds under which the lines of an accepted run were handed to the builder, the end of file last *)
Definition run_kinds (c : Pipeline.pctx) : list kind := built_kinds (events c).

Theorem pipeline_sentence stop toks m b c : wf_ms m -> parse_tokens stop toks m b = Ok tt c ->
  runR G (run_kinds c) = true.
Proof.
  intros W H. unfold parse_tokens, parse_tokens_with in H.
  destruct (path_replay rP wf_ms wf_ms_kept quiet_p p_fail p_raise p_quiet p_la p_guard tok_step pipe_step pipe_eof' _ _ _ _ _ (proj1 (reset_matcher_wf' m W)) H)
    as (b1 & s & b2 & l & m2 & _ & R & He & _ & Hev).
  unfold run_kinds. rewrite Hev. unfold built_kinds. cbn [flat_map app]. rewrite flat_map_app. cbn [flat_map app]. rewrite app_nil_r.
  change (flat_map _ (path_events l)) with (built_kinds (path_events l)).
  rewrite (reach_built rP tok_step builds_once_table _ _ _ _ _ _ R).
  rewrite <- nfa_language_eq. exact (reach_accepted rP tok_step table_in_nfa table_eof_leaves _ _ _ _ _ _ R He).
Qed.
