(* C16: trailing blanks.  What the token matcher computes from a physical line does not depend on the run
   of whitespace at the end of the line (blanks, tabs, the terminator) -- for every question except three:
   "is this free text?" (Other keeps the text), "is this a comment?" on a comment line (the comment text is
   the whole line), and "is this a step?" when the dialect's keyword test itself changes its answer
   (a line that is a step keyword with its final blank cut off).  Generalises TerminatorFacts from runs of
   CR / LF to runs of any whitespace. *)
From Coq Require Import String List Bool Arith NArith Lia.
Import ListNotations.
Require Import Kinds PyStr Line Matcher ReplaceSpec LayoutFacts TerminatorFacts BuilderErase PipelineFacts Dialects.

Local Open Scope N_scope.

Definition all_space (t : str) : Prop := forallb is_space t = true.

Lemma all_space_skipn k t : all_space t -> all_space (skipn k t).
Proof.
  unfold all_space. revert k. induction t as [|c t IH]; intros k H; [destruct k; exact H|].
  destruct k; [exact H|]. simpl in *. apply andb_prop in H as [_ H]. apply IH, H.
Qed.
Lemma all_crlf_space t : all_crlf t -> all_space t.
Proof. apply all_crlf_spaces. Qed.

(* the last character of p, if any, is not whitespace *)
Fixpoint ens (p : str) : bool :=
  match p with
  | [] => true
  | [a] => negb (is_space a)
  | _ :: p' => ens p'
  end.
Lemma ens_snoc p x : is_space x = false -> ens (p ++ [x]) = true.
Proof.
  intros H. induction p as [|a p IH]; cbn [app ens]; [now rewrite H|].
  destruct (p ++ [x]) eqn:E; [destruct p; discriminate E | exact IH].
Qed.
Lemma sw_all_space p tl : all_space tl -> starts_with p tl = true -> all_space p.
Proof.
  unfold all_space. revert tl. induction p as [|a p IH]; intros tl Ht H; [reflexivity|].
  destruct tl as [|y tl]; [discriminate H|]. cbn [starts_with] in H. apply andb_prop in H as [E H]. apply N.eqb_eq in E. subst y.
  cbn [forallb] in *. apply andb_prop in Ht as [Ha Ht]. rewrite Ha. exact (IH tl Ht H).
Qed.
Lemma ens_not_space p : p <> [] -> ens p = true -> all_space p -> False.
Proof.
  unfold all_space. induction p as [|a p IH]; intros Np E H; [congruence|].
  cbn [forallb] in H. apply andb_prop in H as [Ha Hp]. destruct p as [|b p].
  - cbn [ens] in E. rewrite Ha in E. discriminate E.
  - apply IH; [discriminate | exact E | exact Hp].
Qed.
Lemma sw_wtail p : ens p = true -> forall x tl, all_space tl -> starts_with p (x ++ tl) = starts_with p x.
Proof.
  induction p as [|a p IH]; intros Hp x tl Ht; [reflexivity|].
  destruct x as [|b x]; cbn [app].
  - destruct (starts_with (a :: p) tl) eqn:S; [|reflexivity]. exfalso.
    apply (ens_not_space (a :: p)); [discriminate | exact Hp | exact (sw_all_space _ _ Ht S)].
  - cbn [starts_with]. rewrite (IH ltac:(destruct p; [reflexivity | exact Hp]) x tl Ht). reflexivity.
Qed.

Lemma lstrip_wtail c tl : all_space tl ->
  lstrip (c ++ tl) = if forallb is_space c then [] else lstrip c ++ tl.
Proof.
  intros H. unfold lstrip. destruct (forallb is_space c) eqn:B.
  - rewrite (drop_while_app_all _ _ _ B). apply drop_while_all, H.
  - apply drop_while_app_not, B.
Qed.
Lemma strip_skipn_wtail k w tl : all_space tl -> strip (skipn k (w ++ tl)) = strip (skipn k w).
Proof. intros H. rewrite skipn_app_tail. apply strip_app_spaces, all_space_skipn, H. Qed.

Local Close Scope N_scope.

Section WLine.
  Variable c : str.
  Variable n : nat.
  Variable tl : str.
  Hypothesis Ht : all_space tl.
  Let l := make_line (c ++ tl) n.
  Let l0 := make_line c n.

  Lemma trimmed_wtail : l_trimmed l = if is_blank_text c then [] else l_trimmed l0 ++ tl.
  Proof. unfold l, l0, make_line. cbn [l_trimmed]. apply lstrip_wtail, Ht. Qed.
  Lemma indent_wtail : is_blank_text c = false -> l_indent l = l_indent l0.
  Proof.
    intros B. unfold l, l0, make_line. cbn [l_indent]. rewrite (lstrip_wtail c tl Ht). unfold is_blank_text in B. rewrite B.
    rewrite !app_length. pose proof (lstrip_length c). lia.
  Qed.
  Lemma empty_wtail : line_is_empty l = line_is_empty l0.
  Proof.
    unfold line_is_empty. rewrite trimmed_wtail. destruct (is_blank_text c) eqn:B.
    - unfold l0. now rewrite (trimmed0_blank c n B).
    - pose proof (trimmed0_nonblank c n B) as H. unfold l0. destruct (l_trimmed (make_line c n)); [congruence | reflexivity].
  Qed.
  Lemma startswith_wtail p : ens p = true -> line_startswith l p = line_startswith l0 p.
  Proof.
    intros Np. unfold line_startswith. rewrite trimmed_wtail. destruct (is_blank_text c) eqn:B.
    - unfold l0. now rewrite (trimmed0_blank c n B).
    - apply sw_wtail; assumption.
  Qed.
  Lemma title_wtail k : startswith_title_keyword l k = startswith_title_keyword l0 k.
  Proof.
    unfold startswith_title_keyword. change (starts_with (k ++ [COLON]) (l_trimmed l)) with (line_startswith l (k ++ [COLON])).
    rewrite startswith_wtail; [reflexivity | apply ens_snoc; reflexivity].
  Qed.
  Lemma rest_wtail k : get_rest_trimmed l k = get_rest_trimmed l0 k.
  Proof.
    unfold get_rest_trimmed. rewrite trimmed_wtail. destruct (is_blank_text c) eqn:B.
    - unfold l0. now rewrite (trimmed0_blank c n B).
    - apply strip_skipn_wtail, Ht.
  Qed.
  Lemma strip_trimmed_wtail : strip (l_trimmed l) = strip (l_trimmed l0).
  Proof.
    rewrite trimmed_wtail. destruct (is_blank_text c) eqn:B.
    - unfold l0. now rewrite (trimmed0_blank c n B).
    - apply strip_app_spaces, Ht.
  Qed.
  Lemma table_cells_wtail : table_cells l = table_cells l0.
  Proof.
    unfold table_cells. rewrite strip_trimmed_wtail. destruct (is_blank_text c) eqn:B.
    - unfold l0. rewrite (trimmed0_blank c n B). reflexivity.
    - rewrite (indent_wtail B). reflexivity.
  Qed.
  Lemma line_tags_wtail : line_tags l = line_tags l0.
  Proof.
    unfold line_tags. rewrite strip_trimmed_wtail. destruct (is_blank_text c) eqn:B.
    - unfold l0. rewrite (trimmed0_blank c n B). reflexivity.
    - rewrite (indent_wtail B). reflexivity.
  Qed.
End WLine.

(* ---- the language header pattern ---- *)
Local Open Scope N_scope.
Lemma space_not_lang y : is_space y = true -> is_lang_char y = false.
Proof.
  unfold is_space, is_lang_char. intros H. apply not_true_is_false. intros L.
  repeat rewrite ?orb_true_iff, ?andb_true_iff, ?N.leb_le, ?N.eqb_eq in H.
  repeat rewrite ?orb_true_iff, ?andb_true_iff, ?N.leb_le, ?N.eqb_eq in L. lia.
Qed.
Local Close Scope N_scope.

Lemma take_while_wtail a tl : all_space tl -> take_while is_lang_char (a ++ tl) = take_while is_lang_char a.
Proof.
  intros H. induction a as [|x a IH]; simpl.
  - destruct tl as [|y t]; [reflexivity|]. unfold all_space in H. simpl in H. apply andb_prop in H as [Hy _]. simpl.
    now rewrite (space_not_lang y Hy).
  - destruct (is_lang_char x); [now rewrite IH | reflexivity].
Qed.
Lemma dw_wtail a tl : all_space tl -> drop_while is_space (a ++ tl) = if forallb is_space a then [] else drop_while is_space a ++ tl.
Proof. exact (lstrip_wtail a tl). Qed.

Lemma language_header_wtail w tl : all_space tl -> language_header (w ++ tl) = language_header w.
Proof.
  intros Ht. unfold language_header. rewrite (dw_wtail w tl Ht).
  destruct (forallb is_space w) eqn:B1; [now rewrite (drop_while_all _ _ B1)|].
  pose proof (drop_while_not_nil _ _ B1) as N1. destruct (drop_while is_space w) as [|x s2]; [congruence|]. cbn [app].
  destruct (N.eqb x HASH); [|reflexivity].
  rewrite (dw_wtail s2 tl Ht). destruct (forallb is_space s2) eqn:B2; [now rewrite (drop_while_all _ _ B2)|].
  rewrite (sw_wtail (s2l "language") eq_refl _ _ Ht).
  destruct (starts_with (s2l "language") (drop_while is_space s2)) eqn:S; [|reflexivity].
  apply starts_with_spec in S as [b Hb]. rewrite Hb. rewrite <- app_assoc.
  change 8 with (length (s2l "language")). rewrite !skipn_app_exact.
  rewrite (dw_wtail b tl Ht). destruct (forallb is_space b) eqn:B3; [now rewrite (drop_while_all _ _ B3)|].
  pose proof (drop_while_not_nil _ _ B3) as N3. destruct (drop_while is_space b) as [|y s5]; [congruence|]. cbn [app].
  destruct (N.eqb y COLON); [|reflexivity].
  rewrite (dw_wtail s5 tl Ht). destruct (forallb is_space s5) eqn:B4; [now rewrite (drop_while_all _ _ B4)|].
  rewrite (take_while_wtail _ _ Ht).
  destruct (take_while is_lang_char (drop_while is_space s5)) as [|z name] eqn:Tn; [reflexivity|].
  rewrite skipn_app_tail.
  pose proof (take_while_length is_lang_char (drop_while is_space s5)) as Ln. rewrite Tn in Ln.
  replace (length (z :: name) - length (drop_while is_space s5)) with 0 by lia. cbn [skipn].
  rewrite forallb_app, Ht, andb_true_r. reflexivity.
Qed.

(* ---- the matcher ---- *)
Require Import MatcherFacts.

(* invariant of the matcher state: well formed, and an open doc string was opened by one of the two delimiters *)
Definition MIw (m : mstate) : Prop := wf_ms m /\ match ms_sep m with Some s => s = DQ3 \/ s = BT3 | None => True end.

Lemma matcher_MIw k m t : MIw m ->
  match matcher dialects k m t with
  | MNo => True
  | MYes _ m' | MErr _ _ m' => MIw m'
  end.
Proof.
  intros [W S]. pose proof (matcher_wf k m t W) as A. unfold MIw.
  destruct (matcher dialects k m t) as [|t1 m1|e t1 m1] eqn:M; [exact I | |]; destruct A as [A _]; (split; [exact A|]);
    unfold matcher in M; destruct k; destruct (tk_line t) as [l|] eqn:L; try discriminate M;
    unfold match_title_line, match_docsep in M;
    repeat match type of M with
           | context [if line_is_empty ?l then _ else _] => destruct (line_is_empty l)
           | context [if line_startswith ?l ?p then _ else _] => destruct (line_startswith l p)
           | context [match first_title_keyword ?l ?ks with _ => _ end] => destruct (first_title_keyword l ks)
           | context [match first_prefix ?l ?ks with _ => _ end] => destruct (first_prefix l ks)
           | context [match language_header ?s with _ => _ end] => destruct (language_header s)
           | context [match find_dialect ?ds ?n with _ => _ end] => destruct (find_dialect ds n)
           | context [match line_tags ?l with _ => _ end] => destruct (line_tags l)
           | context [match ms_sep ?m with _ => _ end] => destruct (ms_sep m) eqn:?
           end; try discriminate M; inversion M; subst; cbn [ms_sep]; auto.
Qed.

Definition mout_wrel (t : token) (l0 : gline) (o o0 : mout) : Prop :=
  match o, o0 with
  | MNo, MNo => True
  | MYes t1 m1, MYes t0 m0 => m1 = m0 /\ terase t1 = terase t0 /\ tk_line t1 = tk_line t /\ tk_line t0 = Some l0
  | MErr e t1 m1, MErr e0 t0 m0 => e = e0 /\ m1 = m0 /\ terase t1 = terase t0 /\ tk_line t1 = tk_line t /\ tk_line t0 = Some l0
  | _, _ => False
  end.

Section MatcherW.
  Variable c : str.
  Variable n : nat.
  Variable tl : str.
  Hypothesis Ht : all_space tl.
  Hypothesis Hc : is_blank_text c = false.
  Notation l := (make_line (c ++ tl) n).
  Notation l0 := (make_line c n).
  Variable m : mstate.
  Hypothesis Hm : MIw m.
  Variable t : token.
  Hypothesis Hl : tk_line t = Some l.
  Notation t0 := (with_line l0 t).

  Lemma wind_none : eff_ind t None = eff_ind t0 None.
  Proof. unfold eff_ind. rewrite Hl. cbn [tk_line with_line]. apply (indent_wtail c n tl Ht Hc). Qed.

  Lemma wyes ty text text' kw kt ind ind' items m1 :
    option_map rstrip_crlf text = option_map rstrip_crlf text' -> eff_ind t ind = eff_ind t0 ind' ->
    mout_wrel t l0 (MYes (set_matched m1 t ty text kw kt ind items) m1) (MYes (set_matched m1 t0 ty text' kw kt ind' items) m1).
  Proof.
    intros T I. cbn [mout_wrel]. split; [reflexivity|]. split; [apply sm_eq; [reflexivity | exact T | exact I]|]. split; reflexivity.
  Qed.

  Lemma wftk ks : first_title_keyword l ks = first_title_keyword l0 ks.
  Proof.
    induction ks as [|k ks IH]; cbn [first_title_keyword]; [reflexivity|].
    rewrite (title_wtail c n tl Ht k). destruct (startswith_title_keyword l0 k); [reflexivity | exact IH].
  Qed.
  Lemma wtitle ty ks : mout_wrel t l0 (match_title_line m t l ty ks) (match_title_line m t0 l0 ty ks).
  Proof.
    unfold match_title_line. rewrite wftk. destruct (first_title_keyword l0 ks) as [k|]; [|exact I].
    apply wyes; [now rewrite (rest_wtail c n tl Ht) | apply wind_none].
  Qed.
  Lemma wdocsep sep b : ens sep = true -> mout_wrel t l0 (match_docsep m t l sep b) (match_docsep m t0 l0 sep b).
  Proof.
    intros Ns. unfold match_docsep. rewrite (startswith_wtail c n tl Ht sep Ns).
    destruct (line_startswith l0 sep); [|exact I]. destruct b.
    - rewrite (indent_wtail c n tl Ht Hc), (rest_wtail c n tl Ht). apply wyes; [reflexivity | apply wind_none].
    - apply wyes; [reflexivity | apply wind_none].
  Qed.

  (* the questions whose answer may depend on the trailing whitespace *)
  Definition blind_ok (k : kind) : Prop :=
    match k with
    | KOther => False
    | KComment => line_startswith l0 [HASH] = false
    | KStepLine => first_prefix l (step_keywords (ms_dialect m)) = first_prefix l0 (step_keywords (ms_dialect m))
    | _ => True
    end.

  Theorem matcher_wtail k : blind_ok k -> mout_wrel t l0 (matcher dialects k m t) (matcher dialects k m t0).
  Proof.
    intros Bk. unfold matcher. rewrite Hl. cbn [tk_line with_line].
    destruct k; cbn [blind_ok] in Bk.
    - (* EOF *) exact I.
    - (* Empty *) rewrite (empty_wtail c n tl Ht). destruct (line_is_empty l0); [|exact I]. apply wyes; reflexivity.
    - (* Comment *) rewrite (startswith_wtail c n tl Ht [HASH] eq_refl), Bk. exact I.
    - (* TagLine *) rewrite (startswith_wtail c n tl Ht [AT] eq_refl). destruct (line_startswith l0 [AT]); [|exact I].
      rewrite (line_tags_wtail c n tl Ht). destruct (line_tags l0) as [items|col].
      + apply wyes; [reflexivity | apply wind_none].
      + cbn [mout_wrel]. repeat split; reflexivity.
    - apply wtitle.
    - apply wtitle.
    - apply wtitle.
    - (* ScenarioLine *)
      pose proof (wtitle KScenarioLine (d_scenario (ms_dialect m))) as R1.
      pose proof (wtitle KScenarioLine (d_scenarioOutline (ms_dialect m))) as R2.
      destruct (match_title_line m t l KScenarioLine (d_scenario (ms_dialect m))) as [|ta ma|ea ta ma],
               (match_title_line m t0 l0 KScenarioLine (d_scenario (ms_dialect m))) as [|tb mb|eb tb mb]; try contradiction; auto.
    - apply wtitle.
    - (* StepLine *) rewrite Bk. destruct (first_prefix l0 (step_keywords (ms_dialect m))) as [k|]; [|exact I].
      apply wyes; [now rewrite (rest_wtail c n tl Ht) | apply wind_none].
    - (* DocStringSeparator *)
      destruct (ms_sep m) as [sep|] eqn:Sp.
      + destruct Hm as [_ Ns]. rewrite Sp in Ns. apply wdocsep. destruct Ns as [-> | ->]; reflexivity.
      + pose proof (wdocsep DQ3 true eq_refl) as R1. pose proof (wdocsep BT3 true eq_refl) as R2.
        destruct (match_docsep m t l DQ3 true) as [|ta ma|ea ta ma], (match_docsep m t0 l0 DQ3 true) as [|tb mb|eb tb mb]; try contradiction; auto.
    - (* TableRow *) rewrite (startswith_wtail c n tl Ht [PIPE] eq_refl). destruct (line_startswith l0 [PIPE]); [|exact I].
      rewrite (table_cells_wtail c n tl Ht). apply wyes; [reflexivity | apply wind_none].
    - (* Language *)
      assert (E : language_header (get_line_text l None) = language_header (get_line_text l0 None)).
      { cbn [get_line_text]. rewrite (trimmed_wtail c n tl Ht), Hc. apply language_header_wtail, Ht. }
      rewrite E. destruct (language_header (get_line_text l0 None)) as [name|]; [|exact I].
      pose proof wind_none as In0.
      assert (Te : terase (set_matched m t KLanguage (Some name) None None None []) = terase (set_matched m t0 KLanguage (Some name) None None None []))
        by (apply sm_eq; [reflexivity | reflexivity | exact In0]).
      destruct (find_dialect dialects name) as [d|].
      + cbn [mout_wrel]. split; [reflexivity|]. split; [exact Te | split; reflexivity].
      + cbn [mout_wrel]. split; [|split; [reflexivity | split; [exact Te | split; reflexivity]]].
        f_equal. unfold set_matched. cbn [tk_loc]. unfold eff_ind in In0. rewrite Hl in *. cbn [tk_line with_line] in *. rewrite In0. reflexivity.
    - (* Other *) contradiction.
  Qed.
End MatcherW.
