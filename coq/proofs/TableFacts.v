(* Finite facts about the regenerated transition table, each decided by
   vm_compute: agreement with the sibling generated parsers, shape of the
   look-ahead, builds, error tails, expected-token lists. *)
From Coq Require Import List Bool Arith.
Import ListNotations.
Require Import Kinds Regex Grammar Stub Table Siblings.

(* ---- the transition function of a table ---- *)
Definition select (tests : list test) (k : kind) (g : nat -> bool) : option (kind * list prod * nat) :=
  match find (fun x => answers (t_kind x) (k, 0)
                       && match t_guard x with None => true | Some h => g h end) tests with
  | Some x => Some (t_kind x, t_prods x, t_tgt x)
  | None => None
  end.

Definition guards : list (nat -> bool) :=
  [fun _ => false; fun h => Nat.eqb h 0; fun h => Nat.eqb h 1; fun _ => true].

Definition sel_beq (a b : option (kind * list prod * nat)) : bool :=
  match a, b with
  | None, None => true
  | Some (k1, p1, t1), Some (k2, p2, t2) => kind_beq k1 k2 && list_beq prod_beq p1 p2 && Nat.eqb t1 t2
  | _, _ => false
  end.

Definition erase_end (p : prod) : prod := match p with PE _ => PE RGherkinDocument | _ => p end.
Definition erase_test (x : test) : test :=
  Build_test (t_kind x) (t_guard x) (map erase_end (t_prods x)) (t_tgt x).
Definition erase_table (t : list st) : list st :=
  map (fun x => Build_st (s_id x) (map erase_test (s_tests x)) (s_expected x) (s_err x)) t.

Definition find_in (t : list st) (s : nat) := find (fun x => Nat.eqb (s_id x) s) t.

(* same states, and in every state the same transition for every line kind and
   every outcome of the look-aheads, and the same state after an error *)
Definition same_transitions (a b : list st) : bool :=
  Nat.eqb (length a) (length b)
  && forallb (fun x =>
       match find_in b (s_id x) with
       | None => false
       | Some y =>
         Nat.eqb (s_err x) (s_err y)
         && forallb (fun k => forallb (fun g => sel_beq (select (s_tests x) k g) (select (s_tests y) k g)) guards)
                    all_kinds
       end) a.

Definition siblings_agree : bool :=
  Nat.eqb (length siblings_named + length siblings_anon) siblings_expected
  && forallb (fun s => same_transitions table (snd s)) siblings_named
  && forallb (fun s => same_transitions (erase_table table) (erase_table (snd s))) siblings_anon.

Lemma siblings_agree_ok : siblings_agree = true.
Proof. vm_compute. reflexivity. Qed.

(* expected-token lists: identical to every sibling's, and equal to the kinds
   of the state's tests with repetitions removed *)
Fixpoint dedup_kinds (l : list kind) (seen : list kind) : list kind :=
  match l with
  | [] => []
  | k :: r => if existsb (kind_beq k) seen then dedup_kinds r seen else k :: dedup_kinds r (k :: seen)
  end.

Definition expected_is_tests : bool :=
  forallb (fun x => list_beq kind_beq (s_expected x) (dedup_kinds (map t_kind (s_tests x)) [])) table.

Definition same_expected (a b : list st) : bool :=
  forallb (fun x => match find_in b (s_id x) with
                    | Some y => list_beq kind_beq (s_expected x) (s_expected y)
                    | None => false end) a.

Definition siblings_expected_agree : bool :=
  forallb (fun s => same_expected table (snd s)) (siblings_named ++ siblings_anon).

Lemma expected_is_tests_ok : expected_is_tests = true.
Proof. vm_compute. reflexivity. Qed.
Lemma siblings_expected_agree_ok : siblings_expected_agree = true.
Proof. vm_compute. reflexivity. Qed.

(* ---- shape facts used by the general lemmas ---- *)
Fixpoint count_pb (ps : list prod) : nat :=
  match ps with [] => 0 | PB :: r => S (count_pb r) | _ :: r => count_pb r end.

(* every transition hands its token to build exactly once, as its last production *)
Definition builds_last (tbl : list st) : bool :=
  forallb (fun x => forallb (fun y => Nat.eqb (count_pb (t_prods y)) 1
                                      && match rev (t_prods y) with PB :: _ => true | _ => false end)
                            (s_tests x)) tbl.
Lemma builds_last_ok : builds_last table = true.
Proof. vm_compute. reflexivity. Qed.

(* the error tail returns the state itself *)
Definition error_stays (tbl : list st) : bool := forallb (fun x => Nat.eqb (s_err x) (s_id x)) tbl.
Lemma error_stays_ok : error_stays table = true.
Proof. vm_compute. reflexivity. Qed.

(* every target is a state of the table, or it is the end state reached by an #EOF test only *)
Definition states_total (tbl : list st) : bool :=
  forallb (fun x =>
    forallb (fun y => match find_in tbl (t_tgt y) with
                      | Some _ => negb (kind_beq (t_kind y) KEOF)
                      | None => kind_beq (t_kind y) KEOF
                      end) (s_tests x)
    && match find_in tbl (s_err x) with Some _ => true | None => false end) tbl
  && match find_in tbl start_state with Some _ => true | None => false end.
Lemma states_total_ok : states_total table = true.
Proof. vm_compute. reflexivity. Qed.

(* look-ahead hints of the grammar are the look-ahead methods of the table *)
Definition la_matches_hints : bool :=
  Nat.eqb (length lookaheads) (length hints)
  && forallb (fun l =>
       existsb (fun h => list_beq kind_beq (la_expected l) [snd (snd h)]
                         && list_beq kind_beq (la_skip l) (fst (snd h))) hints) lookaheads
  && forallb (fun l => list_beq kind_beq (la_skip l) [KEmpty; KComment; KTagLine]) lookaheads.
Lemma la_matches_hints_ok : la_matches_hints = true.
Proof. vm_compute. reflexivity. Qed.

(* guarded tests occur only on #TagLine, in the order of the hints, followed by an unguarded #TagLine test *)
Definition guards_shape (tbl : list st) : bool :=
  forallb (fun x =>
    forallb (fun y => match t_guard y with
                      | Some h => kind_beq (t_kind y) KTagLine
                                  && match find (fun l => Nat.eqb (la_id l) h) lookaheads with Some _ => true | None => false end
                      | None => true end) (s_tests x)
    && (negb (existsb (fun y => match t_guard y with Some _ => true | None => false end) (s_tests x))
        || existsb (fun y => kind_beq (t_kind y) KTagLine && match t_guard y with None => true | Some _ => false end) (s_tests x)))
    tbl.
Lemma guards_shape_ok : guards_shape table = true.
Proof. vm_compute. reflexivity. Qed.

(* doc-string states: reached by an opening separator, they test exactly [#DocStringSeparator; #Other] *)
Definition docstring_states (tbl : list st) : list nat :=
  flat_map (fun x => flat_map (fun y =>
     if kind_beq (t_kind y) KDocStringSeparator
        && existsb (fun p => prod_beq p (PS RDocString)) (t_prods y) then [t_tgt y] else []) (s_tests x)) tbl.
Definition docstring_states_opaque (tbl : list st) : bool :=
  negb (Nat.eqb (length (docstring_states tbl)) 0)
  && forallb (fun s => match find_in tbl s with
                       | Some x => list_beq kind_beq (map t_kind (s_tests x)) [KDocStringSeparator; KOther]
                                   && forallb (fun y => match t_guard y with None => true | Some _ => false end) (s_tests x)
                                   && forallb (fun y => if kind_beq (t_kind y) KOther
                                                        then Nat.eqb (t_tgt y) s && list_beq prod_beq (t_prods y) [PB]
                                                        else true) (s_tests x)
                       | None => false end) (docstring_states tbl).
Lemma docstring_states_opaque_ok : docstring_states_opaque table = true.
Proof. vm_compute. reflexivity. Qed.

(* #Language is tested in the start state only *)
Definition language_only_at_start (tbl : list st) : bool :=
  forallb (fun x => Nat.eqb (s_id x) start_state
                    || negb (existsb (fun y => kind_beq (t_kind y) KLanguage) (s_tests x))) tbl.
Lemma language_only_at_start_ok : language_only_at_start table = true.
Proof. vm_compute. reflexivity. Qed.

(* longest test list (bounds match calls per token) *)
Definition max_tests (tbl : list st) : nat := fold_right (fun x m => Nat.max (length (s_tests x)) m) 0 tbl.
Definition max_tests_bound : nat := 12.
Lemma max_tests_ok : Nat.leb (max_tests table) max_tests_bound = true.
Proof. vm_compute. reflexivity. Qed.

Lemma error_cap_ok : Nat.eqb (error_cap + 1) 11 = true.
Proof. vm_compute. reflexivity. Qed.

(* look-ahead methods: skip exactly blank / comment / tag lines, wait for a Scenario or Examples line *)
Definition la_ok (l : la) : bool :=
  list_beq kind_beq (la_skip l) [KEmpty; KComment; KTagLine]
  && forallb (fun k => kind_beq k KScenarioLine || kind_beq k KExamplesLine) (la_expected l).
Lemma lookaheads_ok : forallb la_ok lookaheads = true.
Proof. vm_compute. reflexivity. Qed.

(* C16: blank lines.  Outside descriptions and doc strings an #Empty line is built and leaves the state unchanged *)
Definition empty_self_loop (x : st) : bool :=
  match find (fun y => kind_beq (t_kind y) KEmpty) (s_tests x) with
  | Some y => Nat.eqb (t_tgt y) (s_id x) && list_beq prod_beq (t_prods y) [PB]
              && match t_guard y with None => true | Some _ => false end
  | None => false
  end.
Definition description_states (tbl : list st) : list nat :=
  flat_map (fun x => flat_map (fun y => if existsb (fun p => prod_beq p (PS RDescription)) (t_prods y) then [t_tgt y] else [])
                              (s_tests x)) tbl.
Definition blank_neutral (tbl : list st) : bool :=
  forallb (fun x => empty_self_loop x
                    || existsb (Nat.eqb (s_id x)) (description_states tbl)
                    || existsb (Nat.eqb (s_id x)) (docstring_states tbl)) tbl.
Lemma blank_neutral_ok : blank_neutral table = true.
Proof. vm_compute. reflexivity. Qed.


(* ---- rows of one table ---- *)
(* a row state: a table row is built there and the state kept (the rows after the first of a data table or of an
   examples table).  In every row state a blank line and a comment are built and the state kept too: rows separated
   by blank lines or comments are rows of the same table (so the first row whose cell count deviates is still compared
   with the first row of that table). *)
Definition row_state (x : st) : bool :=
  sel_beq (select (s_tests x) KTableRow (fun _ => true)) (Some (KTableRow, [PB], s_id x)).
Definition rows_stay : bool :=
  forallb (fun x => implb (row_state x)
     (forallb (fun k => sel_beq (select (s_tests x) k (fun _ => true)) (Some (k, [PB], s_id x))) [KEmpty; KComment])) table
  && Nat.leb 5 (length (filter row_state table)).
Lemma rows_stay_ok : rows_stay = true.
Proof. vm_compute. reflexivity. Qed.
