(* C11 (density): the concrete meaning of the abstract frames of DenseDefs, and the builder lemmas:
   when the children of a node arrive in the order transform_node reads them, the ids of the value it
   builds are the ids of the node's items, in order, followed by the ids drawn for the value itself. *)
From Coq Require Import List Bool Arith Lia.
Import ListNotations.
Require Import Kinds PyStr Line Matcher Ast Builder BuilderSafe AstIds DenseDefs.

Definition kfilter (k : key) (items : list (key * value)) := filter (fun kv => key_beq (fst kv) k) items.
Fixpoint groups (p : list (key * bool)) (items : list (key * value)) : list nat :=
  match p with [] => [] | (k, _) :: r => grp items k ++ groups r items end.

Lemma key_beq_sym a b : key_beq a b = key_beq b a.
Proof.
  destruct (key_beq a b) eqn:E.
  - apply key_beq_eq in E. subst. now rewrite key_beq_refl.
  - destruct (key_beq b a) eqn:E2; [|reflexivity]. apply key_beq_eq in E2. subst. now rewrite key_beq_refl in E.
Qed.

Lemma kfilter_app k a b : kfilter k (a ++ b) = kfilter k a ++ kfilter k b.
Proof. apply filter_app. Qed.
Lemma grp_kfilter items k : grp items k = flat_map vids (map snd (kfilter k items)).
Proof. reflexivity. Qed.
Lemma grp_snoc items k k' v : grp (items ++ [(k', v)]) k = grp items k ++ (if key_beq k' k then vids v else []).
Proof.
  rewrite !grp_kfilter, kfilter_app, map_app, flat_map_app. f_equal. cbn. destruct (key_beq k' k); cbn; [now rewrite app_nil_r | reflexivity].
Qed.
Lemma iids_snoc items k v : iids (items ++ [(k, v)]) = iids items ++ vids v.
Proof. unfold iids. rewrite flat_map_app. cbn. now rewrite app_nil_r. Qed.

Lemma groups_snoc_notin p items k v : pindex p k = None -> groups p (items ++ [(k, v)]) = groups p items.
Proof.
  induction p as [|[k0 m0] r IH]; intros H; cbn [groups]; [reflexivity|]. cbn [pindex] in H.
  destruct (key_beq k0 k) eqn:E; [discriminate|]. destruct (pindex r k) as [[j m]|] eqn:Pr; [discriminate|].
  rewrite grp_snoc, key_beq_sym, E, app_nil_r, (IH eq_refl). reflexivity.
Qed.

Lemma groups_empty p items : (forall k pos many, pindex p k = Some (pos, many) -> kfilter k items = []) -> groups p items = [].
Proof.
  induction p as [|[k0 m0] r IH]; intros H; cbn [groups]; [reflexivity|].
  assert (E0 : kfilter k0 items = []).
  { apply (H k0 0 m0). cbn. now rewrite key_beq_refl. }
  rewrite grp_kfilter, E0. cbn. apply IH. intros k pos many Hp.
  destruct (key_beq k0 k) eqn:E; [apply key_beq_eq in E; subst; exact E0|].
  apply (H k (S pos) many). cbn. rewrite E, Hp. reflexivity.
Qed.

Fixpoint pnodup (p : list (key * bool)) : bool :=
  match p with
  | [] => true
  | (k, _) :: r => match pindex r k with None => pnodup r | Some _ => false end
  end.

(* a child with a pattern key arriving no earlier than every child already present goes to the end *)
Lemma groups_snoc_in p : pnodup p = true -> forall items k v pos many, pindex p k = Some (pos, many) ->
  (forall k' pos' m', pindex p k' = Some (pos', m') -> pos < pos' -> kfilter k' items = []) ->
  groups p (items ++ [(k, v)]) = groups p items ++ vids v.
Proof.
  induction p as [|[k0 m0] r IH]; intros N items k v pos many Hp He; [discriminate|]. cbn [groups]. cbn [pindex] in Hp.
  cbn [pnodup] in N. destruct (pindex r k0) eqn:N0; [discriminate|].
  rewrite grp_snoc, (key_beq_sym k k0).
  destruct (key_beq k0 k) eqn:E.
  - inversion Hp; subst pos many. apply key_beq_eq in E. subst k0.
    rewrite (groups_snoc_notin r items k v N0).
    assert (Er : groups r items = []).
    { apply groups_empty. intros k' pos' m' Hp'.
      destruct (key_beq k k') eqn:E'; [apply key_beq_eq in E'; subst k'; congruence|].
      apply (He k' (S pos') m'); [cbn; rewrite E', Hp'; reflexivity | lia]. }
    rewrite Er, !app_nil_r. reflexivity.
  - destruct (pindex r k) as [[j m]|] eqn:Pr; [|discriminate]. inversion Hp; subst pos many.
    rewrite app_nil_r, (IH N items k v j m Pr); [now rewrite app_assoc|].
    intros k' pos' m' Hp' L.
    destruct (key_beq k0 k') eqn:E'; [apply key_beq_eq in E'; subst k'; congruence|].
    apply (He k' (S pos') m'); [cbn; rewrite E', Hp'; reflexivity | lia].
Qed.

(* ---- the concrete meaning of an abstract frame ---- *)
Definition seg_ok (p : list (key * bool)) (st : pstate) (items : list (key * value)) : Prop :=
  forall k pos many, pindex p k = Some (pos, many) ->
    ((fst st < pos \/ (pos = fst st /\ snd st = false)) -> kfilter k items = [])
    /\ (many = false -> length (kfilter k items) <= 1).

Definition has_line (n : node) (k : kind) : Prop := exists t, get_single n (KT k) = Some (VTok t).

(* a finished node kept as a value (Tags, Scenario, Examples, the two headers) *)
Definition flat (r : rule) (m : node) : Prop :=
  iids (node_items m) = groups (pat r) (node_items m)
  /\ (forall k pos, pindex (pat r) k = Some (pos, false) -> length (kfilter k (node_items m)) <= 1).

Definition item_ok (kv : key * value) : Prop :=
  match fst kv with
  | KT _ => exists t, snd kv = VTok t
  | KR x => match snd kv with
            | VNode m => node_rt m = KR x /\ flat x m
                         /\ match hdr_line x with Some k => has_line m k | None => True end
            | _ => True
            end
  | KNone => True
  end.

Definition nrel (af : aframe) (n : node) : Prop :=
  node_rt n = KR (af_rule af)
  /\ iids (node_items n) = groups (pat (af_rule af)) (node_items n)
  /\ seg_ok (pat (af_rule af)) (af_st af) (node_items n)
  /\ Forall item_ok (node_items n)
  /\ (af_line af = true -> match hdr_line (af_rule af) with Some k => has_line n k | None => True end)
  /\ (af_hdr af = true -> match hdr_of (af_rule af) with Some h => kfilter (KR h) (node_items n) <> [] | None => True end).

Lemma nrel_flat af n : nrel af n -> flat (af_rule af) n.
Proof.
  intros (_ & A & S & _). split; [exact A|]. intros k pos Hp. apply (S k pos false Hp). reflexivity.
Qed.

Lemma single_grp n k v : length (kfilter k (node_items n)) <= 1 -> get_single n k = Some v -> grp (node_items n) k = vids v.
Proof.
  unfold get_single, get_items. rewrite grp_kfilter. fold (kfilter k (node_items n)).
  destruct (kfilter k (node_items n)) as [|[k0 v0] [|x r]]; cbn; intros L H; try discriminate; try lia.
  inversion H; subst. now rewrite app_nil_r.
Qed.
Lemma none_grp n k : get_single n k = None -> grp (node_items n) k = [].
Proof.
  unfold get_single, get_items. rewrite grp_kfilter. fold (kfilter k (node_items n)).
  destruct (kfilter k (node_items n)) as [|[k0 v0] r]; cbn; [reflexivity | discriminate].
Qed.
Lemma none_kfilter n k : get_single n k = None -> kfilter k (node_items n) = [].
Proof.
  unfold get_single, get_items. fold (kfilter k (node_items n)).
  destruct (kfilter k (node_items n)) as [|[k0 v0] r]; cbn; [reflexivity | discriminate].
Qed.
Lemma item_ok_single n k v : Forall item_ok (node_items n) -> get_single n k = Some v -> item_ok (k, v).
Proof. intros F H. rewrite Forall_forall in F. apply F. apply get_single_in. exact H. Qed.

Lemma seq_S_sub i i1 : i <= i1 -> seq i (S i1 - i) = seq i (i1 - i) ++ [i1].
Proof. intros L. replace (S i1 - i) with (S (i1 - i)) by lia. rewrite <- seq_snoc. f_equal. f_equal. lia. Qed.

Definition dense_post (n : node) (i : nat) (r : tres value) : Prop :=
  match r with
  | TOk v i' => i <= i' /\ vids v = nids n ++ seq i (i' - i)
  | _ => True
  end.

Lemma dense_keep n i : dense_post n i (TOk (VNode n) i).
Proof. cbn. rewrite Nat.sub_diag. cbn. now rewrite app_nil_r. Qed.

Lemma dense_rows af n c i : nrel af n -> af_rule af = RDataTable \/ af_rule af = RExamplesTable -> dense_post n i (transform_node n c i).
Proof.
  intros (Rt & A & _) Hr. pose proof (nids_items n) as N. rewrite A in N. unfold transform_node. rewrite Rt.
  pose proof (get_table_rows_ids n i) as G. unfold tbind.
  destruct Hr as [Hr|Hr]; rewrite Hr in *; cbn [pat groups app] in N; destruct (get_table_rows n i) as [rows i'|e i'|]; cbn [dense_post]; auto.
  - destruct rows; cbn [dense_post]; auto. rewrite N. exact G.
  - rewrite N. exact G.
Qed.

Lemma dense_noids af n c i : nrel af n -> af_rule af = RDocString \/ af_rule af = RDescription -> dense_post n i (transform_node n c i).
Proof.
  intros (Rt & A & _) Hr. pose proof (nids_items n) as N. rewrite A in N. unfold transform_node. rewrite Rt. unfold opt_crash.
  destruct Hr as [Hr|Hr]; rewrite Hr in *; cbn [pat groups app] in N; peel; cbn [dense_post]; auto; rewrite N, Nat.sub_diag; cbn; auto.
Qed.

Lemma dense_step af n c i : nrel af n -> af_rule af = RStep -> dense_post n i (transform_node n c i).
Proof.
  intros (Rt & A & S & _) Hr. rewrite Hr in *. pose proof (nids_items n) as N. rewrite A in N. unfold transform_node. rewrite Rt. unfold opt_crash.
  cbn [pat groups] in N. rewrite app_nil_r in N.
  destruct (S (KR RDataTable) 0 false eq_refl) as [_ L1]. specialize (L1 eq_refl).
  destruct (get_token n KStepLine) as [[sl|]|]; cbn [dense_post]; auto.
  destruct (m_keyword sl); cbn [dense_post]; auto. destruct (m_ktype sl); cbn [dense_post]; auto. destruct (m_text sl); cbn [dense_post]; auto.
  destruct (get_single n (KR RDataTable)) as [v|] eqn:Gd.
  - rewrite (single_grp _ _ _ L1 Gd) in N. destruct v; cbn [dense_post]; auto. split; [lia|]. rewrite N.
    replace (Datatypes.S i - i) with 1 by lia. reflexivity.
  - rewrite (none_grp _ _ Gd) in N.
    destruct (get_single n (KR RDocString)) as [v|]; [destruct v|]; cbn [dense_post]; auto; (split; [lia|]); rewrite N;
      replace (Datatypes.S i - i) with 1 by lia; reflexivity.
Qed.

Lemma dense_background af n c i : nrel af n -> af_rule af = RBackground -> dense_post n i (transform_node n c i).
Proof.
  intros (Rt & A & _) Hr. rewrite Hr in *. pose proof (nids_items n) as N. rewrite A in N. unfold transform_node. rewrite Rt. unfold opt_crash.
  cbn [pat groups] in N. rewrite app_nil_r in N.
  destruct (get_token n KBackgroundLine) as [[bl|]|]; cbn [dense_post]; auto.
  destruct (m_keyword bl); cbn [dense_post]; auto. destruct (m_text bl); cbn [dense_post]; auto.
  destruct (get_description n); cbn [dense_post]; auto.
  destruct (get_steps n) as [steps|] eqn:Gs; cbn [dense_post]; auto. split; [lia|].
  unfold get_steps in Gs. cbn [vids]. unfold bg_ids. cbn [bg_steps bg_id].
  rewrite (steps_of_ids _ _ Gs), grp_items, N.
  replace (Datatypes.S i - i) with 1 by lia. reflexivity.
Qed.

Lemma dense_scenario af n c i : nrel af n -> af_rule af = RScenarioDefinition -> dense_post n i (transform_node n c i).
Proof.
  intros (Rt & A & S & F & _) Hr. rewrite Hr in *. pose proof (nids_items n) as N. rewrite A in N. unfold transform_node. rewrite Rt. unfold tbind, opt_crash.
  cbn [pat groups] in N. rewrite app_nil_r in N.
  destruct (S (KR RScenario) 0 false eq_refl) as [_ L1]. specialize (L1 eq_refl).
  pose proof (get_tags_ids n i) as Gt. destruct (get_tags n i) as [tags i1|e i1|]; cbn [dense_post]; auto.
  destruct Gt as [Le Ht].
  destruct (get_single n (KR RScenario)) as [v|] eqn:Gsn; [destruct v as [| sn | | | | | | | | | | | |]|]; cbn [dense_post]; auto.
  rewrite (single_grp _ _ _ L1 Gsn) in N. cbn [vids] in N.
  pose proof (item_ok_single n _ _ F Gsn) as IO. cbn in IO. destruct IO as (_ & [Fa _] & _).
  rewrite (nids_items sn), Fa in N. cbn [pat groups] in N. rewrite app_nil_r in N.
  destruct (get_token sn KScenarioLine) as [[sl|]|]; cbn [dense_post]; auto.
  destruct (m_keyword sl); cbn [dense_post]; auto. destruct (m_text sl); cbn [dense_post]; auto.
  destruct (get_description sn); cbn [dense_post]; auto.
  destruct (get_steps sn) as [steps|] eqn:Gs; cbn [dense_post]; auto.
  destruct (examples_of (get_items sn (KR RExamplesDefinition))) as [exs|] eqn:Ge; cbn [dense_post]; auto.
  split; [lia|]. unfold get_steps in Gs. cbn [vids]. unfold sc_ids. cbn [sc_steps sc_examples sc_tags sc_id].
  rewrite (steps_of_ids _ _ Gs), (examples_of_ids _ _ Ge), !grp_items, N, Ht, (seq_S_sub i i1 Le). reflexivity.
Qed.

Lemma dense_examples af n c i : nrel af n -> af_rule af = RExamplesDefinition -> dense_post n i (transform_node n c i).
Proof.
  intros (Rt & A & S & F & _) Hr. rewrite Hr in *. pose proof (nids_items n) as N. rewrite A in N. unfold transform_node. rewrite Rt. unfold tbind, opt_crash.
  cbn [pat groups] in N. rewrite app_nil_r in N.
  destruct (S (KR RExamples) 0 false eq_refl) as [_ L1]. specialize (L1 eq_refl).
  pose proof (get_tags_ids n i) as Gt. destruct (get_tags n i) as [tags i1|e i1|]; cbn [dense_post]; auto.
  destruct Gt as [Le Ht].
  destruct (get_single n (KR RExamples)) as [v|] eqn:Gen; [destruct v as [| en | | | | | | | | | | | |]|]; cbn [dense_post]; auto.
  rewrite (single_grp _ _ _ L1 Gen) in N. cbn [vids] in N.
  pose proof (item_ok_single n _ _ F Gen) as IO. cbn in IO. destruct IO as (_ & [Fa Fs] & _).
  rewrite (nids_items en), Fa in N. cbn [pat groups] in N. rewrite app_nil_r in N.
  specialize (Fs (KR RExamplesTable) 0 eq_refl).
  destruct (get_token en KExamplesLine) as [[el|]|]; cbn [dense_post]; auto.
  destruct (m_keyword el); cbn [dense_post]; auto. destruct (m_text el); cbn [dense_post]; auto.
  destruct (get_description en); cbn [dense_post]; auto.
  assert (Fin : forall rs, grp (node_items en) (KR RExamplesTable) = row_ids rs ->
    dense_post n i (TOk (VExamples (mk_examples i1 tags (get_location el None) s s0 s1 (hd_error rs) (tl rs))) (Datatypes.S i1))).
  { intros rs G. split; [lia|]. cbn [vids]. unfold ex_ids. cbn [ex_header ex_body ex_tags ex_id].
    rewrite rows_split, N, G, Ht, (seq_S_sub i i1 Le). reflexivity. }
  destruct (get_single en (KR RExamplesTable)) as [v|] eqn:Gr; [destruct v|]; cbn [dense_post]; auto.
  - apply Fin. apply (single_grp _ _ _ Fs Gr).
  - apply Fin. apply (none_grp _ _ Gr).
Qed.

Lemma hdr_present n h : kfilter (KR h) (node_items n) <> [] -> get_single n (KR h) <> None.
Proof. intros H G. apply H. apply none_kfilter. exact G. Qed.

Lemma has_line_token hn k : has_line hn k -> exists t, get_token hn k = Some (Some t).
Proof. intros [t H]. exists t. unfold get_token. rewrite H. reflexivity. Qed.

Lemma dense_rule af n c i : nrel af n -> af_rule af = RRule -> af_hdr af = true -> dense_post n i (transform_node n c i).
Proof.
  intros (Rt & A & S & F & _ & Hh) Hr Hd. rewrite Hr in *. pose proof (nids_items n) as N. rewrite A in N. unfold transform_node. rewrite Rt. unfold tbind, opt_crash.
  cbn [pat groups] in N. rewrite app_nil_r in N.
  destruct (S (KR RBackground) 0 false eq_refl) as [_ L1]. specialize (L1 eq_refl).
  specialize (Hh Hd). cbn [hdr_of] in Hh. apply hdr_present in Hh.
  destruct (get_single n (KR RRuleHeader)) as [v|] eqn:Gh; [|congruence].
  pose proof (item_ok_single n _ _ F Gh) as IO.
  destruct v as [| hn | | | | | | | | | | | |]; cbn [dense_post]; auto.
  cbn in IO. destruct IO as (_ & _ & HL). destruct (has_line_token _ _ HL) as [rl Grl]. rewrite Grl.
  pose proof (get_tags_ids hn i) as Gt. destruct (get_tags hn i) as [tags i1|e i1|]; cbn [dense_post]; auto.
  destruct Gt as [Le Ht].
  destruct (m_keyword rl); cbn [dense_post]; auto. destruct (m_text rl); cbn [dense_post]; auto.
  assert (Fin : forall bgc scs desc, flat_map rchild_ids bgc = grp (node_items n) (KR RBackground) ->
             scenarios_of (get_items n (KR RScenarioDefinition)) = Some scs ->
             dense_post n i (TOk (VRule (mk_grule i1 tags (get_location rl None) s s0 desc (bgc ++ map RCScenario scs))) (Datatypes.S i1))).
  { intros bgc scs desc Gb Gs. split; [lia|]. cbn [vids]. unfold ru_ids. cbn [ru_children ru_tags ru_id].
    rewrite flat_rchild, Gb, (scenarios_of_ids _ _ Gs), grp_items, N, Ht, (seq_S_sub i i1 Le), <- !app_assoc. reflexivity. }
  destruct (get_single n (KR RBackground)) as [v|] eqn:Gb; [destruct v|]; cbn [dense_post]; auto;
    destruct (scenarios_of (get_items n (KR RScenarioDefinition))) as [scs|] eqn:Gs; cbn [dense_post]; auto;
    destruct (get_description hn); cbn [dense_post]; auto; apply Fin; auto.
  - cbn. rewrite app_nil_r. symmetry. apply (single_grp _ _ _ L1 Gb).
  - cbn. symmetry. apply (none_grp _ _ Gb).
Qed.

Lemma dense_feature af n c i : nrel af n -> af_rule af = RFeature -> af_hdr af = true -> dense_post n i (transform_node n c i).
Proof.
  intros (Rt & A & S & F & _ & Hh) Hr Hd. rewrite Hr in *. pose proof (nids_items n) as N. rewrite A in N. unfold transform_node. rewrite Rt. unfold tbind, opt_crash.
  cbn [pat groups] in N. rewrite app_nil_r in N.
  destruct (S (KR RBackground) 0 false eq_refl) as [_ L1]. specialize (L1 eq_refl).
  specialize (Hh Hd). cbn [hdr_of] in Hh. apply hdr_present in Hh.
  destruct (get_single n (KR RFeatureHeader)) as [v|] eqn:Gh; [|congruence].
  pose proof (item_ok_single n _ _ F Gh) as IO.
  destruct v as [| hn | | | | | | | | | | | |]; cbn [dense_post]; auto.
  cbn in IO. destruct IO as (_ & _ & HL). destruct (has_line_token _ _ HL) as [fl Gfl]. rewrite Gfl.
  pose proof (get_tags_ids hn i) as Gt. destruct (get_tags hn i) as [tags i1|e i1|]; cbn [dense_post]; auto.
  destruct Gt as [Le Ht].
  destruct (m_keyword fl); cbn [dense_post]; auto. destruct (m_text fl); cbn [dense_post]; auto.
  assert (Fin : forall bgc scs rls desc, flat_map fchild_ids bgc = grp (node_items n) (KR RBackground) ->
             scenarios_of (get_items n (KR RScenarioDefinition)) = Some scs ->
             rules_of (get_items n (KR RRule)) = Some rls ->
             dense_post n i (TOk (VFeature (mk_feature tags (get_location fl None) (m_dialect fl) s s0 desc
                     (bgc ++ map FCScenario scs
                          ++ flat_map (fun r => match r with Some x => [FCRule x] | None => [] end) rls))) i1)).
  { intros bgc scs rls desc Gb Gs Gr. split; [lia|]. cbn [vids]. unfold f_ids. cbn [f_children f_tags].
    rewrite flat_fchild, Gb, (scenarios_of_ids _ _ Gs), (rules_of_ids _ _ Gr), !grp_items, N, Ht, <- !app_assoc. reflexivity. }
  destruct (get_single n (KR RBackground)) as [v|] eqn:Gb; [destruct v|]; cbn [dense_post]; auto;
    destruct (scenarios_of (get_items n (KR RScenarioDefinition))) as [scs|] eqn:Gs; cbn [dense_post]; auto;
    destruct (rules_of (get_items n (KR RRule))) as [rls|] eqn:Gr; cbn [dense_post]; auto;
    destruct (get_description hn); cbn [dense_post]; auto;
    destruct (forallb _ rls); cbn [dense_post]; auto; apply Fin; auto.
  - cbn. rewrite app_nil_r. symmetry. apply (single_grp _ _ _ L1 Gb).
  - cbn. symmetry. apply (none_grp _ _ Gb).
Qed.

Lemma dense_document af n c i : nrel af n -> af_rule af = RGherkinDocument -> dense_post n i (transform_node n c i).
Proof.
  intros (Rt & A & S & _) Hr. rewrite Hr in *. pose proof (nids_items n) as N. rewrite A in N. unfold transform_node. rewrite Rt.
  cbn [pat groups] in N. rewrite app_nil_r in N.
  destruct (S (KR RFeature) 0 false eq_refl) as [_ L1]. specialize (L1 eq_refl).
  destruct (get_single n (KR RFeature)) as [v|] eqn:Gf.
  - rewrite (single_grp _ _ _ L1 Gf) in N.
    destruct v; cbn [dense_post]; auto; (split; [lia|]); rewrite N, Nat.sub_diag; cbn [seq]; rewrite app_nil_r; reflexivity.
  - rewrite (none_grp _ _ Gf) in N. cbn [dense_post]. split; [lia|]. rewrite N, Nat.sub_diag. reflexivity.
Qed.

(* the frame may be ended: a header has its keyword line, a Feature / Rule has its header *)
Definition ready (af : aframe) : Prop :=
  (is_header (af_rule af) = true -> af_line af = true) /\ (needs_header (af_rule af) = true -> af_hdr af = true).

Theorem transform_dense af n c i : nrel af n -> ready af -> dense_post n i (transform_node n c i).
Proof.
  intros R [Rl Rh]. pose proof R as (Rt & _).
  destruct (af_rule af) eqn:Hr;
    try (unfold transform_node; rewrite Rt; apply dense_keep).
  - eapply dense_document; eauto.
  - eapply dense_feature; eauto.
  - eapply dense_rule; eauto.
  - eapply dense_background; eauto.
  - eapply dense_scenario; eauto.
  - eapply dense_examples; eauto.
  - eapply dense_rows; eauto.
  - eapply dense_step; eauto.
  - eapply dense_rows; eauto.
  - eapply dense_noids; eauto.
  - eapply dense_noids; eauto.
Qed.

Ltac peel_in H := repeat match type of H with
                         | context [match ?x with _ => _ end] => inner x; destruct x eqn:?; try discriminate H
                         | context [if forallb ?f ?l then _ else _] => destruct (forallb f l) eqn:?; try discriminate H
                         end.

(* the only node a transformation returns is the node itself *)
Lemma transform_node_value n c i m i' : transform_node n c i = TOk (VNode m) i' -> m = n /\ i' = i.
Proof.
  unfold transform_node, tbind, opt_crash. intros H. peel_in H; inversion H; subst; auto.
Qed.

Lemma transform_item af n c i v i' : nrel af n -> (is_header (af_rule af) = true -> af_line af = true) ->
  transform_node n c i = TOk v i' -> item_ok (KR (af_rule af), v).
Proof.
  intros R Rl H. destruct v; try exact I. destruct (transform_node_value _ _ _ _ _ H) as [-> ->].
  cbn. pose proof R as (Rt & _ & _ & _ & Hl & _). split; [exact Rt|]. split; [apply (nrel_flat _ _ R)|].
  unfold is_header in Rl. destruct (hdr_line (af_rule af)); [apply Hl, Rl; reflexivity | exact I].
Qed.

Lemma transform_idfree af n c i v i' : nrel af n -> idfree_rule (af_rule af) = true ->
  transform_node n c i = TOk v i' -> i' = i.
Proof.
  intros (Rt & _) Hf. unfold transform_node, tbind, opt_crash. rewrite Rt. intros H.
  destruct (af_rule af); try discriminate Hf; peel_in H; inversion H; subst; auto.
Qed.
