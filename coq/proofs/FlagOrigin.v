(* Where a flag in the matcher state can come from.  Generic interpreter: if the matcher raises the flag only
   when it answers yes to "is this free text?" (kind Other) about a token marked as changed, then -- because
   every Other test of the table is unguarded and hands its token to the builder after at most a few
   start_rule calls -- a run that ends with the flag up has logged the build of a changed token as Other.
   Used to turn the side conditions of the layout theorems of C16 (a statement about the questions a run
   asks) into a statement about what the run builds. *)
From Coq Require Import List Bool Arith Lia.
Import ListNotations.
Require Import Kinds Automaton AutoFacts AgreeUpTo.

Section FlagOrigin.
  Context {Tok MS BS Err : Type}.
  Variable P : params Tok MS BS Err.
  Notation ctx := (ctx Tok MS BS Err).
  Notation res := (res Tok MS BS Err).

  Variable bad : MS -> bool.
  Variable chg : Tok -> bool.
  Variable TokQ : Tok -> Prop.
  Variable MQ : MS -> Prop.
  Definition rtok (r : mres Tok MS Err) : Tok := match r with MR _ t _ | MRaise _ t _ => t end.

  Hypothesis Hq_eof : forall n, TokQ (mk_eof P n).
  Hypothesis Hq_m : forall k m t, MQ m -> TokQ t -> TokQ (rtok (matchf P k m t)) /\ MQ (mres_ms (matchf P k m t)).
  Hypothesis Hchg : forall k m t, chg (rtok (matchf P k m t)) = chg t.
  Hypothesis Hflag : forall k m t, MQ m -> TokQ t -> bad m = false -> bad (mres_ms (matchf P k m t)) = true ->
    k = KOther /\ chg t = true /\ exists t' m', matchf P k m t = MR true t' m'.
  Hypothesis Hother : forall x y, In x (table P) -> In y (s_tests x) -> t_kind y = KOther ->
    t_guard y = None /\ exists rs rest, t_prods y = map PS rs ++ PB :: rest.
  Hypothesis Hstart : forall r b, exists b', b_start P r b = BOk b'.
  Hypothesis Hla : forall h k, In h (lookaheads P) -> In k (la_expected h ++ la_skip h) -> k <> KOther.
  Hypothesis Hguard : forall x y, In x (table P) -> In y (s_tests x) -> t_guard y <> None -> t_kind y <> KOther.

  Definition logged (c : ctx) : Prop := exists t, In (EvB t KOther) (log c) /\ chg t = true.
  (* w: a changed token has just been matched as Other and is about to be built *)
  Definition Jw (w : Prop) (c : ctx) : Prop :=
    Forall TokQ (queue c) /\ Forall TokQ (rest c) /\ MQ (ms c) /\ (bad (ms c) = true -> logged c \/ w).
  Notation J := (Jw False).

  Definition holdsw {A} (Q : A -> ctx -> Prop) (r : res A) : Prop :=
    match r with
    | Ok a c => Q a c
    | Raise1 _ c | RaiseC _ c | Crash c => J c
    | OutOfFuel => True
    end.
  Lemma holdsw_bind {A B} (Q1 : A -> ctx -> Prop) (Q2 : B -> ctx -> Prop) (r : res A) (f : A -> ctx -> res B) :
    holdsw Q1 r -> (forall a c, Q1 a c -> holdsw Q2 (f a c)) -> holdsw Q2 (bind r f).
  Proof. intros H F. destruct r; cbn [bind]; [apply F; exact H | exact H ..]. Qed.

  Lemma Jw_same w c c' : queue c' = queue c -> rest c' = rest c -> ms c' = ms c -> log c' = log c -> Jw w c -> Jw w c'.
  Proof. intros E1 E2 E3 E4 (A & B & C & D). unfold Jw, logged. rewrite E1, E2, E3, E4. auto. Qed.
  Lemma Jw_emit w x c : Jw w c -> Jw w (emit x c).
  Proof.
    intros (A & B & C & D). repeat split; auto. cbn [ms emit]. intros H. destruct (D H) as [(t & I & Ct)|W]; [left | now right].
    exists t. split; [cbn [log emit]; now right | exact Ct].
  Qed.
  Lemma Jw_weaken (w w' : Prop) c : (w -> w') -> Jw w c -> Jw w' c.
  Proof. intros H (A & B & C & D). repeat split; auto. intros X. destruct (D X); [now left | right; auto]. Qed.

  Lemma add_error_J e c : J c -> holdsw (fun _ c' => J c') (add_error P e c).
  Proof.
    intros H. unfold add_error. destruct (existsb _ _); cbn [holdsw]; [exact H|].
    assert (G : J (set_errs (errs c ++ [e]) c)) by (eapply Jw_same; [..|exact H]; reflexivity).
    destruct (_ <? _); cbn [holdsw]; exact G.
  Qed.

  Lemma read_J c : J c -> J (snd (read P c)) /\ TokQ (fst (read P c)).
  Proof.
    intros (A & B & C & D). unfold read. destruct (queue c) as [|t q] eqn:Q.
    - destruct (rest c) as [|t r] eqn:R; cbn [fst snd].
      + split; [|apply Hq_eof]. repeat split; cbn [queue rest ms log]; auto.
      + inversion B; subst. split; [|assumption]. repeat split; cbn [queue rest ms log]; auto.
    - inversion A; subst. cbn [fst snd]. split; [|assumption]. repeat split; cbn [queue rest ms log set_queue]; auto.
  Qed.

  (* one matcher call; for kind Other the flag may have been raised for the token just matched *)
  Lemma match_k_J stop k t c : J c -> TokQ t ->
    holdsw (fun r c' => TokQ (snd r) /\ chg (snd r) = chg t /\ Jw (k = KOther /\ fst r = true /\ chg t = true) c') (match_k P stop k t c).
  Proof.
    intros H Ht. unfold match_k. destruct (_ && _); cbn [holdsw fst snd].
    { split; [exact Ht|]. split; [reflexivity|]. eapply Jw_weaken; [|exact H]. tauto. }
    destruct H as (A & B & C & D). cbn [ms bump].
    pose proof (Hq_m k (ms c) t C Ht) as [Q1 Q2]. pose proof (Hchg k (ms c) t) as Ch. pose proof (Hflag k (ms c) t C Ht) as F.
    assert (Key : bad (mres_ms (matchf P k (ms c) t)) = true -> logged c \/ (k = KOther /\ chg t = true /\ exists t' m', matchf P k (ms c) t = MR true t' m')).
    { intros X. destruct (bad (ms c)) eqn:B0; [destruct (D eq_refl) as [L|[]]; now left | right; apply F; auto]. }
    destruct (matchf P k (ms c) t) as [b t' m'|e t' m'] eqn:M; cbn [rtok mres_ms] in *.
    - cbn [holdsw fst snd]. split; [exact Q1|]. split; [exact Ch|]. repeat split; cbn [queue rest ms log set_ms bump]; auto.
      intros X. destruct (Key X) as [L|(K & Ct & t2 & m2 & E)]; [now left|]. right. inversion E; subst. auto.
    - assert (G : J (set_ms m' (bump c))).
      { repeat split; cbn [queue rest ms log set_ms bump]; auto. intros X. destruct (Key X) as [L|(K & Ct & t2 & m2 & E)]; [now left | discriminate E]. }
      destruct stop; cbn [holdsw]; [exact G|].
      eapply holdsw_bind; [apply add_error_J; exact G|]. intros u c' H'. cbn [holdsw fst snd].
      split; [exact Q1|]. split; [exact Ch|]. eapply Jw_weaken; [|exact H']. tauto.
  Qed.

  (* a kind other than Other: the invariant is simply kept *)
  Lemma match_k_J' stop k t c : k <> KOther -> J c -> TokQ t ->
    holdsw (fun r c' => TokQ (snd r) /\ chg (snd r) = chg t /\ J c') (match_k P stop k t c).
  Proof.
    intros Nk H Ht. pose proof (match_k_J stop k t c H Ht) as M.
    destruct (match_k P stop k t c) as [r c'| | | |]; cbn [holdsw] in *; auto.
    destruct M as (Q & Ch & W). split; [exact Q|]. split; [exact Ch|]. eapply Jw_weaken; [|exact W]. intros [K _]. contradiction.
  Qed.

  Lemma any_match_J stop ks : (forall k, In k ks -> k <> KOther) -> forall t c, J c -> TokQ t ->
    holdsw (fun r c' => TokQ (snd r) /\ J c') (any_match P stop ks t c).
  Proof.
    induction ks as [|k ks IH]; intros Hk t c H Ht; cbn [any_match holdsw snd]; [auto|].
    eapply holdsw_bind; [apply match_k_J'; [apply Hk; now left | exact H | exact Ht]|].
    intros [b t1] c1 (Q & _ & H1). cbn [fst snd] in *. destruct b; [cbn [holdsw snd]; auto|].
    apply IH; auto. intros k' Hk'. apply Hk. now right.
  Qed.

  Lemma la_loop_J stop h : (forall k, In k (la_expected h ++ la_skip h) -> k <> KOther) ->
    forall fuel c acc, J c -> Forall TokQ acc -> holdsw (fun r c' => Forall TokQ (snd r) /\ J c') (la_loop P fuel stop h c acc).
  Proof.
    intros Hk. induction fuel as [|f IH]; intros c acc H Ha; cbn [la_loop holdsw]; [exact I|].
    destruct (read_J c H) as [R Rt]. destruct (read P c) as [t c1]. cbn [fst snd] in R, Rt.
    assert (Ha2 : forall x, TokQ x -> Forall TokQ (acc ++ [x])) by (intros x Hx; apply Forall_app; split; [exact Ha | constructor; [exact Hx | constructor]]).
    eapply holdsw_bind; [apply any_match_J; [intros k Ik; apply Hk, in_or_app; now left | exact R | exact Rt]|].
    intros [b t1] c2 [Q1 H2]. cbn [fst snd] in *. destruct b; [cbn [holdsw snd]; auto|].
    eapply holdsw_bind; [apply any_match_J; [intros k Ik; apply Hk, in_or_app; now right | exact H2 | exact Q1]|].
    intros [b' t2] c3 [Q2 H3]. cbn [fst snd] in *. destruct b'; [apply IH; auto | cbn [holdsw snd]; auto].
  Qed.

  Lemma lookahead_J stop h c : J c -> holdsw (fun _ c' => J c') (lookahead P stop h c).
  Proof.
    intros H. unfold lookahead. destruct (find_la P h) as [x|] eqn:F; [|exact H].
    assert (Ix : In x (lookaheads P)) by (unfold find_la in F; apply find_some in F; tauto).
    eapply holdsw_bind; [apply la_loop_J; [intros k Ik; exact (Hla x k Ix Ik) | exact H | constructor]|].
    intros r c1 [Qa (A & B & C & D)]. cbn [holdsw]. repeat split; cbn [queue rest ms log set_queue]; auto. apply Forall_app. auto.
  Qed.

  (* builder calls do not touch queue, scanner, matcher state or log *)
  Lemma b_call_Jw (w : Prop) stop f c : Jw w c ->
    match b_call P stop f c with
    | Ok _ c' => Jw w c'
    | Raise1 _ c' | RaiseC _ c' | Crash c' => Jw w c'
    | OutOfFuel => True
    end.
  Proof.
    intros H. unfold b_call. destruct (f (bs c)) as [b'|e b'|]; cbn beta iota.
    - eapply Jw_same; [..|exact H]; reflexivity.
    - destruct stop; cbn beta iota; [eapply Jw_same; [..|exact H]; reflexivity|].
      unfold add_error. cbn [errs set_bs]. destruct (existsb _ _); cbn beta iota; [eapply Jw_same; [..|exact H]; reflexivity|].
      destruct (_ <? _); cbn beta iota; (eapply Jw_same; [..|exact H]; reflexivity).
    - exact H.
  Qed.
  Lemma b_call_J0 stop f c : J c -> holdsw (fun _ c' => J c') (b_call P stop f c).
  Proof. intros H. pose proof (b_call_Jw False stop f c H) as G. destruct (b_call P stop f c); cbn [holdsw]; auto. Qed.

  Lemma exec_J stop t k : forall ps c, J c -> holdsw (fun _ c' => J c') (exec P stop t k ps c).
  Proof.
    induction ps as [|p ps IH]; intros c H; cbn [exec holdsw]; [exact H|].
    eapply holdsw_bind; [|intros u c1 H1; apply IH; exact H1].
    destruct p; apply b_call_J0, Jw_emit, H.
  Qed.

  (* the productions of an Other test: start_rule calls (which always succeed), then the build that logs the token *)
  Lemma exec_other stop t : chg t = true -> forall rs tl0 c, Jw True c ->
    holdsw (fun _ c' => J c') (exec P stop t KOther (map PS rs ++ PB :: tl0) c).
  Proof.
    intros Ct. induction rs as [|r rs IH]; intros tl0 c H; cbn [map app exec].
    - assert (G : J (emit (EvB t KOther) c)).
      { destruct H as (A & B & C & D). repeat split; cbn [queue rest ms log emit]; auto. intros _. left. exists t. split; [now left | exact Ct]. }
      eapply holdsw_bind; [apply b_call_J0; exact G|]. intros u c1 H1. apply exec_J. exact H1.
    - unfold b_call at 1. cbn [bs emit]. destruct (Hstart r (bs c)) as [b' ->]. cbn [bind]. apply IH.
      eapply Jw_same; [..|exact (Jw_emit True (EvS r) c H)]; reflexivity.
  Qed.

  Lemma run_tests_J stop x : In x (table P) -> forall tests, (forall y, In y tests -> In y (s_tests x)) -> forall t c, J c -> TokQ t ->
    holdsw (fun r c' => TokQ (snd r) /\ J c') (run_tests P stop tests t c).
  Proof.
    intros Ix. induction tests as [|y ys IH]; intros Sub t c H Ht; cbn [run_tests holdsw snd]; [auto|].
    assert (Iy : In y (s_tests x)) by (apply Sub; now left).
    assert (Sub' : forall z, In z ys -> In z (s_tests x)) by (intros z Hz; apply Sub; now right).
    eapply holdsw_bind; [apply match_k_J; [exact H | exact Ht]|].
    intros [b t1] c1 (Q1 & Ch & W). cbn [fst snd] in *. destruct b.
    - destruct (t_guard y) as [h|] eqn:Gy.
      + (* guarded: not an Other test *)
        assert (Nk : t_kind y <> KOther) by (apply (Hguard x y Ix Iy); rewrite Gy; discriminate).
        assert (H1 : J c1) by (eapply Jw_weaken; [|exact W]; intros [K _]; contradiction).
        eapply holdsw_bind; [apply lookahead_J; exact H1|]. intros bb c2 H2. destruct bb; [|apply IH; auto].
        eapply holdsw_bind; [apply exec_J; exact H2|]. intros u c3 H3. cbn [holdsw snd]. auto.
      + destruct (kind_beq (t_kind y) KOther) eqn:Ko.
        * apply kind_beq_eq in Ko. destruct (Hother x y Ix Iy Ko) as [_ (rs & rest & Ep)]. rewrite Ep, Ko.
          destruct (chg t) eqn:Ct.
          -- eapply holdsw_bind; [apply exec_other; [congruence | eapply Jw_weaken; [|exact W]; tauto]|].
             intros u c3 H3. cbn [holdsw snd]. auto.
          -- assert (H1 : J c1) by (eapply Jw_weaken; [|exact W]; intros (_ & _ & X); discriminate X).
             rewrite <- Ep. eapply holdsw_bind; [apply exec_J; exact H1|]. intros u c3 H3. cbn [holdsw snd]. auto.
        * assert (H1 : J c1).
          { eapply Jw_weaken; [|exact W]. intros [K _]. rewrite K in Ko. cbn in Ko. discriminate Ko. }
          eapply holdsw_bind; [apply exec_J; exact H1|]. intros u c3 H3. cbn [holdsw snd]. auto.
    - assert (H1 : J c1) by (eapply Jw_weaken; [|exact W]; intros (_ & X & _); discriminate X).
      apply IH; auto.
  Qed.

  Lemma match_token_J stop s t c : J c -> TokQ t -> holdsw (fun _ c' => J c') (match_token P stop s t c).
  Proof.
    intros H Ht. unfold match_token. destruct (find_state P s) as [x|] eqn:Fs; [|exact H].
    assert (Ix : In x (table P)) by (unfold find_state in Fs; apply find_some in Fs; tauto).
    eapply holdsw_bind; [apply (run_tests_J stop x Ix (s_tests x)); auto|].
    intros [o t1] c1 [Q1 H1]. cbn [fst snd] in *. destruct o; [exact H1|].
    assert (G : J (emit (EvX t1 s) c1)) by (apply Jw_emit; exact H1).
    destruct stop; [exact G|]. eapply holdsw_bind; [apply add_error_J; exact G|]. intros u c3 H3. exact H3.
  Qed.

  Lemma loop_J stop : forall fuel s c, J c -> holdsw (fun _ c' => J c') (loop P fuel stop s c).
  Proof.
    induction fuel as [|f IH]; intros s c H; cbn [loop holdsw]; [exact I|].
    destruct (read_J c H) as [R Rt]. destruct (read P c) as [t c1]. cbn [fst snd] in R, Rt.
    eapply holdsw_bind; [apply match_token_J; assumption|]. intros s' c2 H2. destruct (is_eof P t); [exact H2 | apply IH; exact H2].
  Qed.

  Theorem parse_flag_origin stop toks m b : Forall TokQ toks -> MQ m -> bad m = false ->
    match parse P stop toks m b with
    | Ok _ c | Raise1 _ c | RaiseC _ c | Crash c => bad (ms c) = true -> logged c
    | OutOfFuel => True
    end.
  Proof.
    intros Ht Hm B0.
    assert (J0 : J (init_ctx toks m b)).
    { repeat split; cbn [queue rest ms log init_ctx]; auto. intros X. rewrite B0 in X. discriminate X. }
    assert (G : holdsw (fun _ c' => J c') (parse P stop toks m b)).
    { unfold parse. eapply holdsw_bind; [apply b_call_J0, Jw_emit, J0|]. intros u1 c1 H1.
      eapply holdsw_bind; [apply loop_J; exact H1|]. intros u2 c2 H2.
      eapply holdsw_bind; [apply b_call_J0, Jw_emit, H2|]. intros u3 c3 H3.
      destruct (errs c3); cbn [holdsw]; exact H3. }
    destruct (parse P stop toks m b) as [a c|e c|es c|c|]; cbn [holdsw] in G; try exact I;
      destruct G as (_ & _ & _ & D); intros X; destruct (D X) as [L|[]]; exact L.
  Qed.
End FlagOrigin.
