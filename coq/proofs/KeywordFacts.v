(* C05 / C19 / C10: keyword recognition for every dialect of the regenerated table.
   General lemmas about the matching functions + side-conditions on the table decided by vm_compute. *)
From Coq Require Import String List Bool Arith NArith Lia.
Import ListNotations.
Require Import Kinds PyStr Line Matcher MatcherMd Dialects DialectsMaster PipelineFacts CellsSpec.

Local Open Scope N_scope.

(* ---------------------------------------------------------------- strings *)
Lemma starts_with_app p s : starts_with p (p ++ s) = true.
Proof. induction p as [|c p IH]; simpl; [reflexivity|]. now rewrite N.eqb_refl, IH. Qed.

Lemma starts_with_true p s : starts_with p s = true -> exists r, s = p ++ r.
Proof.
  revert s. induction p as [|c p IH]; intros s H; simpl in *; [eauto|].
  destruct s as [|d s]; [discriminate|]. apply andb_prop in H as [H1 H2]. apply N.eqb_eq in H1. subst d.
  destruct (IH s H2) as [r ->]. eauto.
Qed.

(* p and a are prefix-related: one is a prefix of the other *)
Fixpoint related (p a : str) : bool :=
  match p, a with
  | [], _ | _, [] => true
  | x :: p', y :: a' => (x =? y) && related p' a'
  end.

Lemma starts_with_related p a r : starts_with p (a ++ r) = true -> related p a = true.
Proof.
  revert a. induction p as [|x p IH]; intros a H; [reflexivity|].
  destruct a as [|y a]; [reflexivity|]. simpl in *. apply andb_prop in H as [H1 H2]. rewrite H1. simpl. eauto.
Qed.

Lemma drop_while_all p s r : forallb p s = true -> match r with [] => True | c :: _ => p c = false end ->
  drop_while p (s ++ r) = r.
Proof.
  induction s as [|c s IH]; simpl; intros H Hr.
  - destruct r; simpl; auto. now rewrite Hr.
  - apply andb_prop in H as [H1 H2]. rewrite H1. auto.
Qed.

Lemma lstrip_blanks ws r : forallb is_space ws = true -> match r with [] => True | c :: _ => is_space c = false end ->
  lstrip (ws ++ r) = r.
Proof. apply drop_while_all. Qed.

Lemma app_length_minus {A} (ws r : list A) : (length (ws ++ r) - length r = length ws)%nat.
Proof. rewrite app_length. lia. Qed.

(* a line made of blanks then text starting with a non-blank *)
Lemma make_line_blanks ws r n : forallb is_space ws = true -> match r with [] => True | c :: _ => is_space c = false end ->
  l_trimmed (make_line (ws ++ r) n) = r /\ l_indent (make_line (ws ++ r) n) = length ws.
Proof.
  intros H1 H2. unfold make_line. cbn [l_trimmed l_indent]. rewrite (lstrip_blanks ws r H1 H2).
  split; [reflexivity | apply app_length_minus].
Qed.

(* ---------------------------------------------------------------- side-conditions on the table *)
Definition head_ok (k : str) : bool := match k with [] => false | c :: _ => negb (is_space c) end.
Definition all_keywords_of (d : dialect) : list str :=
  d_feature d ++ d_rule d ++ d_background d ++ d_scenario d ++ d_scenarioOutline d ++ d_examples d
  ++ d_given d ++ d_when d ++ d_then d ++ d_and d ++ d_but d.
Definition heads_ok (ds : list dialect) : bool := forallb (fun d => forallb head_ok (all_keywords_of d)) ds.
Lemma dialects_heads_nonblank : heads_ok dialects = true.
Proof. vm_compute. reflexivity. Qed.

(* no keyword looks like a comment, a tag, a table row or a doc-string delimiter *)
Definition kind_disjoint_kw (k : str) : bool :=
  match k with
  | c :: _ => negb (c =? HASH) && negb (c =? AT) && negb (c =? PIPE)
              && negb (starts_with DQ3 k) && negb (starts_with BT3 k)
  | [] => false
  end.
Definition kinds_disjoint (ds : list dialect) : bool := forallb (fun d => forallb kind_disjoint_kw (all_keywords_of d)) ds.
Lemma dialects_kinds_disjoint : kinds_disjoint dialects = true.
Proof. vm_compute. reflexivity. Qed.

(* title keywords: within a role list no earlier keyword+":" is prefix-related to a later, different one *)
Fixpoint clash_free_from (seen ks : list str) : bool :=
  match ks with
  | [] => true
  | k :: r => forallb (fun k0 => str_eqb k0 k || negb (related (k0 ++ [COLON]) (k ++ [COLON]))) seen
              && clash_free_from (seen ++ [k]) r
  end.
Definition title_lists (d : dialect) : list (list str) :=
  [d_feature d; d_rule d; d_background d; d_scenario d ++ d_scenarioOutline d; d_examples d].
Definition no_title_clash (ds : list dialect) : bool :=
  forallb (fun d => forallb (clash_free_from []) (title_lists d)) ds.
Lemma dialects_no_title_clash : no_title_clash dialects = true.
Proof. vm_compute. reflexivity. Qed.

(* title keyword + ":" of one role is never prefix-related to a keyword + ":" of another role, nor to a step keyword *)
Definition cross_free (d : dialect) : bool :=
  let roles := title_lists d in
  forallb (fun i => forallb (fun j =>
     Nat.eqb i j ||
     forallb (fun a => forallb (fun b => negb (related (a ++ [COLON]) (b ++ [COLON]))) (nth j roles [])) (nth i roles []))
     (seq 0 5)) (seq 0 5)
  && forallb (fun a => forallb (fun s => negb (starts_with s (a ++ [COLON])) || negb (starts_with (a ++ [COLON]) s)) (step_keywords d))
             (concat roles).
Lemma dialects_cross_free : forallb cross_free dialects = true.
Proof. vm_compute. reflexivity. Qed.

(* the shipped table is the master table *)
Lemma table_identity : list_beq (fun a b =>
    str_eqb (d_code a) (d_code b)
    && list_beq (list_beq str_eqb) (title_lists a ++ [d_given a; d_when a; d_then a; d_and a; d_but a])
                                   (title_lists b ++ [d_given b; d_when b; d_then b; d_and b; d_but b]))
  Dialects.dialects dialects_master = true.
Proof. vm_compute. reflexivity. Qed.

(* C10: an and/but keyword is listed once among and++but, unless it is also a given/when/then keyword
   (as "* " is) -- so its keyword type is Conjunction, never Unknown by accident *)
Definition conjunctions_ok (d : dialect) : bool :=
  forallb (fun k => Nat.eqb (count_in k (d_and d ++ d_but d)) 1
                    || existsb (str_eqb k) (d_given d ++ d_when d ++ d_then d)) (d_and d ++ d_but d).
Lemma dialects_conjunctions_ok : forallb conjunctions_ok dialects = true.
Proof. vm_compute. reflexivity. Qed.

(* ---------------------------------------------------------------- classic matcher: title lines *)
Lemma first_title_keyword_split l (pre : list str) (k : str) (post : list str) :
  Forall (fun k0 => startswith_title_keyword l k0 = false \/ k0 = k) pre ->
  startswith_title_keyword l k = true ->
  first_title_keyword l (pre ++ k :: post) = Some k.
Proof.
  intros Hp Hk. induction Hp as [|k0 pre H0 Hp IH]; simpl.
  - now rewrite Hk.
  - destruct (startswith_title_keyword l k0) eqn:E; [|exact IH]. destruct H0 as [H0| ->]; [congruence | reflexivity].
Qed.

Lemma clash_free_split : forall (ks seen pre : list str) (k : str) (post : list str), clash_free_from seen ks = true -> ks = pre ++ k :: post ->
  Forall (fun k0 => k0 = k \/ related (k0 ++ [COLON]) (k ++ [COLON]) = false) (seen ++ pre).
Proof.
  induction ks as [|x ks IH]; intros seen pre k post H E; [destruct pre; discriminate|].
  simpl in H. apply andb_prop in H as [H1 H2].
  destruct pre as [|y pre]; simpl in E; inversion E; subst.
  - rewrite app_nil_r. rewrite forallb_forall in H1. apply Forall_forall. intros k0 Hk0. specialize (H1 k0 Hk0).
    apply orb_prop in H1 as [H1|H1]; [left; now apply str_eqb_eq | right; now apply negb_true_iff].
  - specialize (IH (seen ++ [y]) pre k post H2 eq_refl). rewrite <- app_assoc in IH. exact IH.
Qed.

(* C05_title: blanks, a listed keyword, ':' and any rest: recognised with that keyword, the stripped
   rest as name, the column of the keyword *)
Theorem title_line_recognised m t (ks pre : list str) (k : str) (post : list str) (ws rest : str) n ty :
  tk_line t = Some (make_line (ws ++ k ++ [COLON] ++ rest) n) ->
  ks = pre ++ k :: post -> clash_free_from [] ks = true -> head_ok k = true ->
  forallb is_space ws = true ->
  match_title_line m t (make_line (ws ++ k ++ [COLON] ++ rest) n) ty ks
  = MYes (set_matched m t ty (Some (strip rest)) (Some k) None None []) m
  /\ m_indent (set_matched m t ty (Some (strip rest)) (Some k) None None []) = length ws.
Proof.
  intros L E CF HK WS.
  assert (HD : match k ++ [COLON] ++ rest with [] => True | c :: _ => is_space c = false end).
  { destruct k as [|c k]; [discriminate|]. simpl in *. now apply negb_true_iff. }
  destruct (make_line_blanks ws (k ++ [COLON] ++ rest) n WS HD) as [Tr In_].
  set (l := make_line (ws ++ k ++ [COLON] ++ rest) n) in *.
  assert (Hk : startswith_title_keyword l k = true).
  { unfold startswith_title_keyword. rewrite Tr. change (k ++ [COLON] ++ rest) with (k ++ ([COLON] ++ rest)).
    rewrite app_assoc. apply starts_with_app. }
  assert (Hpre : Forall (fun k0 => startswith_title_keyword l k0 = false \/ k0 = k) pre).
  { pose proof (clash_free_split ks [] pre k post CF E) as F. simpl in F.
    eapply Forall_impl; [|exact F]. intros k0 [->|R]; [now right|left].
    unfold startswith_title_keyword. rewrite Tr. destruct (starts_with (k0 ++ [COLON]) (k ++ [COLON] ++ rest)) eqn:S; [|reflexivity].
    rewrite app_assoc in S. apply starts_with_related in S. congruence. }
  unfold match_title_line. rewrite E, (first_title_keyword_split l pre k post Hpre Hk).
  assert (Rest : get_rest_trimmed l (length k + 1) = strip rest).
  { unfold get_rest_trimmed. rewrite Tr. f_equal.
    replace (length k + 1)%nat with (length (k ++ [COLON])) by (rewrite app_length; reflexivity).
    rewrite app_assoc. apply CellsSpec.skipn_app_length. }
  rewrite Rest. split; [reflexivity|].
  cbn [m_indent set_matched]. rewrite L. exact In_.
Qed.

(* the scenario test tries the scenario keywords then the outline keywords: the same as one list *)
Lemma first_title_keyword_app l a b :
  first_title_keyword l (a ++ b) = match first_title_keyword l a with Some k => Some k | None => first_title_keyword l b end.
Proof. induction a as [|x a IH]; simpl; [reflexivity|]. destruct (startswith_title_keyword l x); auto. Qed.

Lemma scenario_line_concat m t l ty a b :
  match match_title_line m t l ty a with MNo => match_title_line m t l ty b | r => r end
  = match_title_line m t l ty (a ++ b).
Proof.
  unfold match_title_line. rewrite first_title_keyword_app.
  destruct (first_title_keyword l a); reflexivity.
Qed.

(* every dialect, every title role *)
Lemma title_list_facts d ks : In d dialects -> In ks (title_lists d) ->
  clash_free_from [] ks = true /\ forall k, In k ks -> head_ok k = true.
Proof.
  intros Hd Hks. split.
  - pose proof dialects_no_title_clash as A. unfold no_title_clash in A. rewrite forallb_forall in A.
    specialize (A d Hd). rewrite forallb_forall in A. auto.
  - intros k Hk. pose proof dialects_heads_nonblank as A. unfold heads_ok in A. rewrite forallb_forall in A.
    specialize (A d Hd). rewrite forallb_forall in A. apply A. unfold all_keywords_of, title_lists in *.
    simpl in Hks. repeat rewrite in_app_iff.
    destruct Hks as [<-|[<-|[<-|[<-|[<-|[]]]]]]; auto 12. apply in_app_iff in Hk as [Hk|Hk]; auto 12.
Qed.

Theorem title_recognised_all_dialects d (ks pre : list str) (k : str) (post : list str) m t (ws rest : str) n ty :
  In d dialects -> In ks (title_lists d) -> ks = pre ++ k :: post ->
  tk_line t = Some (make_line (ws ++ k ++ [COLON] ++ rest) n) -> forallb is_space ws = true ->
  match_title_line m t (make_line (ws ++ k ++ [COLON] ++ rest) n) ty ks
  = MYes (set_matched m t ty (Some (strip rest)) (Some k) None None []) m
  /\ m_indent (set_matched m t ty (Some (strip rest)) (Some k) None None []) = length ws.
Proof.
  intros Hd Hks E L WS. destruct (title_list_facts d ks Hd Hks) as [CF HO].
  apply (title_line_recognised m t ks pre k post ws rest n ty L E CF); auto.
  apply HO. rewrite E. apply in_or_app. right. now left.
Qed.

(* foreign words: a line starting with no listed keyword + ':' is not a title line *)
Lemma first_title_keyword_none l ks : Forall (fun k => startswith_title_keyword l k = false) ks -> first_title_keyword l ks = None.
Proof. induction 1 as [|k ks Hk _ IH]; simpl; [reflexivity|]. now rewrite Hk. Qed.
Theorem foreign_not_title m t l ty ks : Forall (fun k => startswith_title_keyword l k = false) ks ->
  match_title_line m t l ty ks = MNo.
Proof. intros H. unfold match_title_line. now rewrite (first_title_keyword_none l ks H). Qed.

(* ---------------------------------------------------------------- steps *)
Lemma first_prefix_split l (pre : list str) (k : str) (post : list str) :
  Forall (fun k0 => line_startswith l k0 = false \/ k0 = k) pre -> line_startswith l k = true ->
  first_prefix l (pre ++ k :: post) = Some k.
Proof.
  intros Hp Hk. induction Hp as [|k0 pre H0 Hp IH]; simpl.
  - now rewrite Hk.
  - destruct (line_startswith l k0) eqn:E; [|exact IH]. destruct H0 as [H0| ->]; [congruence | reflexivity].
Qed.

Lemma first_prefix_some l ks k : first_prefix l ks = Some k ->
  exists pre post, ks = pre ++ k :: post /\ line_startswith l k = true /\ Forall (fun k0 => line_startswith l k0 = false) pre.
Proof.
  induction ks as [|x ks IH]; simpl; [discriminate|]. destruct (line_startswith l x) eqn:E.
  - intros H. inversion H; subst. exists [], ks. auto.
  - intros H. destruct (IH H) as (pre & post & -> & Hk & Hp). exists (x :: pre), post. auto.
Qed.

(* C05_step: the first listed keyword (given, when, then, and, but order) that prefixes the line *)
Theorem step_line_recognised ds m t (pre : list str) (k : str) (post : list str) (ws rest : str) n :
  let l := make_line (ws ++ k ++ rest) n in
  tk_line t = Some l -> step_keywords (ms_dialect m) = pre ++ k :: post ->
  Forall (fun k0 => starts_with k0 (k ++ rest) = false \/ k0 = k) pre -> head_ok k = true -> forallb is_space ws = true ->
  matcher ds KStepLine m t
  = MYes (set_matched m t KStepLine (Some (strip rest)) (Some k) (Some (keyword_type (ms_dialect m) k)) None []) m
  /\ m_indent (set_matched m t KStepLine (Some (strip rest)) (Some k) (Some (keyword_type (ms_dialect m) k)) None []) = length ws.
Proof.
  intros l L E Hp HK WS.
  assert (HD : match k ++ rest with [] => True | c :: _ => is_space c = false end).
  { destruct k as [|c k]; [discriminate|]. simpl in *. now apply negb_true_iff. }
  destruct (make_line_blanks ws (k ++ rest) n WS HD) as [Tr In_]. fold l in Tr, In_.
  unfold matcher. rewrite L.
  assert (F : first_prefix l (step_keywords (ms_dialect m)) = Some k).
  { rewrite E. apply first_prefix_split.
    - eapply Forall_impl; [|exact Hp]. intros k0 [H|H]; [left|now right]. unfold line_startswith. now rewrite Tr.
    - unfold line_startswith. rewrite Tr. apply starts_with_app. }
  rewrite F.
  assert (Rest : get_rest_trimmed l (length k) = strip rest).
  { unfold get_rest_trimmed. rewrite Tr. f_equal. apply CellsSpec.skipn_app_length. }
  rewrite Rest. split; [reflexivity|]. cbn [m_indent set_matched]. rewrite L. exact In_.
Qed.

(* keyword types: the category when listed once, Unknown when listed more than once *)
Lemma repeat_length_1 {A} (x : A) n l : repeat x n = l -> length l = n.
Proof. intros <-. apply repeat_length. Qed.

Theorem keyword_type_spec d k :
  let g := count_in k (d_given d) in let w := count_in k (d_when d) in
  let th := count_in k (d_then d) in let c := count_in k (d_and d ++ d_but d) in
  (g + w + th + c = 1 -> keyword_type d k = if Nat.eqb g 1 then Context else if Nat.eqb w 1 then Action
                                             else if Nat.eqb th 1 then Outcome else Conjunction)%nat
  /\ (g + w + th + c <> 1 -> keyword_type d k = Unknown)%nat.
Proof.
  cbv zeta. unfold keyword_type, keyword_types.
  set (g := count_in k (d_given d)). set (w := count_in k (d_when d)).
  set (th := count_in k (d_then d)). set (c := count_in k (d_and d ++ d_but d)).
  split; intros H.
  - destruct g as [|[|g]]; destruct w as [|[|w]]; destruct th as [|[|th]]; destruct c as [|[|c]]; simpl in H; try lia; reflexivity.
  - destruct g as [|[|g]]; destruct w as [|[|w]]; destruct th as [|[|th]]; destruct c as [|[|c]]; simpl in H; try lia;
      simpl; try reflexivity;
      repeat match goal with |- context [repeat ?x (S ?n)] => change (repeat x (S n)) with (x :: repeat x n) end;
      simpl; try reflexivity;
      repeat match goal with |- context [match ?l ++ _ with _ => _ end] => destruct l end; reflexivity.
Qed.

(* ---------------------------------------------------------------- language header *)
Lemma take_while_app_stop p a r : forallb p a = true -> match r with [] => True | c :: _ => p c = false end ->
  take_while p (a ++ r) = a.
Proof.
  induction a as [|c a IH]; simpl; intros H Hr.
  - destruct r; simpl; auto. now rewrite Hr.
  - apply andb_prop in H as [H1 H2]. rewrite H1. f_equal. auto.
Qed.

Lemma lang_char_not_space c : is_lang_char c = true -> is_space c = false.
Proof.
  intros H. destruct (is_space c) eqn:S; [|reflexivity]. exfalso. unfold is_lang_char, is_space in *.
  repeat rewrite ?orb_true_iff, ?andb_true_iff, ?N.leb_le, ?N.eqb_eq in H.
  repeat rewrite ?orb_true_iff, ?andb_true_iff, ?N.leb_le, ?N.eqb_eq in S. lia.
Qed.
Lemma space_not_lang_char c : is_space c = true -> is_lang_char c = false.
Proof. intros H. destruct (is_lang_char c) eqn:L; [|reflexivity]. apply lang_char_not_space in L. congruence. Qed.

Definition LANGUAGE_WORD : str := [108; 97; 110; 103; 117; 97; 103; 101].   (* "language" *)
Lemma language_word : LANGUAGE_WORD = s2l "language"%string.
Proof. reflexivity. Qed.

(* blanks # blanks "language" blanks : blanks NAME blanks, NAME over [A-Za-z_-]+ *)
Theorem language_header_spec (w1 w2 w3 w4 name w5 : str) :
  forallb is_space w1 = true -> forallb is_space w2 = true -> forallb is_space w3 = true ->
  forallb is_space w4 = true -> forallb is_space w5 = true ->
  name <> [] -> forallb is_lang_char name = true ->
  language_header (w1 ++ [HASH] ++ w2 ++ LANGUAGE_WORD ++ w3 ++ [COLON] ++ w4 ++ name ++ w5) = Some name.
Proof.
  intros H1 H2 H3 H4 H5 Hn Hl. unfold language_header. rewrite <- language_word.
  rewrite (drop_while_all is_space w1 _ H1) by reflexivity. cbn [app]. rewrite N.eqb_refl.
  rewrite (drop_while_all is_space w2 _ H2) by reflexivity.
  rewrite starts_with_app. change 8%nat with (length LANGUAGE_WORD). rewrite CellsSpec.skipn_app_length.
  rewrite (drop_while_all is_space w3 _ H3) by reflexivity. cbn [app]. rewrite N.eqb_refl.
  assert (Hh : match name ++ w5 with [] => True | c :: _ => is_space c = false end).
  { destruct name as [|c name]; [congruence|]. simpl in *. apply andb_prop in Hl as [Hl _]. now apply lang_char_not_space. }
  rewrite (drop_while_all is_space w4 _ H4) by exact Hh.
  assert (Tk : take_while is_lang_char (name ++ w5) = name).
  { apply take_while_app_stop; [exact Hl|]. destruct w5 as [|c w5]; [exact Logic.I|]. simpl in H5.
    apply andb_prop in H5 as [H5 _]. now apply space_not_lang_char. }
  rewrite Tk. destruct name as [|c name]; [congruence|].
  rewrite CellsSpec.skipn_app_length. rewrite H5. reflexivity.
Qed.

(* ---------------------------------------------------------------- Markdown matcher (C19) *)
Lemma first_kw_split (pre : list str) (k : str) (post : list str) (suffix s : str) :
  Forall (fun k0 => starts_with (k0 ++ suffix) s = false \/ k0 = k) pre -> starts_with (k ++ suffix) s = true ->
  first_kw (pre ++ k :: post) suffix s = Some k.
Proof.
  intros Hp Hk. induction Hp as [|k0 pre H0 Hp IH]; simpl.
  - now rewrite Hk.
  - destruct (starts_with (k0 ++ suffix) s) eqn:E; [|exact IH]. destruct H0 as [H0| ->]; [congruence | reflexivity].
Qed.
Lemma first_kw_none ks suffix s : Forall (fun k => starts_with (k ++ suffix) s = false) ks -> first_kw ks suffix s = None.
Proof. induction 1 as [|k ks Hk _ IH]; simpl; [reflexivity|]. now rewrite Hk. Qed.

Lemma count_while_repeat c n r : match r with [] => True | d :: _ => (d =? c) = false end ->
  count_while (fun x => x =? c) (repeat c n ++ r) = n.
Proof.
  intros Hr. unfold count_while. rewrite take_while_app_stop.
  - apply repeat_length.
  - induction n; simpl; [reflexivity|]. now rewrite N.eqb_refl.
  - exact Hr.
Qed.

Lemma skipn_repeat_app {A} (c : A) n r : skipn n (repeat c n ++ r) = r.
Proof. induction n; simpl; auto. Qed.

Lemma skipn_add {A} (n m : nat) (l : list A) : skipn (n + m) l = skipn m (skipn n l).
Proof. revert l. induction n as [|n IH]; intros l; simpl; [reflexivity|]. destruct l; [now rewrite skipn_nil | apply IH]. Qed.

Lemma space_not_hash c : is_space c = true -> (c =? HASH) = false.
Proof. intros H. destruct (c =? HASH) eqn:E; [|reflexivity]. apply N.eqb_eq in E. subst. discriminate. Qed.

(* one to six '#', one whitespace character, a listed keyword, ':' : recognised with that keyword,
   the trimmed title, the column of the keyword *)
Theorem md_header_recognised m t (ks pre : list str) (k : str) (post : list str) (ws rest : str) depth sp n ty :
  let line := ws ++ repeat HASH depth ++ [sp] ++ k ++ [COLON] ++ rest in
  ks = pre ++ k :: post -> clash_free_from [] ks = true ->
  (1 <= depth <= 6)%nat -> is_space sp = true -> forallb is_space ws = true ->
  md_title m t (make_line line n) true ks [COLON] ty
  = Some (set_matched m t ty (Some (strip (dot_star rest))) (Some k) None (Some (length ws + S depth)%nat) []).
Proof.
  intros line E CF Hd Hsp WS.
  assert (HD : match repeat HASH depth ++ [sp] ++ k ++ [COLON] ++ rest with [] => True | c :: _ => is_space c = false end).
  { destruct depth; [lia|]. reflexivity. }
  destruct (make_line_blanks ws _ n WS HD) as [Tr In_]. fold line in Tr, In_.
  unfold md_title. rewrite Tr, In_.
  assert (HP : header_prefix (repeat HASH depth ++ [sp] ++ k ++ [COLON] ++ rest) = Some (S depth)).
  { unfold header_prefix. rewrite count_while_repeat by (cbn [app]; now apply space_not_hash).
    assert (B : ((1 <=? depth)%nat && (depth <=? 6)%nat) = true).
    { apply andb_true_intro. split; apply Nat.leb_le; lia. }
    rewrite B, skipn_repeat_app. cbn [app]. now rewrite Hsp. }
  rewrite HP.
  assert (SK : skipn (S depth) (repeat HASH depth ++ [sp] ++ k ++ [COLON] ++ rest) = k ++ [COLON] ++ rest).
  { replace (S depth) with (depth + 1)%nat by lia. rewrite skipn_add, skipn_repeat_app. reflexivity. }
  rewrite SK.
  assert (FK : first_kw ks [COLON] (k ++ [COLON] ++ rest) = Some k).
  { rewrite E. apply first_kw_split.
    - pose proof (clash_free_split ks [] pre k post CF E) as F. simpl in F.
      eapply Forall_impl; [|exact F]. intros k0 [->|R]; [now right|left].
      destruct (starts_with (k0 ++ [COLON]) (k ++ [COLON] ++ rest)) eqn:S; [|reflexivity].
      rewrite app_assoc in S. apply starts_with_related in S. congruence.
    - rewrite app_assoc. apply starts_with_app. }
  rewrite FK. cbn [option_map].
  replace (S depth + length k + length [COLON])%nat with (S depth + length (k ++ [COLON]))%nat by (rewrite app_length; lia).
  rewrite skipn_add, SK, app_assoc, CellsSpec.skipn_app_length. reflexivity.
Qed.

(* lines lacking the header prefix are not keyword lines *)
Theorem md_no_header_no_title m t l ks ty : header_prefix (l_trimmed l) = None -> md_title m t l true ks [COLON] ty = None.
Proof. intros H. unfold md_title. now rewrite H. Qed.

Lemma header_prefix_none_nohash s : match s with [] => True | c :: _ => (c =? HASH) = false end -> header_prefix s = None.
Proof. unfold header_prefix, count_while. destruct s as [|c s]; [reflexivity|]. intros H. simpl. now rewrite H. Qed.

(* a table row is recognised only with two to five leading blanks *)
Theorem md_table_indent_spec text : md_table_indent text = true ->
  let n := count_while is_space text in (2 <= n <= 5)%nat /\ exists r, skipn n text = PIPE :: r.
Proof.
  unfold md_table_indent. intros H. cbv zeta. apply andb_prop in H as [H H3]. apply andb_prop in H as [H1 H2].
  apply Nat.leb_le in H1. apply Nat.leb_le in H2. split; [lia|].
  destruct (skipn _ text) as [|c r]; [discriminate|]. apply N.eqb_eq in H3. subst. eauto.
Qed.

(* ---- the language header pattern, the other way round: what is recognised has the shape, nothing else does ---- *)
Lemma drop_while_split p s : exists a, s = a ++ drop_while p s /\ forallb p a = true.
Proof.
  induction s as [|c s IH]; [exists []; auto|]. cbn [drop_while]. destruct (p c) eqn:E.
  - destruct IH as (a & Ea & Fa). exists (c :: a). cbn [app forallb]. rewrite E, Fa, <- Ea. auto.
  - exists []. auto.
Qed.
Lemma take_while_split p s : s = take_while p s ++ skipn (length (take_while p s)) s /\ forallb p (take_while p s) = true.
Proof.
  induction s as [|c s IH]; [auto|]. cbn [take_while]. destruct (p c) eqn:E; [|auto].
  cbn [length skipn app forallb]. rewrite E. destruct IH as (Ea & Fa). rewrite <- Ea. auto.
Qed.
Lemma starts_with_split p : forall s, starts_with p s = true -> s = p ++ skipn (length p) s.
Proof.
  induction p as [|c p IH]; intros s H; [reflexivity|]. destruct s as [|d s]; [discriminate|]. cbn [starts_with] in H.
  apply andb_prop in H as [E H]. apply N.eqb_eq in E. subst d. cbn [app length skipn]. f_equal. exact (IH s H).
Qed.

Theorem language_header_shape s name : language_header s = Some name ->
  exists w1 w2 w3 w4 w5, s = w1 ++ [HASH] ++ w2 ++ LANGUAGE_WORD ++ w3 ++ [COLON] ++ w4 ++ name ++ w5
    /\ forallb is_space w1 = true /\ forallb is_space w2 = true /\ forallb is_space w3 = true /\ forallb is_space w4 = true
    /\ forallb is_space w5 = true /\ name <> [] /\ forallb is_lang_char name = true.
Proof.
  unfold language_header. rewrite <- language_word.
  destruct (drop_while_split is_space s) as (w1 & E1 & F1). destruct (drop_while is_space s) as [|c s2] eqn:D1; [discriminate|].
  destruct (c =? HASH) eqn:Eh; [|discriminate]. apply N.eqb_eq in Eh. subst c.
  destruct (drop_while_split is_space s2) as (w2 & E2 & F2). set (s3 := drop_while is_space s2) in *.
  destruct (starts_with LANGUAGE_WORD s3) eqn:Sw; [|discriminate]. pose proof (starts_with_split _ _ Sw) as E3.
  change (length LANGUAGE_WORD) with 8%nat in E3.
  destruct (drop_while_split is_space (skipn 8 s3)) as (w3 & E4 & F3). destruct (drop_while is_space (skipn 8 s3)) as [|c' s5] eqn:D4; [discriminate|].
  destruct (c' =? COLON) eqn:Ec; [|discriminate]. apply N.eqb_eq in Ec. subst c'.
  destruct (drop_while_split is_space s5) as (w4 & E5 & F4). set (s6 := drop_while is_space s5) in *.
  destruct (take_while_split is_lang_char s6) as (E6 & F6). destruct (take_while is_lang_char s6) as [|n0 nm] eqn:Tk; [discriminate|].
  destruct (forallb is_space (skipn (length (n0 :: nm)) s6)) eqn:F5; [|discriminate]. intros H. inversion H; subst name.
  exists w1, w2, w3, w4, (skipn (length (n0 :: nm)) s6). repeat split; try assumption; try discriminate.
  rewrite E1. f_equal. cbn [app]. f_equal. rewrite E2. f_equal. rewrite E3. f_equal. rewrite E4. f_equal. cbn [app]. f_equal. rewrite E5. f_equal. exact E6.
Qed.
