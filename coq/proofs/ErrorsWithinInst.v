(* C14: every error a parse of a source text reports -- collected or raised at once -- lies within the document:
   at one of its physical lines, or (end of file) one line past the last. *)
From Coq Require Import String.
From Coq Require Import List Bool Arith Lia.
Import ListNotations.
Require Import Kinds PyStr Line Matcher MatcherFacts Ast Builder BuilderSafe Automaton AutoFacts Pipeline PipelineFacts Dialects Table
               MatcherTyping PipelineErrors Delivery DeliveryInst ErrorsWithin LocationsAst AstIds DenseFacts.

Notation rP := (pipeline_params Table.table).

Section N.
  Variable N : nat.

  Definition line_ok (t : token) (l : gline) : Prop := l_no l = loc_line (tk_loc t) /\ 1 <= l_no l <= N.
  Definition TokQ (t : token) : Prop :=
    match tk_line t with
    | Some l => line_ok t l
    | None => m_type t = None \/ m_type t = Some KEOF
    end.
  Definition ErrP (e : perror) : Prop := 1 <= loc_line (e_loc e) <= N.
  (* tokens kept in open nodes: all but the end-of-file token come from lines of the document *)
  Definition it_ok (kv : key * value) : Prop :=
    forall t, snd kv = VTok t -> fst kv = KT KEOF \/ exists l, tk_line t = Some l /\ line_ok t l.
  Definition BI (b : bstate) : Prop := Forall (fun n => Forall it_ok (node_items n)) (b_stack b).

  Lemma tokq_eof n : TokQ (eof_token n).
  Proof. unfold TokQ, eof_token. cbn. now left. Qed.

  Lemma tokq_matcher k m t : TokQ t ->
    match matcher dialects k m t with
    | MNo => True
    | MYes t' _ => TokQ t'
    | MErr e t' _ => TokQ t' /\ ErrP e
    end.
  Proof.
    intros Ht. unfold TokQ in Ht. unfold matcher.
    destruct k; destruct (tk_line t) as [l|] eqn:L; try exact I;
      unfold match_title_line, match_docsep; matcher_cases; try exact I;
      unfold TokQ, set_matched, line_ok in *; cbn [tk_line tk_loc loc_line m_type]; rewrite ?L; auto.
    all: split; [exact Ht|]; unfold ErrP, parser_exception; cbn [e_loc loc_line];
      first [apply Ht | destruct Ht as [E R]; rewrite <- E; exact R].
  Qed.

  Lemma tokq_matchf k m t : TokQ t ->
    match matchf rP k m t with MR _ t' _ => TokQ t' | MRaise e t' _ => TokQ t' /\ ErrP e end.
  Proof.
    intros Ht. cbn [matchf pipeline_params]. unfold p_matchf. pose proof (tokq_matcher k m t Ht) as H.
    destruct (matcher dialects k m t); auto.
  Qed.

  Lemma bi_start r b : BI b -> match b_start rP r b with BOk b' => BI b' | BRaise e b' => BI b' /\ ErrP e | BCrash => True end.
  Proof. intros H. cbn. constructor; [constructor | exact H]. Qed.

  Lemma bi_build t b : TokQ t -> BI b -> match b_build rP t b with BOk b' => BI b' | BRaise e b' => BI b' /\ ErrP e | BCrash => True end.
  Proof.
    intros Ht H. cbn [b_build pipeline_params]. unfold p_bbuild, builder_build.
    destruct (m_type t) as [k|] eqn:Mt; [|exact I].
    assert (G : match lift_bout (match b_stack b with
                                 | [] => BoCrash
                                 | cur :: stk => BoOk (mk_bstate (node_add cur (KT k) (VTok t) :: stk) (b_comments b) (b_idc b))
                                 end) with BOk b' => BI b' | BRaise e b' => BI b' /\ ErrP e | BCrash => True end).
    { unfold BI in *. destruct (b_stack b) as [|cur stk]; [exact I|]. cbn [lift_bout b_stack]. inversion H as [|x xs Hc Hs]; subst.
      constructor; [|exact Hs]. destruct cur as [rt items]. cbn [node_add node_items]. apply Forall_app. split; [exact Hc|].
      constructor; [|constructor]. intros t0 E. cbn [fst snd] in *. inversion E; subst t0. unfold TokQ in Ht.
      destruct (tk_line t) as [l|]; [right; eauto|]. left. destruct Ht as [Ht|Ht]; congruence. }
    destruct k; try exact G. destruct (m_text t); [exact H | exact I].
  Qed.

  (* a ragged table is reported at one of its own rows *)
  Lemma rows_locs ts : forall i rows i', rows_of_tokens ts i = (rows, i') -> Forall (fun r => exists t, In t ts /\ r_loc r = tk_loc t) rows.
  Proof.
    induction ts as [|t r IH]; intros i rows i' H; cbn in H.
    - inversion H. constructor.
    - destruct (rows_of_tokens r (S i)) as [rs j] eqn:E. inversion H; subst. constructor.
      + exists t. split; [now left | reflexivity].
      + eapply Forall_impl; [|apply (IH _ _ _ E)]. intros x (t0 & Hin & Hl). exists t0. split; [now right | exact Hl].
  Qed.
  Lemma toks_of_in vs ts t : toks_of vs = Some ts -> In t ts -> In (VTok t) vs.
  Proof.
    revert ts. induction vs as [|v r IH]; intros ts H Hin; cbn in H; [inversion H; subst; contradiction|].
    destruct v; try discriminate. destruct (toks_of r) as [l|] eqn:E; [|discriminate]. inversion H; subst.
    destruct Hin as [->|Hin]; [now left | right; eapply IH; eauto].
  Qed.
  Lemma table_rows_raise n i e i' : Forall it_ok (node_items n) -> get_table_rows n i = TRaise e i' -> ErrP e.
  Proof.
    intros F. unfold get_table_rows. destruct (get_tokens n KTableRow) as [ts|] eqn:G; [|discriminate].
    destruct (rows_of_tokens ts i) as [rows j] eqn:R. destruct (first_ragged rows) as [r|] eqn:Fr; [|discriminate].
    intros H. inversion H; subst. clear H. unfold ErrP, parser_exception. cbn [e_loc].
    assert (Hr : In r rows).
    { unfold first_ragged in Fr. destruct rows as [|r0 rs]; [discriminate|]. apply find_some in Fr. apply Fr. }
    pose proof (rows_locs _ _ _ _ R) as L. rewrite Forall_forall in L. destruct (L r Hr) as (t & Hin & ->).
    unfold get_tokens in G. pose proof (toks_of_in _ _ _ G Hin) as Hv. unfold get_items in Hv.
    apply in_map_iff in Hv as [[k v] [Ev Hf]]. cbn in Ev. subst v. apply filter_In in Hf as [Hi Hk]. cbn in Hk. apply key_beq_eq in Hk. subst k.
    rewrite Forall_forall in F. destruct (F _ Hi t eq_refl) as [X|(l & Hl & E & Rg)]; [discriminate|]. rewrite <- E. exact Rg.
  Qed.
  Lemma transform_raise n c i e i' : transform_node n c i = TRaise e i' -> get_table_rows n i = TRaise e i'.
  Proof.
    unfold transform_node, tbind, opt_crash. intros H.
    destruct (node_rt n) as [k|r|]; try discriminate. destruct r; try discriminate; peel_in H; try discriminate.
    all: inversion H; subst; clear H; try reflexivity.
    all: try match goal with
             | G : get_tags ?m ?j = TRaise _ _ |- _ => exfalso; pose proof (AstIds.get_tags_ids m j) as T; rewrite G in T; exact T
             | G : get_table_rows ?m ?j = TRaise _ _ |- _ => exact G
             end.
  Qed.

  Lemma bi_end r b : BI b -> match b_end rP r b with BOk b' => BI b' | BRaise e b' => BI b' /\ ErrP e | BCrash => True end.
  Proof.
    intros H. cbn [b_end pipeline_params]. unfold p_bend, builder_end. unfold BI in *.
    destruct (b_stack b) as [|n stk] eqn:S; [exact I|]. inversion H as [|x xs Hn Hs]; subst.
    destruct (transform_node n (b_comments b) (b_idc b)) as [v i|e i|] eqn:T; cbn [lift_bout]; [| |exact I].
    - destruct stk as [|cur stk']; [exact I|]. cbn [lift_bout b_stack]. inversion Hs as [|y ys Hc Hs']; subst.
      constructor; [|exact Hs']. destruct cur as [rt items]. cbn [node_add node_items]. apply Forall_app. split; [exact Hc|].
      constructor; [|constructor]. intros t0 E. cbn [fst snd] in *. subst v.
      (* a transformation never yields a bare token *)
      exfalso. clear -T. unfold transform_node, tbind, opt_crash in T. peel_in T; inversion T.
    - cbn [b_stack]. split; [exact Hs|]. apply (table_rows_raise n (b_idc b) e i Hn). apply (transform_raise _ _ _ _ _ T).
  Qed.
End N.

(* tokens of a source *)
Lemma number_lines_tokq N ls : forall n, n + length ls <= S N -> 1 <= n -> Forall (TokQ N) (number_lines ls n).
Proof.
  induction ls as [|l r IH]; intros n Hn H1; cbn [number_lines]; [constructor|]. cbn [length] in Hn. constructor.
  - unfold TokQ, raw_token, line_ok. cbn. lia.
  - apply IH; lia.
Qed.

Lemma prefix_in {K} (pre l : list K) x : prefix_of K pre l -> In x pre -> In x l.
Proof. intros [suf ->] H. apply in_or_app. now left. Qed.

(* every error lies within the document: lines 1 .. n, or n + 1 for the end of file *)
Theorem errors_within stop m b src : wf_ms m ->
  let n := length (py_lines src) in
  match parse_source stop m b src with
  | PErrs es _ _ _ => Forall (fun e => 1 <= loc_line (e_loc e) <= S n) es
  | PErr1 e _ _ _ => 1 <= loc_line (e_loc e) <= S n
  | _ => True
  end.
Proof.
  intros W n. unfold parse_source. pose proof (source_delivery stop m b src W) as Dl.
  unfold parse_tokens, parse_tokens_with in *.
  assert (Ht : Forall (TokQ n) (scan src)) by (unfold scan; apply number_lines_tokq; lia).
  assert (Hb : BI n (reset_builder b)) by (constructor; [constructor | constructor]).
  pose proof (parse_errors rP (TokQ n) (ErrP n) (BI n) (tokq_eof n) (tokq_matchf n) (bi_start n) (bi_end n) (bi_build n)
                stop (scan src) (reset_matcher dialects m) (reset_builder b) Ht Hb) as E.
  assert (Fin : forall (c : pctx) e, prefix_of _ (delivered _ tkey c) (source_keys src) -> eok rP (ErrP n) (log c) e -> 1 <= loc_line (e_loc e) <= S n).
  { intros c e Pre [He|(t & s & exp & Hin & ->)]; [unfold ErrP in He; lia|].
    assert (Hd : In (tkey t) (delivered _ tkey c)).
    { unfold delivered, events. apply in_flat_map. exists (EvX t s). split; [apply -> in_rev; exact Hin | now left]. }
    apply (prefix_in _ _ _ Pre) in Hd. apply in_source_keys in Hd as [(i & text & Hn & Hk)|Hnone].
    - unfold tkey in Hk. inversion Hk as [[K1 K2]]. cbn [mk_unexpected pipeline_params]. destruct (unexpected_token_location t _ exp K1) as [-> _]. rewrite K2.
      assert (i < n) by (apply nth_error_Some; congruence). lia.
    - (* the end-of-file token: its key is the last of the source's keys *)
      unfold tkey in Hnone. cbn in Hnone. cbn [mk_unexpected pipeline_params]. unfold unexpected. rewrite Hnone. cbn [e_loc parser_exception].
      assert (Hl : In (tkey t) (source_keys src)) by (apply (prefix_in _ _ _ Pre); unfold delivered, events; apply in_flat_map; exists (EvX t s); split; [apply -> in_rev; exact Hin | now left]).
      unfold source_keys in Hl. apply in_app_or in Hl as [Hl|[Hl|[]]].
      + apply in_map_iff in Hl as [[tx k] [Hx _]]. unfold tkey in Hx. inversion Hx. congruence.
      + unfold tkey in Hl. inversion Hl as [[K1 K2]]. unfold n. lia. }
  destruct (parse rP stop (scan src) (reset_matcher dialects m) (reset_builder b)) as [[] c|e c|es c|c|]; try exact I.
  - destruct (builder_result (bs c)); exact I.
  - apply (Fin c e Dl E).
  - destruct Dl as [Pre _]. eapply Forall_impl; [|exact E]. intros e He. apply (Fin c e Pre He).
Qed.

(* ---- the four faults: what an error can be ---- *)
Definition fault (e : perror) : Prop :=
  (e_kind e = ETag /\ exists l, e_msg e = loc_prefix l ++ s2l "A tag may not contain whitespace"%string)
  \/ (e_kind e = ENoSuchLanguage /\ exists l name, e_msg e = loc_prefix l ++ s2l "Language not supported: "%string ++ name)
  \/ (e_kind e = EAstBuilder /\ exists l, e_msg e = loc_prefix l ++ s2l "inconsistent cell count within the table"%string).

Lemma fault_matcher k m t : match matcher dialects k m t with MErr e _ _ => fault e | _ => True end.
Proof.
  unfold matcher. destruct k; destruct (tk_line t) as [l|]; try exact I;
    unfold match_title_line, match_docsep; matcher_cases; try exact I; unfold fault, parser_exception; cbn [e_kind e_msg].
  - left. split; [reflexivity|]. eauto.
  - right. left. split; [reflexivity|]. eauto.
Qed.
Lemma fault_builder_end r b : match builder_end r b with BoRaise e _ => fault e | _ => True end.
Proof.
  unfold builder_end. destruct (b_stack b) as [|n stk]; [exact I|].
  destruct (transform_node n (b_comments b) (b_idc b)) as [v i|e i|] eqn:T; [destruct stk; exact I| |exact I].
  apply transform_raise in T. unfold get_table_rows in T. destruct (get_tokens n KTableRow); [|discriminate].
  destruct (rows_of_tokens l (b_idc b)) as [rows j]. destruct (first_ragged rows); [|discriminate]. inversion T; subst.
  right. right. unfold parser_exception. cbn. split; [reflexivity | eauto].
Qed.

Theorem error_origins stop m b src :
  let ok (c : pctx) e := fault e \/ exists t s exp, In (EvX t s) (log c) /\ e = unexpected t exp in
  match parse_tokens stop (scan src) m b with
  | Raise1 e c => ok c e
  | RaiseC es c => Forall (ok c) es
  | _ => True
  end.
Proof.
  intros ok. unfold parse_tokens, parse_tokens_with.
  pose proof (parse_errors rP (fun _ => True) fault (fun _ => True) (fun _ => I)) as E.
  specialize (E (fun k m0 t _ => ltac:(cbn [matchf pipeline_params]; unfold p_matchf; pose proof (fault_matcher k m0 t) as F; destruct (matcher dialects k m0 t); auto))).
  specialize (E (fun r b0 _ => ltac:(cbn; exact I))).
  specialize (E (fun r b0 _ => ltac:(cbn [b_end pipeline_params]; unfold p_bend; pose proof (fault_builder_end r b0) as F; destruct (builder_end r b0); cbn; auto))).
  specialize (E (fun t b0 _ _ => ltac:(cbn [b_build pipeline_params]; unfold p_bbuild, builder_build; destruct (m_type t) as [kd|]; [|exact I];
                                       destruct kd; try (destruct (b_stack b0); exact I); destruct (m_text t); exact I))).
  assert (Ft : Forall (fun _ : token => True) (scan src)) by (apply Forall_forall; intros; exact I).
  exact (E stop (scan src) (reset_matcher dialects m) (reset_builder b) Ft I).
Qed.
