(* C14: where the errors of a parse come from.  For the generic interpreter: if every token the scanner hands
   out satisfies TokQ, matching keeps TokQ and raises only errors satisfying ErrP, and the builder (under an
   invariant BI) raises only errors satisfying ErrP, then every error a parse reports -- collected or raised --
   satisfies ErrP or is the `unexpected` error of a token logged as unexpected. *)
From Coq Require Import List Bool Arith Lia.
Import ListNotations.
Require Import Kinds Automaton AutoFacts.

Section Inv3.
  Context {Tok MS BS Err : Type}.
  Variable P : params Tok MS BS Err.
  Notation ctx := (ctx Tok MS BS Err).
  Notation res := (res Tok MS BS Err).

  Variable TokQ : Tok -> Prop.
  Variable ErrP : Err -> Prop.
  Variable BI : BS -> Prop.
  Hypothesis Hmkeof : forall n, TokQ (mk_eof P n).
  Hypothesis Hm : forall k m t, TokQ t ->
    match matchf P k m t with MR _ t' _ => TokQ t' | MRaise e t' _ => TokQ t' /\ ErrP e end.
  Hypothesis Hs : forall r b, BI b -> match b_start P r b with BOk b' => BI b' | BRaise e b' => BI b' /\ ErrP e | BCrash => True end.
  Hypothesis He : forall r b, BI b -> match b_end P r b with BOk b' => BI b' | BRaise e b' => BI b' /\ ErrP e | BCrash => True end.
  Hypothesis Hb : forall t b, TokQ t -> BI b -> match b_build P t b with BOk b' => BI b' | BRaise e b' => BI b' /\ ErrP e | BCrash => True end.

  Definition eok (lg : list (ev Tok)) (e : Err) : Prop :=
    ErrP e \/ exists t s exp, In (EvX t s) lg /\ e = mk_unexpected P t exp.
  Definition J (c : ctx) : Prop :=
    Forall TokQ (queue c) /\ Forall TokQ (rest c) /\ BI (bs c) /\ Forall (eok (log c)) (errs c).

  Definition holds3 {A} (Q : A -> Prop) (r : res A) : Prop :=
    match r with
    | Ok a c => J c /\ Q a
    | Raise1 e c => J c /\ eok (log c) e
    | RaiseC es c => J c /\ es = errs c
    | Crash _ => True
    | OutOfFuel => True
    end.

  Lemma holds3_bind {A B} (Q1 : A -> Prop) (Q2 : B -> Prop) (r : res A) (f : A -> ctx -> res B) :
    holds3 Q1 r -> (forall a c, J c -> Q1 a -> holds3 Q2 (f a c)) -> holds3 Q2 (bind r f).
  Proof. intros H F. destruct r; cbn [bind]; [apply F; apply H | exact H ..]. Qed.
  Lemma holds3_weaken {A} (Q1 Q2 : A -> Prop) (r : res A) : holds3 Q1 r -> (forall a, Q1 a -> Q2 a) -> holds3 Q2 r.
  Proof. destruct r; cbn; intuition. Qed.

  Lemma eok_mono lg x e : eok lg e -> eok (x :: lg) e.
  Proof. intros [H|(t & s & exp & Hin & ->)]; [now left | right; exists t, s, exp; split; [now right | reflexivity]]. Qed.
  Lemma J_emit x c : J c -> J (emit x c).
  Proof.
    intros (A & B & C & D). repeat split; auto. cbn [errs log emit]. eapply Forall_impl; [|exact D]. intros e. apply eok_mono.
  Qed.
  Lemma J_same c c' : queue c' = queue c -> rest c' = rest c -> bs c' = bs c -> log c' = log c -> errs c' = errs c -> J c -> J c'.
  Proof. intros E1 E2 E3 E4 E5 (A & B & C & D). unfold J. rewrite E1, E2, E3, E4, E5. auto. Qed.

  Lemma add_error_3 e c : J c -> eok (log c) e -> holds3 (fun _ : unit => True) (add_error P e c).
  Proof.
    intros H He0. unfold add_error. destruct (existsb _ _); cbn [holds3]; [auto|].
    assert (G : J (set_errs (errs c ++ [e]) c)).
    { destruct H as (A & B & C & D). repeat split; auto. cbn [errs log set_errs]. apply Forall_app. split; [exact D | constructor; [exact He0 | constructor]]. }
    destruct (_ <? _); cbn [holds3]; auto.
  Qed.

  Lemma read_3 c : J c -> J (snd (read P c)) /\ TokQ (fst (read P c)).
  Proof.
    intros (A & B & C & D). unfold read. destruct (queue c) as [|t q] eqn:Q.
    - destruct (rest c) as [|t r] eqn:R; cbn [fst snd].
      + split; [repeat split; cbn; auto | apply Hmkeof].
      + inversion B; subst. split; [repeat split; cbn; auto | assumption].
    - inversion A; subst. cbn [fst snd]. split; [|assumption]. repeat split; cbn [queue rest bs errs log set_queue]; auto.
  Qed.

  Lemma match_k_3 stop k t c : J c -> TokQ t -> holds3 (fun r => TokQ (snd r)) (match_k P stop k t c).
  Proof.
    intros H Ht. unfold match_k. destruct (_ && _); cbn [holds3 snd]; [auto|].
    pose proof (Hm k (ms (bump c)) t Ht) as M. cbv zeta.
    destruct (matchf P k (ms (bump c)) t) as [b t' m'|e t' m']; cbn [holds3 snd].
    - split; [|exact M]. eapply J_same; [..|exact H]; reflexivity.
    - destruct M as [Mt Me]. assert (G : J (set_ms m' (bump c))) by (eapply J_same; [..|exact H]; reflexivity).
      destruct stop; cbn [holds3]; [split; [exact G | now left]|].
      eapply holds3_bind; [apply add_error_3; [exact G | now left]|]. intros _ c' H' _. cbn. auto.
  Qed.

  Lemma any_match_3 stop ks : forall t c, J c -> TokQ t -> holds3 (fun r => TokQ (snd r)) (any_match P stop ks t c).
  Proof.
    induction ks as [|k ks IH]; intros t c H Ht; simpl; [auto|].
    eapply holds3_bind; [apply match_k_3; assumption|]. intros [b t'] c' H' Ht'. simpl in *.
    destruct b; [cbn; auto | apply IH; assumption].
  Qed.

  Lemma la_loop_3 stop h : forall fuel c acc, J c -> Forall TokQ acc -> holds3 (fun r => Forall TokQ (snd r)) (la_loop P fuel stop h c acc).
  Proof.
    induction fuel as [|f IH]; intros c acc H Ha; simpl; [exact I|].
    destruct (read_3 c H) as [R Rt]. destruct (read P c) as [t c1]. simpl in R, Rt.
    eapply holds3_bind; [apply any_match_3; assumption|]. intros [b t'] c2 H2 Ht2. simpl in *.
    assert (Ha2 : forall x, TokQ x -> Forall TokQ (acc ++ [x])) by (intros x Hx; apply Forall_app; split; [exact Ha | constructor; [exact Hx | constructor]]).
    destruct b; [cbn; auto|].
    eapply holds3_bind; [apply any_match_3; assumption|]. intros [b' t''] c3 H3 Ht3. simpl in *.
    destruct b'; [apply IH; auto | cbn; auto].
  Qed.

  Lemma lookahead_3 stop h c : J c -> holds3 (fun _ => True) (lookahead P stop h c).
  Proof.
    intros H. unfold lookahead. destruct (find_la P h); [|exact I].
    eapply holds3_bind; [apply la_loop_3; [exact H | constructor]|]. intros r c1 (A & B & C & D) Hr. cbn [holds3]. split; [|exact I].
    repeat split; cbn [queue rest bs errs log set_queue]; auto. apply Forall_app. auto.
  Qed.

  Lemma b_call_3 stop f c : J c ->
    match f (bs c) with BOk b' => BI b' | BRaise e b' => BI b' /\ ErrP e | BCrash => True end ->
    holds3 (fun _ => True) (b_call P stop f c).
  Proof.
    intros (A & B & C & D) F. unfold b_call. destruct (f (bs c)) as [b'|e b'|]; cbn [holds3]; [| |exact I].
    - split; [|exact I]. repeat split; auto.
    - destruct F as [Fb Fe]. assert (G : J (set_bs b' c)) by (repeat split; auto).
      destruct stop; cbn [holds3]; [split; [exact G | now left]|]. apply add_error_3; [exact G | now left].
  Qed.

  Lemma exec_3 stop t k : TokQ t -> forall ps c, J c -> holds3 (fun _ => True) (exec P stop t k ps c).
  Proof.
    intros Ht. induction ps as [|p ps IH]; intros c H; simpl; [cbn; auto|].
    eapply holds3_bind; [|intros _ c' H' _; apply IH; exact H'].
    pose proof (J_emit (match p with PS r => EvS r | PE r => EvE r | PB => EvB t k end) c H) as G.
    destruct p; (apply b_call_3; [exact G|]); destruct G as (_ & _ & Gb & _).
    - apply Hs, Gb.
    - apply He, Gb.
    - apply Hb; assumption.
  Qed.

  Lemma run_tests_3 stop : forall tests t c, J c -> TokQ t -> holds3 (fun r => TokQ (snd r)) (run_tests P stop tests t c).
  Proof.
    induction tests as [|x xs IH]; intros t c H Ht; simpl; [cbn; auto|].
    eapply holds3_bind; [apply match_k_3; assumption|]. intros [b t1] c1 H1 Ht1. simpl in *.
    destruct b; [|apply IH; assumption].
    destruct (t_guard x) as [h|].
    - eapply holds3_bind; [apply lookahead_3; exact H1|]. intros g c2 H2 _.
      destruct g; [|apply IH; assumption].
      eapply holds3_bind; [apply exec_3; assumption|]. intros _ c3 H3 _. cbn. auto.
    - eapply holds3_bind; [apply exec_3; assumption|]. intros _ c2 H2 _. cbn. auto.
  Qed.

  Lemma match_token_3 stop s t c : J c -> TokQ t -> holds3 (fun _ => True) (match_token P stop s t c).
  Proof.
    intros H Ht. unfold match_token. destruct (find_state P s) as [x|]; [|exact I].
    eapply holds3_bind; [apply run_tests_3; assumption|]. intros [o t'] c1 H1 Ht1. simpl in *.
    destruct o; [cbn; auto|].
    pose proof (J_emit (EvX t' s) c1 H1) as H2.
    assert (Ek : eok (log (emit (EvX t' s) c1)) (mk_unexpected P t' (s_expected x))).
    { right. exists t', s, (s_expected x). split; [now left | reflexivity]. }
    destruct stop; [cbn; auto|].
    eapply holds3_bind; [apply add_error_3; assumption|]. intros _ c3 H3 _. cbn. auto.
  Qed.

  Lemma loop_3 stop : forall fuel s c, J c -> holds3 (fun _ => True) (loop P fuel stop s c).
  Proof.
    induction fuel as [|f IH]; intros s c H; simpl; [exact I|].
    destruct (read_3 c H) as [R Rt]. destruct (read P c) as [t c1]. simpl in R, Rt.
    eapply holds3_bind; [apply match_token_3; assumption|]. intros s' c2 H2 _.
    destruct (is_eof P t); [cbn; auto | apply IH; exact H2].
  Qed.

  (* every error a parse reports *)
  Theorem parse_errors stop toks m b : Forall TokQ toks -> BI b ->
    match parse P stop toks m b with
    | Raise1 e c => eok (log c) e
    | RaiseC es c => Forall (eok (log c)) es
    | _ => True
    end.
  Proof.
    intros Ht Hbi. unfold parse.
    assert (H0 : J (init_ctx toks m b)) by (repeat split; cbn; auto).
    assert (S1 : holds3 (fun _ => True) (b_call P stop (b_start P RGherkinDocument) (emit (EvS RGherkinDocument) (init_ctx toks m b)))).
    { apply b_call_3; [apply J_emit; exact H0|]. apply Hs. exact Hbi. }
    destruct (b_call P stop (b_start P RGherkinDocument) _) as [[] c1|e c1|es c1|c1|]; cbn [bind]; cbn [holds3] in S1; auto;
      [|apply S1|destruct S1 as [(_ & _ & _ & D) ->]; exact D].
    destruct S1 as [S1 _].
    pose proof (loop_3 stop (S (S (length toks))) (start_state P) c1 S1) as L.
    destruct (loop P (S (S (length toks))) stop (start_state P) c1) as [s' c2|e c2|es c2|c2|]; cbn [bind]; cbn [holds3] in L; auto;
      [|apply L|destruct L as [(_ & _ & _ & D) ->]; exact D].
    destruct L as [L _].
    assert (S3 : holds3 (fun _ => True) (b_call P stop (b_end P RGherkinDocument) (emit (EvE RGherkinDocument) c2))).
    { apply b_call_3; [apply J_emit; exact L|]. apply He. apply L. }
    destruct (b_call P stop (b_end P RGherkinDocument) _) as [[] c3|e c3|es c3|c3|]; cbn [bind]; cbn [holds3] in S3; auto;
      [|apply S3|destruct S3 as [(_ & _ & _ & D) ->]; exact D].
    destruct (errs c3) eqn:Ee; [exact I|]. destruct S3 as [(_ & _ & _ & D) _]. rewrite Ee in D. exact D.
  Qed.
End Inv3.
