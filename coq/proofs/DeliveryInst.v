(* C18: the delivery theorem instantiated for the kind-level stub and for the real pipeline. *)
From Coq Require Import List Bool Arith NArith Lia.
Import ListNotations.
Require Import Kinds Automaton AutoFacts Delivery TableFacts NestingDefs C02Lemmas
               Stub Table PyStr Line Matcher MatcherFacts Builder Pipeline PipelineFacts Dialects.

Lemma list_beq_kind_eq a b : list_beq kind_beq a b = true -> a = b.
Proof. apply list_beq_eq. intros x y. apply kind_beq_eq. Qed.

Lemma la_ok_spec l : In l Table.lookaheads ->
  la_skip l = [KEmpty; KComment; KTagLine]
  /\ forall k, In k (la_expected l) -> k = KScenarioLine \/ k = KExamplesLine.
Proof.
  intros H. pose proof lookaheads_ok as A. rewrite forallb_forall in A. specialize (A l H).
  unfold la_ok in A. apply andb_prop in A as [A1 A2]. split; [now apply list_beq_kind_eq|].
  intros k Hk. rewrite forallb_forall in A2. specialize (A2 k Hk). apply orb_prop in A2 as [E|E]; apply kind_beq_eq in E; auto.
Qed.

Lemma builds_once_table x y : In x Table.table -> In y (s_tests x) -> Delivery.count_pb (t_prods y) = 1.
Proof.
  intros Hx Hy. pose proof builds_last_ok as B. unfold builds_last in B. rewrite forallb_forall in B.
  specialize (B x Hx). rewrite forallb_forall in B. specialize (B y Hy). apply andb_prop in B as [B _].
  apply Nat.eqb_eq in B. rewrite <- B. clear. induction (t_prods y) as [|p ps IH]; [reflexivity|].
  destruct p; simpl; rewrite ?IH; reflexivity.
Qed.

Lemma err_known_table {Tok MS BS Err} (P : params Tok MS BS Err) : Automaton.table P = Table.table ->
  forall x, In x (Automaton.table P) -> find_state P (s_err x) <> None.
Proof.
  intros E x Hx. pose proof states_total_ok as T. unfold states_total in T. apply andb_prop in T as [T _].
  rewrite forallb_forall in T. rewrite E in Hx. specialize (T x Hx). apply andb_prop in T as [_ T].
  unfold find_state. rewrite E. unfold find_in in T. destruct (find _ Table.table); [discriminate | discriminate].
Qed.

(* ================= stub ================= *)
Definition s_sk (t : tok) : Prop :=
  fst t = KEmpty \/ fst t = KComment \/ fst t = KTagLine \/ fst t = KLanguage.

Lemma s_sk_not_eof t : s_sk t -> is_eof sP t = false.
Proof. destruct t as [k n]. intros [H|[H|[H|H]]]; simpl in H; subst; reflexivity. Qed.

Lemma s_S1 h k (m : unit) (t t' : tok) (m' : unit) : In h (Automaton.lookaheads sP) -> In k (la_skip h) -> True ->
  matchf sP k m t = MR true t' m' -> s_sk t'.
Proof.
  intros Hh Hk _ M. destruct (la_ok_spec h Hh) as [Es _]. rewrite Es in Hk.
  cbn in M. inversion M; subst. destruct t' as [kk n]. unfold s_sk. cbn [fst].
  destruct Hk as [<-|[<-|[<-|[]]]]; destruct kk; simpl in *; try discriminate; auto.
Qed.

Lemma s_S2 h (m : unit) (t : tok) : In h (Automaton.lookaheads sP) -> True -> s_sk t ->
  (forall k, In k (la_expected h) -> matchf sP k m t = MR false t m)
  /\ exists ks1 k ks2, la_skip h = ks1 ++ k :: ks2
       /\ (forall k1, In k1 ks1 -> matchf sP k1 m t = MR false t m)
       /\ exists t' m', matchf sP k m t = MR true t' m' /\ s_sk t'.
Proof.
  intros Hh _ Hs. destruct (la_ok_spec h Hh) as [Es Ee]. destruct t as [kk n]. destruct m. split.
  - intros k Hk. cbn. f_equal.
    destruct (Ee k Hk) as [-> | ->]; destruct Hs as [H|[H|[H|H]]]; simpl in H; subst; reflexivity.
  - rewrite Es. destruct Hs as [H|[H|[H|H]]]; simpl in H; subst.
    + exists [], KEmpty, [KComment; KTagLine]. split; [reflexivity|]. split; [intros k1 []|].
      eexists; eexists. split; [reflexivity|]. unfold s_sk; simpl; auto.
    + exists [KEmpty], KComment, [KTagLine]. split; [reflexivity|]. split; [intros k1 [<-|[]]; reflexivity|].
      eexists; eexists. split; [reflexivity|]. unfold s_sk; simpl; auto.
    + exists [KEmpty; KComment], KTagLine, []. split; [reflexivity|]. split; [intros k1 [<-|[<-|[]]]; reflexivity|].
      eexists; eexists. split; [reflexivity|]. unfold s_sk; simpl; auto.
    + exists [KEmpty], KComment, [KTagLine]. split; [reflexivity|]. split; [intros k1 [<-|[]]; reflexivity|].
      eexists; eexists. split; [reflexivity|]. unfold s_sk; simpl; auto.
Qed.

Lemma la_no_eof_table h : In h Table.lookaheads -> ~ In KEOF (la_expected h) /\ ~ In KEOF (la_skip h).
Proof.
  intros Hh. destruct (la_ok_spec h Hh) as [Es Ee]. split.
  - intros X. destruct (Ee _ X); discriminate.
  - rewrite Es. simpl. intuition discriminate.
Qed.

Lemma s_match_eof (m : unit) (t t' : tok) (m' : unit) : matchf sP KEOF m t = MR true t' m' -> is_eof sP t = true.
Proof. destruct t as [kk n]. cbn. intros M. inversion M as [[H0 H1 H2]]. destruct kk; try discriminate H0; reflexivity. Qed.

Lemma number_noeof w : Forall (fun k => k <> KEOF) w -> Forall (fun t => is_eof sP t = false) (number w).
Proof.
  intros Hw. unfold number. generalize 1. induction Hw as [|k w Hk Hw IH]; intros i; simpl; constructor; auto.
  cbn. destruct k; try reflexivity. congruence.
Qed.

Definition stub_all (w : list kind) : list tok := number w ++ [(KEOF, S (length w))].

Theorem stub_delivery stop w : Forall (fun k => k <> KEOF) w ->
  match Stub.run stop w with
  | Ok _ c => delivered tok (fun t => t) c = stub_all w
  | RaiseC es c => prefix_of tok (delivered tok (fun t => t) c) (stub_all w)
                   /\ (length es <= Table.error_cap -> delivered tok (fun t => t) c = stub_all w)
  | Raise1 _ c | Crash c => prefix_of tok (delivered tok (fun t => t) c) (stub_all w)
  | OutOfFuel => False
  end.
Proof.
  intros Hw.
  assert (Len : length (number w) = length w).
  { unfold number. pose proof (combine_length w (seq 1 (length w))) as H. rewrite seq_length, Nat.min_id in H. exact H. }
  pose proof (delivery sP tok (fun t => t) s_sk (fun _ => True)
                (fun k m t => eq_refl) (fun k m t => eq_refl) (fun n => eq_refl) (fun k m t _ => Logic.I)
                s_sk_not_eof s_S1 s_S2 la_no_eof_table s_match_eof
                builds_once_table (total_of_states_total sP states_total_ok) (err_known_table sP eq_refl)
                stop (number w) tt tt (number_noeof w Hw) Logic.I stub_start) as D.
  unfold all_keys in D. rewrite map_id, Len in D. exact D.
Qed.

(* ================= real pipeline ================= *)
Local Open Scope N_scope.

(* skippable by every look-ahead: blank line, comment line, well-formed tag line *)
Definition p_sk (t : token) : Prop :=
  match tk_line t with
  | Some l => line_is_empty l = true \/ line_startswith l [HASH] = true
              \/ (line_startswith l [AT] = true /\ exists its, line_tags l = TagsOk its)
  | None => False
  end.

(* no Scenario / Scenario Outline / Examples keyword starts with '#' or '@' *)
Definition kw_head_ok (k : str) : bool :=
  match k with [] => true | c :: _ => negb (c =? HASH) && negb (c =? AT) end.
Definition dialect_heads_ok (d : dialect) : bool :=
  forallb kw_head_ok (d_scenario d ++ d_scenarioOutline d ++ d_examples d).
Lemma dialects_heads_ok : forallb dialect_heads_ok dialects = true.
Proof. vm_compute. reflexivity. Qed.

Definition p_I (m : mstate) : Prop := wf_ms m.

Lemma wf_dialect_in m : wf_ms m -> In (ms_dialect m) dialects.
Proof. intros [_ W]. unfold find_dialect in W. apply find_some in W. tauto. Qed.

Lemma heads_ok_of m k : wf_ms m -> In k (d_scenario (ms_dialect m) ++ d_scenarioOutline (ms_dialect m) ++ d_examples (ms_dialect m)) ->
  kw_head_ok k = true.
Proof.
  intros W Hk. pose proof dialects_heads_ok as A. rewrite forallb_forall in A.
  specialize (A _ (wf_dialect_in m W)). unfold dialect_heads_ok in A. rewrite forallb_forall in A. auto.
Qed.

Lemma first_title_keyword_in l ks k : first_title_keyword l ks = Some k -> In k ks /\ startswith_title_keyword l k = true.
Proof.
  induction ks as [|x ks IH]; simpl; [discriminate|]. destruct (startswith_title_keyword l x) eqn:E.
  - intros H. inversion H; subst. auto.
  - intros H. destruct (IH H). auto.
Qed.

Definition sk_line (l : gline) : Prop :=
  line_is_empty l = true \/ line_startswith l [HASH] = true
  \/ (line_startswith l [AT] = true /\ exists its, line_tags l = TagsOk its).

Lemma title_none_on_sk l ks : sk_line l -> (forall k, In k ks -> kw_head_ok k = true) -> first_title_keyword l ks = None.
Proof.
  intros Hs Hk. destruct (first_title_keyword l ks) as [k|] eqn:F; [|reflexivity]. exfalso.
  apply first_title_keyword_in in F as [Hin St]. specialize (Hk k Hin).
  unfold startswith_title_keyword in St. unfold sk_line, line_is_empty, line_startswith in Hs.
  destruct (l_trimmed l) as [|c r].
  - destruct k; discriminate.
  - assert (Hc : c = HASH \/ c = AT).
    { destruct Hs as [H|[H|[H _]]]; [discriminate| |]; cbn [starts_with] in H; apply andb_prop in H as [H _]; apply N.eqb_eq in H; auto. }
    destruct k as [|c' k].
    + cbn in St. destruct Hc as [-> | ->]; cbv in St; discriminate.
    + cbn [app starts_with] in St. apply andb_prop in St as [St _]. apply N.eqb_eq in St. subst c'.
      destruct Hc as [-> | ->]; cbv in Hk; discriminate.
Qed.

Lemma p_key_pres k m t : (fun t => (tk_line t, loc_line (tk_loc t))) (Delivery.mtok (matchf rP k m t)) = (tk_line t, loc_line (tk_loc t)).
Proof.
  cbn [matchf rP pipeline_params]. unfold p_matchf.
  pose proof (matcher_line dialects k m t) as A. pose proof (matcher_lineno dialects k m t) as B.
  destruct (matcher dialects k m t); simpl; congruence.
Qed.

Lemma p_eof_pres k m t : is_eof rP (Delivery.mtok (matchf rP k m t)) = is_eof rP t.
Proof. exact (pipe_eof k m t). Qed.

Lemma p_I_pres k m t : p_I m -> p_I (Delivery.mst (matchf rP k m t)).
Proof.
  intros W. cbn [matchf rP pipeline_params]. unfold p_matchf. pose proof (matcher_wf k m t W) as A.
  destruct (matcher dialects k m t); simpl; tauto.
Qed.

Lemma p_sk_not_eof t : p_sk t -> is_eof rP t = false.
Proof. unfold p_sk. cbn. unfold tok_is_eof. destruct (tk_line t); [reflexivity | intros []]. Qed.

Lemma p_sk_set_matched m t ty text kw kt ind items : p_sk t -> p_sk (set_matched m t ty text kw kt ind items).
Proof. unfold p_sk. simpl. auto. Qed.

Lemma starts_not_empty l c : line_startswith l [c] = true -> line_is_empty l = false.
Proof. unfold line_startswith, line_is_empty. destruct (l_trimmed l); [discriminate | reflexivity]. Qed.
Lemma starts_at_not_hash l : line_startswith l [AT] = true -> line_startswith l [HASH] = false.
Proof.
  unfold line_startswith. destruct (l_trimmed l) as [|c r]; [discriminate|]. cbn [starts_with].
  intros H. apply andb_prop in H as [H _]. apply N.eqb_eq in H. subst c. reflexivity.
Qed.

Lemma p_S1 h k m t t' m' : In h (Automaton.lookaheads rP) -> In k (la_skip h) -> p_I m ->
  matchf rP k m t = MR true t' m' -> p_sk t'.
Proof.
  intros Hh Hk _ M. destruct (la_ok_spec h Hh) as [Es _]. rewrite Es in Hk.
  cbn [matchf rP pipeline_params] in M. unfold p_matchf in M.
  destruct (matcher dialects k m t) as [|t1 m1|e t1 m1] eqn:Mt; inversion M; subst; clear M.
  unfold matcher in Mt. destruct (tk_line t) as [l|] eqn:L.
  - destruct Hk as [<-|[<-|[<-|[]]]].
    + destruct (line_is_empty l) eqn:E; inversion Mt; subst. unfold p_sk. cbn [tk_line set_matched]. rewrite L. auto.
    + destruct (line_startswith l [HASH]) eqn:E; inversion Mt; subst. unfold p_sk. cbn [tk_line set_matched]. rewrite L. auto.
    + destruct (line_startswith l [AT]) eqn:E; [|discriminate].
      destruct (line_tags l) as [its|c] eqn:T; inversion Mt; subst. unfold p_sk. cbn [tk_line set_matched]. rewrite L. eauto.
  - destruct Hk as [<-|[<-|[<-|[]]]]; discriminate.
Qed.

Lemma p_S2 h m t : In h (Automaton.lookaheads rP) -> p_I m -> p_sk t ->
  (forall k, In k (la_expected h) -> matchf rP k m t = MR false t m)
  /\ exists ks1 k ks2, la_skip h = ks1 ++ k :: ks2
       /\ (forall k1, In k1 ks1 -> matchf rP k1 m t = MR false t m)
       /\ exists t' m', matchf rP k m t = MR true t' m' /\ p_sk t'.
Proof.
  intros Hh W Hs. destruct (la_ok_spec h Hh) as [Es Ee]. unfold p_sk in Hs.
  destruct (tk_line t) as [l|] eqn:L; [|destruct Hs]. fold (sk_line l) in Hs.
  assert (Hd : forall k, In k (d_scenario (ms_dialect m) ++ d_scenarioOutline (ms_dialect m) ++ d_examples (ms_dialect m)) -> kw_head_ok k = true)
    by (intros k; apply heads_ok_of; exact W).
  assert (NoTitle : forall ks, incl ks (d_scenario (ms_dialect m) ++ d_scenarioOutline (ms_dialect m) ++ d_examples (ms_dialect m)) ->
            first_title_keyword l ks = None).
  { intros ks Hin. apply title_none_on_sk; auto. }
  split.
  - intros k Hk. cbn [matchf rP pipeline_params]. unfold p_matchf, matcher. rewrite L.
    destruct (Ee k Hk) as [-> | ->]; unfold match_title_line.
    + rewrite (NoTitle (d_scenario (ms_dialect m))) by (intros x Hx; apply in_or_app; now left).
      rewrite (NoTitle (d_scenarioOutline (ms_dialect m))) by (intros x Hx; apply in_or_app; right; apply in_or_app; now left).
      reflexivity.
    + rewrite (NoTitle (d_examples (ms_dialect m))) by (intros x Hx; apply in_or_app; right; apply in_or_app; now right).
      reflexivity.
  - rewrite Es. cbn [matchf rP pipeline_params]. unfold p_matchf, matcher. rewrite L.
    assert (SK : forall ty text kw kt ind items, p_sk (set_matched m t ty text kw kt ind items)).
    { intros. unfold p_sk. cbn [tk_line set_matched]. rewrite L. exact Hs. }
    destruct Hs as [H|[H|[H [its T]]]].
    + exists [], KEmpty, [KComment; KTagLine]. split; [reflexivity|]. split; [intros k1 []|].
      rewrite H. eexists; eexists. split; [reflexivity | apply SK].
    + exists [KEmpty], KComment, [KTagLine]. split; [reflexivity|]. split.
      * intros k1 [<-|[]]. rewrite (starts_not_empty l _ H). reflexivity.
      * rewrite H. eexists; eexists. split; [reflexivity | apply SK].
    + exists [KEmpty; KComment], KTagLine, []. split; [reflexivity|]. split.
      * intros k1 [<-|[<-|[]]]; [rewrite (starts_not_empty l _ H) | rewrite (starts_at_not_hash l H)]; reflexivity.
      * rewrite H, T. eexists; eexists. split; [reflexivity | apply SK].
Qed.

Lemma p_match_eof m t t' m' : matchf rP KEOF m t = MR true t' m' -> is_eof rP t = true.
Proof.
  cbn [matchf rP pipeline_params is_eof]. unfold p_matchf, matcher, tok_is_eof.
  destruct (tk_line t); [discriminate | reflexivity].
Qed.

Lemma scan_noeof_from ls : forall n, Forall (fun t => is_eof rP t = false) (number_lines ls n).
Proof. induction ls as [|x ls IH]; intros n; simpl; constructor; auto. Qed.

(* key of a token: its physical line (text, number, indent) and its line number *)
Definition tkey (t : token) : option gline * nat := (tk_line t, loc_line (tk_loc t)).

Theorem pipeline_delivery stop toks m b :
  Forall (fun t => tok_is_eof t = false) toks -> wf_ms m ->
  let all := map tkey toks ++ [tkey (eof_token (S (length toks)))] in
  match parse_tokens stop toks m b with
  | Ok _ c => delivered _ tkey c = all
  | RaiseC es c => prefix_of _ (delivered _ tkey c) all /\ ((length es <= Table.error_cap)%nat -> delivered _ tkey c = all)
  | Raise1 _ c | Crash c => prefix_of _ (delivered _ tkey c) all
  | OutOfFuel => False
  end.
Proof.
  intros Hne W. unfold parse_tokens, parse_tokens_with. fold rP.
  destruct (reset_matcher_wf' m W) as [W' _].
  exact (delivery rP _ tkey p_sk p_I p_key_pres p_eof_pres (fun n => eq_refl) p_I_pres p_sk_not_eof
           p_S1 p_S2 la_no_eof_table p_match_eof builds_once_table
           (total_of_states_total rP states_total_ok) (err_known_table rP eq_refl)
           stop toks (reset_matcher dialects m) (reset_builder b) Hne W' pipe_start).
Qed.

(* the scanner numbers the physical lines from 1 *)
Lemma number_lines_keys ls : forall n,
  map tkey (number_lines ls n) = map (fun p => (Some (make_line (fst p) (snd p)), snd p)) (combine ls (seq n (length ls))).
Proof. induction ls as [|x ls IH]; intros n; simpl; [reflexivity|]. now rewrite IH. Qed.

Lemma number_lines_length ls n : length (number_lines ls n) = length ls.
Proof. revert n. induction ls as [|x ls IH]; intros n; simpl; auto. Qed.

(* for source text: one token per physical line, in order, with that line's number, then one EOF
   numbered one past the last line *)
Definition source_keys (src : str) : list (option gline * nat) :=
  map (fun p => (Some (make_line (fst p) (snd p)), snd p)) (combine (py_lines src) (seq 1 (length (py_lines src))))
  ++ [(None, S (length (py_lines src)))].

Theorem source_delivery stop m b src : wf_ms m ->
  match parse_tokens stop (scan src) m b with
  | Ok _ c => delivered _ tkey c = source_keys src
  | RaiseC es c => prefix_of _ (delivered _ tkey c) (source_keys src)
                   /\ ((length es <= Table.error_cap)%nat -> delivered _ tkey c = source_keys src)
  | Raise1 _ c | Crash c => prefix_of _ (delivered _ tkey c) (source_keys src)
  | OutOfFuel => False
  end.
Proof.
  intros W. pose proof (pipeline_delivery stop (scan src) m b (scan_noeof_from (py_lines src) 1) W) as D.
  cbv zeta in D.
  assert (E : source_keys src = map tkey (scan src) ++ [tkey (eof_token (S (length (scan src))))]).
  { unfold source_keys, scan. rewrite number_lines_keys, number_lines_length. reflexivity. }
  rewrite E. exact D.
Qed.
