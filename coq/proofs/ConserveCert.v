(* C03 (conservation): the order certificate for the regenerated table. *)
From Coq Require Import List Bool Arith.
Import ListNotations.
Require Import Kinds Table TableFacts DenseDefs OrdDefs ConserveDefs.

Definition kappa : dmap :=
  Eval vm_compute in orounds cpat crfree ctfree cxr table 60 [(start_state, [aframe0])].

Lemma kappa_ok : ord_ok cpat crfree ctfree cxr table start_state kappa = true.
Proof. vm_compute. reflexivity. Qed.
Lemma kappa_ends : ord_ends table kappa = true.
Proof. vm_compute. reflexivity. Qed.
