(* C03 (conservation): the order certificate for the regenerated table. *)
From Coq Require Import List Bool Arith.
Import ListNotations.
Require Import Kinds Table TableFacts ShapeDefs ShapeCert DenseDefs OrdDefs ConserveDefs.

(* a #DocStringSeparator matched in a doc-string state is a closing delimiter: it carries no content *)
Definition csl (s : nat) (k : kind) : bool := kind_beq k KDocStringSeparator && is_ds dstates s.

Definition kappa : dmap :=
  Eval vm_compute in orounds cpat crfree ctfree cxr cfo table csl 60 [(start_state, [aframe0])].

Lemma kappa_ok : ord_ok cpat crfree ctfree cxr cfo table csl start_state kappa = true.
Proof. vm_compute. reflexivity. Qed.
Lemma kappa_ends : ord_ends table kappa = true.
Proof. vm_compute. reflexivity. Qed.
