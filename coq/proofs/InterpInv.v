(* One invariant tower for the generic interpreter: any predicate on contexts that
   is insensitive to queue / scanner / error list / counters / ghost log and is
   preserved by every matcher call and every builder call holds after parse,
   however parse ends. *)
From Coq Require Import List Bool Arith Lia.
Import ListNotations.
Require Import Kinds Automaton AutoFacts.

Section Inv.
  Context {Tok MS BS Err : Type}.
  Variable P : params Tok MS BS Err.
  Notation ctx := (ctx Tok MS BS Err).
  Notation res := (res Tok MS BS Err).

  Variable J : ctx -> Prop.
  (* J looks at the matcher and builder states only *)
  Hypothesis J_ext : forall c c', ms c' = ms c -> bs c' = bs c -> J c -> J c'.
  Hypothesis J_ms : forall k t c, J c ->
    match matchf P k (ms c) t with MR _ _ m' | MRaise _ _ m' => J (set_ms m' c) end.
  Hypothesis J_start : forall r c, J c ->
    match b_start P r (bs c) with BOk b' | BRaise _ b' => J (set_bs b' c) | BCrash => True end.
  Hypothesis J_end : forall r c, J c ->
    match b_end P r (bs c) with BOk b' | BRaise _ b' => J (set_bs b' c) | BCrash => True end.
  Hypothesis J_build : forall t c, J c ->
    match b_build P t (bs c) with BOk b' | BRaise _ b' => J (set_bs b' c) | BCrash => True end.

  Definition holds {A} (r : res A) : Prop := sat r (fun _ c => J c) J True.

  Lemma holds_bind {A B} (r : res A) (f : A -> ctx -> res B) :
    holds r -> (forall a c, J c -> holds (f a c)) -> holds (bind r f).
  Proof. unfold holds. destruct r; simpl; auto. Qed.

  Ltac ext := match goal with H : J ?c |- J ?c' => apply (J_ext c c'); [reflexivity | reflexivity | exact H] end.

  Lemma add_error_J e c : J c -> holds (add_error P e c).
  Proof.
    intros H. unfold holds, add_error. destruct (existsb _ _); simpl; [exact H|].
    destruct (_ <? _); simpl; ext.
  Qed.

  Lemma read_J c : J c -> J (snd (read P c)).
  Proof. intros H. unfold read. destruct (queue c); [destruct (rest c)|]; simpl; ext. Qed.

  Lemma match_k_J stop k t c : J c -> holds (match_k P stop k t c).
  Proof.
    intros H. unfold match_k. destruct (_ && _); [exact H|].
    assert (Hb : J (bump c)) by ext.
    pose proof (J_ms k t (bump c) Hb) as M. cbv zeta.
    destruct (matchf P k (ms (bump c)) t) as [b t' m'|e t' m']; simpl; [exact M|].
    destruct stop; [exact M|].
    apply holds_bind; [apply add_error_J; exact M|]. intros _ c' H'. exact H'.
  Qed.

  Lemma any_match_J stop ks : forall t c, J c -> holds (any_match P stop ks t c).
  Proof.
    induction ks as [|k ks IH]; intros t c H; simpl; [exact H|].
    apply holds_bind; [apply match_k_J; exact H|]. intros [b t'] c' H'. simpl.
    destruct b; [exact H' | apply IH; exact H'].
  Qed.

  Lemma la_loop_J stop h : forall fuel c acc, J c -> holds (la_loop P fuel stop h c acc).
  Proof.
    induction fuel as [|f IH]; intros c acc H; simpl; [exact I|].
    pose proof (read_J c H) as R. destruct (read P c) as [t c1]. simpl in R.
    apply holds_bind; [apply any_match_J; exact R|]. intros [b t'] c2 H2. simpl.
    destruct b; [exact H2|].
    apply holds_bind; [apply any_match_J; exact H2|]. intros [b' t''] c3 H3. simpl.
    destruct b'; [apply IH; exact H3 | exact H3].
  Qed.

  Lemma lookahead_J stop h c : J c -> holds (lookahead P stop h c).
  Proof.
    intros H. unfold lookahead. destruct (find_la P h); [|exact H].
    apply holds_bind; [apply la_loop_J; exact H|]. intros r c1 H1. simpl. ext.
  Qed.

  Lemma b_call_J stop f c : J c ->
    match f (bs c) with BOk b' | BRaise _ b' => J (set_bs b' c) | BCrash => True end ->
    holds (b_call P stop f c).
  Proof.
    intros H F. unfold b_call. destruct (f (bs c)); simpl; [exact F| |exact H].
    destruct stop; [exact F|]. apply add_error_J. exact F.
  Qed.

  Lemma exec_J stop t k : forall ps c, J c -> holds (exec P stop t k ps c).
  Proof.
    induction ps as [|p ps IH]; intros c H; simpl; [exact H|].
    apply holds_bind; [|intros _ c' H'; apply IH; exact H'].
    destruct p; (apply b_call_J; [ext|]).
    - apply (J_start r). ext.
    - apply (J_end r). ext.
    - apply (J_build t). ext.
  Qed.

  Lemma run_tests_J stop : forall tests t c, J c -> holds (run_tests P stop tests t c).
  Proof.
    induction tests as [|x xs IH]; intros t c H; simpl; [exact H|].
    apply holds_bind; [apply match_k_J; exact H|]. intros [b t1] c1 H1. simpl.
    destruct b; [|apply IH; exact H1].
    destruct (t_guard x) as [h|].
    - apply holds_bind; [apply lookahead_J; exact H1|]. intros g c2 H2.
      destruct g; [|apply IH; exact H2].
      apply holds_bind; [apply exec_J; exact H2|]. intros _ c3 H3. exact H3.
    - apply holds_bind; [apply exec_J; exact H1|]. intros _ c2 H2. exact H2.
  Qed.

  Lemma match_token_J stop s t c : J c -> holds (match_token P stop s t c).
  Proof.
    intros H. unfold match_token. destruct (find_state P s) as [x|]; [|exact H].
    apply holds_bind; [apply run_tests_J; exact H|]. intros [o t'] c1 H1. simpl.
    destruct o; [exact H1|].
    assert (H2 : J (emit (EvX t' s) c1)) by ext.
    destruct stop; [exact H2|].
    apply holds_bind; [apply add_error_J; exact H2|]. intros _ c3 H3. exact H3.
  Qed.

  Lemma loop_J stop : forall fuel s c, J c -> holds (loop P fuel stop s c).
  Proof.
    induction fuel as [|f IH]; intros s c H; simpl; [exact I|].
    pose proof (read_J c H) as R. destruct (read P c) as [t c1]. simpl in R.
    apply holds_bind; [apply match_token_J; exact R|]. intros s' c2 H2.
    destruct (is_eof P t); [exact H2 | apply IH; exact H2].
  Qed.

  Theorem parse_J stop toks m b : J (init_ctx toks m b) -> holds (parse P stop toks m b).
  Proof.
    intros H. unfold parse.
    apply holds_bind.
    { apply b_call_J; [ext|]. apply (J_start RGherkinDocument). ext. }
    intros _ c1 H1. apply holds_bind; [apply loop_J; exact H1|].
    intros _ c2 H2. apply holds_bind.
    { apply b_call_J; [ext|]. apply (J_end RGherkinDocument). ext. }
    intros _ c3 H3. destruct (errs c3); exact H3.
  Qed.
End Inv.
