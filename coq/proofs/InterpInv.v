(* Invariant towers for the generic interpreter.

   Section Inv2 (general): a predicate J for normal returns and a weaker E for
   exceptional ones; J must be closed under the interpreter's primitive context
   updates (queue, scanner, call counter, ghost log), under add_error (landing in
   E when the error cap raises), under every matcher call and every builder call.
   Then J / E hold however parse ends, and a CompositeParserException carries
   exactly the context's error list.

   Section Inv (special case): predicates that look at the matcher and builder
   states only. *)
From Coq Require Import List Bool Arith Lia.
Import ListNotations.
Require Import Kinds Automaton AutoFacts.

Section Inv2.
  Context {Tok MS BS Err : Type}.
  Variable P : params Tok MS BS Err.
  Notation ctx := (ctx Tok MS BS Err).
  Notation res := (res Tok MS BS Err).

  Variables J E : ctx -> Prop.
  Hypothesis J_E : forall c, J c -> E c.

  Definition holds2 {A} (r : res A) : Prop :=
    match r with
    | Ok _ c => J c
    | Raise1 _ c | Crash c => E c
    | RaiseC es c => E c /\ es = errs c /\ es <> []
    | OutOfFuel => True
    end.

  Hypothesis J_queue : forall q c, J c -> J (set_queue q c).
  Hypothesis J_read : forall c, J c -> J (snd (read P c)).
  Hypothesis J_bump : forall c, J c -> J (bump c).
  Hypothesis J_emit : forall e c, J c -> J (emit e c).
  Hypothesis J_adderr : forall e c, J c -> holds2 (add_error P e c).
  Hypothesis J_ms : forall k t c, J c ->
    match matchf P k (ms c) t with MR _ _ m' | MRaise _ _ m' => J (set_ms m' c) end.
  Hypothesis J_start : forall r c, J c ->
    match b_start P r (bs c) with BOk b' | BRaise _ b' => J (set_bs b' c) | BCrash => True end.
  Hypothesis J_end : forall r c, J c ->
    match b_end P r (bs c) with BOk b' | BRaise _ b' => J (set_bs b' c) | BCrash => True end.
  Hypothesis J_build : forall t c, J c ->
    match b_build P t (bs c) with BOk b' | BRaise _ b' => J (set_bs b' c) | BCrash => True end.

  Lemma holds2_bind {A B} (r : res A) (f : A -> ctx -> res B) :
    holds2 r -> (forall a c, J c -> holds2 (f a c)) -> holds2 (bind r f).
  Proof. intros H F. destruct r; cbn [bind]; [apply F; exact H | exact H ..]. Qed.

  Lemma match_k_J2 stop k t c : J c -> holds2 (match_k P stop k t c).
  Proof.
    intros H. unfold match_k. destruct (_ && _); [exact H|].
    pose proof (J_ms k t (bump c) (J_bump c H)) as M. cbv zeta.
    destruct (matchf P k (ms (bump c)) t) as [b t' m'|e t' m']; simpl; [exact M|].
    destruct stop; [apply J_E; exact M|].
    apply holds2_bind; [apply J_adderr; exact M|]. intros _ c' H'. exact H'.
  Qed.

  Lemma any_match_J2 stop ks : forall t c, J c -> holds2 (any_match P stop ks t c).
  Proof.
    induction ks as [|k ks IH]; intros t c H; simpl; [exact H|].
    apply holds2_bind; [apply match_k_J2; exact H|]. intros [b t'] c' H'. simpl.
    destruct b; [exact H' | apply IH; exact H'].
  Qed.

  Lemma la_loop_J2 stop h : forall fuel c acc, J c -> holds2 (la_loop P fuel stop h c acc).
  Proof.
    induction fuel as [|f IH]; intros c acc H; simpl; [exact I|].
    pose proof (J_read c H) as R. destruct (read P c) as [t c1]. simpl in R.
    apply holds2_bind; [apply any_match_J2; exact R|]. intros [b t'] c2 H2. simpl.
    destruct b; [exact H2|].
    apply holds2_bind; [apply any_match_J2; exact H2|]. intros [b' t''] c3 H3. simpl.
    destruct b'; [apply IH; exact H3 | exact H3].
  Qed.

  Lemma lookahead_J2 stop h c : J c -> holds2 (lookahead P stop h c).
  Proof.
    intros H. unfold lookahead. destruct (find_la P h); [|apply J_E; exact H].
    apply holds2_bind; [apply la_loop_J2; exact H|]. intros r c1 H1. simpl. apply J_queue. exact H1.
  Qed.

  Lemma b_call_J2 stop f c : J c ->
    match f (bs c) with BOk b' | BRaise _ b' => J (set_bs b' c) | BCrash => True end ->
    holds2 (b_call P stop f c).
  Proof.
    intros H F. unfold b_call. destruct (f (bs c)); simpl; [exact F| |apply J_E; exact H].
    destruct stop; [apply J_E; exact F|]. apply J_adderr. exact F.
  Qed.

  Lemma exec_J2 stop t k : forall ps c, J c -> holds2 (exec P stop t k ps c).
  Proof.
    induction ps as [|p ps IH]; intros c H; simpl; [exact H|].
    apply holds2_bind; [|intros _ c' H'; apply IH; exact H'].
    destruct p; (apply b_call_J2; [apply J_emit; exact H|]).
    - apply (J_start r). apply J_emit. exact H.
    - apply (J_end r). apply J_emit. exact H.
    - apply (J_build t). apply J_emit. exact H.
  Qed.

  Lemma run_tests_J2 stop : forall tests t c, J c -> holds2 (run_tests P stop tests t c).
  Proof.
    induction tests as [|x xs IH]; intros t c H; simpl; [exact H|].
    apply holds2_bind; [apply match_k_J2; exact H|]. intros [b t1] c1 H1. simpl.
    destruct b; [|apply IH; exact H1].
    destruct (t_guard x) as [h|].
    - apply holds2_bind; [apply lookahead_J2; exact H1|]. intros g c2 H2.
      destruct g; [|apply IH; exact H2].
      apply holds2_bind; [apply exec_J2; exact H2|]. intros _ c3 H3. exact H3.
    - apply holds2_bind; [apply exec_J2; exact H1|]. intros _ c2 H2. exact H2.
  Qed.

  Lemma match_token_J2 stop s t c : J c -> holds2 (match_token P stop s t c).
  Proof.
    intros H. unfold match_token. destruct (find_state P s) as [x|]; [|apply J_E; exact H].
    apply holds2_bind; [apply run_tests_J2; exact H|]. intros [o t'] c1 H1. simpl.
    destruct o; [exact H1|].
    pose proof (J_emit (EvX t' s) c1 H1) as H2.
    destruct stop; [apply J_E; exact H2|].
    apply holds2_bind; [apply J_adderr; exact H2|]. intros _ c3 H3. exact H3.
  Qed.

  Lemma loop_J2 stop : forall fuel s c, J c -> holds2 (loop P fuel stop s c).
  Proof.
    induction fuel as [|f IH]; intros s c H; simpl; [exact I|].
    pose proof (J_read c H) as R. destruct (read P c) as [t c1]. simpl in R.
    apply holds2_bind; [apply match_token_J2; exact R|]. intros s' c2 H2.
    destruct (is_eof P t); [exact H2 | apply IH; exact H2].
  Qed.

  (* the end of parse: Ok only with an empty error list, otherwise the composite of the list *)
  Theorem parse_J2 stop toks m b : J (init_ctx toks m b) ->
    match parse P stop toks m b with
    | Ok _ c => J c /\ errs c = []
    | Raise1 _ c | Crash c => E c
    | RaiseC es c => E c /\ es = errs c /\ es <> []
    | OutOfFuel => True
    end.
  Proof.
    intros H. unfold parse.
    assert (S1 : holds2 (b_call P stop (b_start P RGherkinDocument) (emit (EvS RGherkinDocument) (init_ctx toks m b)))).
    { apply b_call_J2; [apply J_emit; exact H|]. apply (J_start RGherkinDocument). apply J_emit. exact H. }
    destruct (b_call P stop (b_start P RGherkinDocument) _) as [[] c1|e c1|es c1|c1|]; cbn [bind]; simpl in S1; auto.
    pose proof (loop_J2 stop (S (S (length toks))) (start_state P) c1 S1) as L.
    destruct (loop P (S (S (length toks))) stop (start_state P) c1) as [s' c2|e c2|es c2|c2|]; cbn [bind]; simpl in L; auto.
    assert (S3 : holds2 (b_call P stop (b_end P RGherkinDocument) (emit (EvE RGherkinDocument) c2))).
    { apply b_call_J2; [apply J_emit; exact L|]. apply (J_end RGherkinDocument). apply J_emit. exact L. }
    destruct (b_call P stop (b_end P RGherkinDocument) _) as [[] c3|e c3|es c3|c3|]; cbn [bind]; simpl in S3; auto.
    destruct (errs c3) eqn:Ee; [auto|]. split; [apply J_E; exact S3|]. split; [auto | discriminate].
  Qed.
End Inv2.

(* ---- predicates on matcher / builder state only ---- *)
Section Inv.
  Context {Tok MS BS Err : Type}.
  Variable P : params Tok MS BS Err.
  Notation ctx := (ctx Tok MS BS Err).
  Notation res := (res Tok MS BS Err).

  Variable J : ctx -> Prop.
  Hypothesis J_ext : forall c c', ms c' = ms c -> bs c' = bs c -> J c -> J c'.
  Hypothesis J_ms : forall k t c, J c ->
    match matchf P k (ms c) t with MR _ _ m' | MRaise _ _ m' => J (set_ms m' c) end.
  Hypothesis J_start : forall r c, J c ->
    match b_start P r (bs c) with BOk b' | BRaise _ b' => J (set_bs b' c) | BCrash => True end.
  Hypothesis J_end : forall r c, J c ->
    match b_end P r (bs c) with BOk b' | BRaise _ b' => J (set_bs b' c) | BCrash => True end.
  Hypothesis J_build : forall t c, J c ->
    match b_build P t (bs c) with BOk b' | BRaise _ b' => J (set_bs b' c) | BCrash => True end.

  Definition holds {A} (r : res A) : Prop := sat r (fun _ c => J c) J True.

  Lemma add_error_ext e c : J c -> holds2 J J (add_error P e c).
  Proof.
    intros H. unfold holds2, add_error. destruct (existsb _ _); [exact H|].
    destruct (_ <? _); simpl.
    - split; [|split; [reflexivity | destruct (errs c); discriminate]].
      apply (J_ext c); auto.
    - apply (J_ext c); auto.
  Qed.

  Theorem parse_J stop toks m b : J (init_ctx toks m b) -> holds (parse P stop toks m b).
  Proof.
    intros H.
    assert (T : match parse P stop toks m b with
                | Ok _ c => J c /\ errs c = []
                | Raise1 _ c | Crash c => J c
                | RaiseC es c => J c /\ es = errs c /\ es <> []
                | OutOfFuel => True
                end).
    { apply (parse_J2 P J J); auto.
      - intros q c h. apply (J_ext c); auto.
      - intros c h. unfold read. destruct (queue c); [destruct (rest c)|]; simpl; apply (J_ext c); auto.
      - intros c h. apply (J_ext c); auto.
      - intros e c h. apply (J_ext c); auto.
      - exact add_error_ext. }
    unfold holds, sat. destruct (parse P stop toks m b); tauto.
  Qed.
End Inv.
