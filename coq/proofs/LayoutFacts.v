(* C16: layout neutrality, the parts that are lemmas about the scanner and the string primitives. *)
From Coq Require Import List Bool Arith NArith Lia.
Import ListNotations.
Require Import Kinds PyStr Line Matcher LocationFacts.

Local Open Scope N_scope.

(* text-mode file reading (universal newlines) leaves a text without carriage returns unchanged ... *)
Lemma universal_newlines_no_cr s : ~ In CR s -> universal_newlines s = s.
Proof.
  induction s as [|c s IH]; intros H; [reflexivity|]. cbn [universal_newlines].
  destruct (c =? CR) eqn:E.
  - apply N.eqb_eq in E. subst. exfalso. apply H. now left.
  - f_equal. apply IH. intros X. apply H. now right.
Qed.

(* ... and turns every CRLF pair into LF: loading "a CRLF b" from a file = the string "a LF b" *)
Fixpoint crlf (s : str) : str :=
  match s with [] => [] | c :: r => if c =? LF then CR :: LF :: crlf r else c :: crlf r end.

Theorem universal_newlines_crlf s : ~ In CR s -> universal_newlines (crlf s) = s.
Proof.
  induction s as [|c s IH]; intros H; [reflexivity|]. cbn [crlf].
  assert (Hs : ~ In CR s) by (intros X; apply H; now right).
  destruct (c =? LF) eqn:E.
  - apply N.eqb_eq in E. subst c. cbn [universal_newlines]. rewrite N.eqb_refl. cbn [universal_newlines].
    replace (LF =? LF) with true by reflexivity. f_equal. auto.
  - cbn [universal_newlines]. destruct (c =? CR) eqn:E2.
    + apply N.eqb_eq in E2. subst. exfalso. apply H. now left.
    + f_equal. auto.
Qed.

(* a line terminator never reaches matched text: rstrip("\r\n") removes CR LF, LF and nothing else at the end *)
Lemma rdrop_crlf_tail x : ~ In CR x -> ~ In LF x -> forall tail, forallb is_crlf tail = true ->
  rdrop_while is_crlf (x ++ tail) = x.
Proof.
  induction x as [|c x IH]; intros H1 H2 tail Ht; cbn [app].
  - induction tail as [|d tail IHt]; [reflexivity|]. cbn [rdrop_while]. cbn [forallb] in Ht. apply andb_prop in Ht as [Hd Ht].
    rewrite (IHt Ht). now rewrite Hd.
  - cbn [rdrop_while]. rewrite IH; [| intros X; apply H1; now right | intros X; apply H2; now right | exact Ht].
    destruct x as [|e x]; [|reflexivity].
    assert (is_crlf c = false).
    { unfold is_crlf. destruct (c =? CR) eqn:E1; [apply N.eqb_eq in E1; subst; exfalso; apply H1; now left|].
      destruct (c =? LF) eqn:E2; [apply N.eqb_eq in E2; subst; exfalso; apply H2; now left|]. reflexivity. }
    now rewrite H.
Qed.

Lemma rstrip_crlf_app_lf x : ~ In CR x -> ~ In LF x -> rstrip_crlf (x ++ [LF]) = x /\ rstrip_crlf (x ++ [CR; LF]) = x /\ rstrip_crlf x = x.
Proof.
  intros H1 H2. unfold rstrip_crlf.
  split; [apply rdrop_crlf_tail; auto | split; [apply rdrop_crlf_tail; auto|]].
  rewrite <- (app_nil_r x) at 1. apply rdrop_crlf_tail; auto.
Qed.

(* whitespace at the ends never reaches stripped text: CR and LF are whitespace *)
Lemma rdrop_while_app_all p x tail : forallb p tail = true -> rdrop_while p (x ++ tail) = rdrop_while p x.
Proof.
  intros Ht. induction x as [|c x IH]; cbn [app].
  - induction tail as [|d tail IHt]; [reflexivity|]. cbn [rdrop_while]. cbn [forallb] in Ht. apply andb_prop in Ht as [Hd Ht].
    rewrite (IHt Ht). simpl. now rewrite Hd.
  - cbn [rdrop_while]. now rewrite IH.
Qed.

Theorem strip_ignores_line_end x : strip (x ++ [CR; LF]) = strip (x ++ [LF]) /\ strip (x ++ [LF]) = strip x.
Proof.
  assert (A : forall tail, forallb is_space tail = true -> strip (x ++ tail) = strip x).
  { intros tail Ht. unfold strip, lstrip, rstrip.
    induction x as [|c x IH]; cbn [app drop_while].
    - assert (drop_while is_space tail = []) by (clear -Ht; induction tail as [|d t IH]; simpl in *; auto; apply andb_prop in Ht as [-> Ht]; auto).
      now rewrite H.
    - destruct (is_space c); [exact IH|]. apply (rdrop_while_app_all is_space (c :: x) tail Ht). }
  split; [rewrite (A [CR; LF]), (A [LF]); reflexivity | apply A; reflexivity].
Qed.

(* the presence of a final line break does not add a line: the scanner's pieces are the same but for the terminator *)
Theorem py_lines_final_newline x : x <> [] -> ~ In LF (removelast x) -> last x 0 <> LF ->
  py_lines (x ++ [LF]) = [x ++ [LF]] /\ py_lines x = [x].
Proof.
  intros Hne Hn Hl.
  assert (NoLF : ~ In LF x).
  { intros X. destruct (exists_last Hne) as (y & z & E). subst x. rewrite removelast_last in Hn. rewrite last_last in Hl.
    apply in_app_iff in X as [X|[X|[]]]; [contradiction | congruence]. }
  assert (G : forall s cur, ~ In LF s -> lines_acc cur (s ++ [LF]) = [rev cur ++ s ++ [LF]]
                                        /\ (s <> [] \/ cur <> [] -> lines_acc cur s = [rev cur ++ s])).
  { induction s as [|c s IH]; intros cur Hs.
    - cbn [app lines_acc]. replace (LF =? LF) with true by reflexivity. split.
      + cbn [lines_acc rev]. reflexivity.
      + intros [H|H]; [congruence|]. destruct cur; [congruence|]. now rewrite app_nil_r.
    - cbn [app lines_acc]. assert (c =? LF = false).
      { destruct (c =? LF) eqn:E; [apply N.eqb_eq in E; subst; exfalso; apply Hs; now left | reflexivity]. }
      rewrite H. destruct (IH (c :: cur)) as [A B]; [intros X; apply Hs; now right|]. split.
      + rewrite A. cbn [rev]. now rewrite <- app_assoc.
      + intros _. rewrite B by (right; discriminate). cbn [rev]. now rewrite <- app_assoc. }
  unfold py_lines. destruct (G x [] NoLF) as [A B]. split; [exact A | apply B; now left].
Qed.
