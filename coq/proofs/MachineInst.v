(* Parser.parse over source text, in stop-at-first-error mode, computes the queue-free machine of Machine.v over
   the regenerated table with the real matcher and builder: instance of MachineEq.parse_machine. *)
From Coq Require Import String List Bool Arith NArith Lia.
Import ListNotations.
Require Import Kinds Automaton AutoFacts PyStr Line Matcher MatcherFacts Builder Pipeline PipelineFacts Table TableFacts Dialects
               Delivery DeliveryInst Machine MachineEq MachineC MachineCEq.

(* no #EOF test of the table is guarded by a look-ahead *)
Definition eof_unguarded (y : test) : bool :=
  if kind_beq (t_kind y) KEOF then match t_guard y with None => true | Some _ => false end else true.
Lemma table_eof_unguarded : forallb (fun x => forallb eof_unguarded (s_tests x)) Table.table = true.
Proof. vm_compute. reflexivity. Qed.
Lemma eof_unguarded_table x y : In x Table.table -> In y (s_tests x) -> t_kind y = KEOF -> t_guard y = None.
Proof.
  intros Ix Iy K. pose proof table_eof_unguarded as A. rewrite forallb_forall in A. specialize (A x Ix). rewrite forallb_forall in A.
  specialize (A y Iy). unfold eof_unguarded in A. rewrite K in A. cbn in A. destruct (t_guard y); [discriminate A | reflexivity].
Qed.

Definition machine_tokens (toks : list token) (m : mstate) (b : bstate) :=
  m_parse (pipeline_params Table.table) toks (reset_matcher dialects m) (reset_builder b).
Definition machine_source (m : mstate) (b : bstate) (src : str) := machine_tokens (scan src) m b.

Theorem pipeline_machine toks m b : Forall (fun t => tok_is_eof t = false) toks -> wf_ms m ->
  pm_rel (parse_tokens true toks m b) (machine_tokens toks m b).
Proof.
  intros Hne W. unfold parse_tokens, parse_tokens_with, machine_tokens.
  destruct (reset_matcher_wf' m W) as [W' _].
  exact (parse_machine (pipeline_params Table.table) _ tkey p_sk p_I p_key_pres p_eof_pres (fun n => eq_refl) p_I_pres p_sk_not_eof
           p_S1 p_S2 la_no_eof_table eof_unguarded_table toks (reset_matcher dialects m) (reset_builder b) Hne W').
Qed.

Theorem source_machine m b src : wf_ms m -> pm_rel (parse_tokens true (scan src) m b) (machine_source m b src).
Proof. intros W. apply pipeline_machine; [apply scan_noeof_from | exact W]. Qed.

(* ---- error-collecting mode (the default of Parser.parse) ---- *)
Definition machine_collecting_tokens (toks : list token) (m : mstate) (b : bstate) :=
  c_parse (pipeline_params Table.table) toks (reset_matcher dialects m) (reset_builder b).
Definition machine_collecting_source (m : mstate) (b : bstate) (src : str) := machine_collecting_tokens (scan src) m b.

Theorem pipeline_machine_collecting toks m b : Forall (fun t => tok_is_eof t = false) toks -> wf_ms m ->
  pc_rel (parse_tokens false toks m b) (machine_collecting_tokens toks m b).
Proof.
  intros Hne W. unfold parse_tokens, parse_tokens_with, machine_collecting_tokens.
  destruct (reset_matcher_wf' m W) as [W' _].
  exact (parse_machine_collecting (pipeline_params Table.table) _ tkey p_sk p_I p_key_pres p_eof_pres (fun n => eq_refl) p_I_pres p_sk_not_eof
           p_S1 p_S2 la_no_eof_table eof_unguarded_table toks (reset_matcher dialects m) (reset_builder b) Hne W').
Qed.

Theorem source_machine_collecting m b src : wf_ms m ->
  pc_rel (parse_tokens false (scan src) m b) (machine_collecting_source m b src).
Proof. intros W. apply pipeline_machine_collecting; [apply scan_noeof_from | exact W]. Qed.
