(* C03 (conservation): the AST of an accepted document carries exactly the elements of its lines --
   every keyword line, tag and table row once, in source order, with the keyword, text, cells and
   location the matcher extracted -- and its comment list carries exactly the comment lines. *)
From Coq Require Import List Bool Arith Lia.
Import ListNotations.
Require Import Kinds PyStr Line Matcher Ast Builder BuilderSafe AstIds Automaton AutoFacts Pipeline PipelineFacts Dialects Table TableFacts
               MatcherTyping C02Lemmas Delivery DeliveryInst PathReplay DenseDefs DenseFacts DenseStack DenseMain
               OrdDefs OrdFacts ConserveDefs ConserveCert ConserveFacts ShapeDefs ShapeCert Safety.

Definition fresh3 (i i' : nat) : list elem := [].

Lemma c_nodup r : pnodup (cpat r) = true. Proof. destruct r; reflexivity. Qed.
Lemma c_rfree r : crfree r = true -> cpat r = []. Proof. discriminate. Qed.
Lemma c_xr r k1 k2 : In (k1, k2) (cxr r) -> key_beq k1 k2 = false.
Proof. destruct r; cbn; try tauto. intros [H|[]]. inversion H; subst. reflexivity. Qed.
Lemma c_tfree k t : ctfree k = true -> ic3 (KT k, VTok t) = []. Proof. destruct k; try discriminate; reflexivity. Qed.
Lemma ic3_rule x v : ic3 (KR x, v) = vsrc v. Proof. destruct v; reflexivity. Qed.
Lemma c_trans af n c i v i' : cnrel3 af n -> ready af -> transform_node n c i = TOk v i' ->
  i <= i' /\ ic3 (KR (af_rule af), v) = iids3 (node_items n) ++ fresh3 i i'.
Proof.
  intros R Rd T. split.
  - pose proof (transform_ids n c i) as P. rewrite T in P. apply P.
  - pose proof (transform_keep af n c i R Rd) as K. rewrite T in K. cbn in K. rewrite ic3_rule, K. unfold fresh3. now rewrite app_nil_r.
Qed.
Lemma c_fresh af n c i v i' : crfree (af_rule af) = true -> cnrel3 af n -> transform_node n c i = TOk v i' -> fresh3 i i' = [].
Proof. reflexivity. Qed.

Notation csrel3 := (csrel ic3 cpat cxr cfo).
Notation stack3 := (stack_c ic3).

(* the tokens a path builds, with the kind each was matched as *)
Definition step_kts (ty : token * test) : list (kind * token) :=
  repeat (t_kind (snd ty), fst ty) (count_pb (t_prods (snd ty))).
Definition path_kts (l : list (token * test)) : list (kind * token) := flat_map step_kts l.
Definition kt_elems (kt : kind * token) : list elem := tok_elems (fst kt) (snd kt).
Definition kt_comments (kt : kind * token) : list comment := tok_comment (fst kt) (snd kt).

Lemma bops_bsteps t ps b : bops rP t ps b = bsteps t ps b.
Proof.
  revert b. induction ps as [|p ps IH]; intros b; cbn; [reflexivity|].
  assert (E : bop rP t p b = bop1 t p b).
  { unfold bop, bop1. destruct p; cbn [b_start b_end b_build pipeline_params]; unfold p_bstart, p_bend, p_bbuild;
      match goal with |- context [lift_bout ?o] => destruct o end; reflexivity. }
  rewrite E. destruct (bop1 t p b); [apply IH | reflexivity].
Qed.

Lemma added_kts k t : forall ps b b', bsteps t ps b = Some b' ->
  added ic3 fresh3 k t ps b = flat_map kt_elems (repeat (k, t) (count_pb ps)).
Proof.
  induction ps as [|p ps IH]; intros b b' H; cbn in *; [reflexivity|].
  destruct (bop1 t p b) as [b1|] eqn:B1; [|discriminate]. rewrite (IH _ _ H).
  destruct p; cbn; try reflexivity. f_equal. unfold bc, kt_elems. cbn. destruct (kind_beq k KComment) eqn:E; [|destruct k; reflexivity].
  apply kind_beq_eq in E. subst k. reflexivity.
Qed.

Lemma bsteps_comments k t : m_type t = Some k -> forall ps b b', bsteps t ps b = Some b' ->
  b_comments b' = b_comments b ++ flat_map kt_comments (repeat (k, t) (count_pb ps)).
Proof.
  intros Mt. induction ps as [|p ps IH]; intros b b' H; cbn in *; [inversion H; now rewrite app_nil_r|].
  destruct (bop1 t p b) as [b1|] eqn:B1; [|discriminate]. rewrite (IH _ _ H).
  unfold bop1 in B1. destruct p as [x|x|]; cbn [count_pb].
  - unfold builder_start in B1. inversion B1; subst. reflexivity.
  - unfold builder_end in B1. destruct (b_stack b) as [|n0 stk]; [discriminate|].
    destruct (transform_node n0 (b_comments b) (b_idc b)) as [v i'|e i'|]; try discriminate. destruct stk; [discriminate|]. inversion B1; subst. reflexivity.
  - unfold builder_build in B1. rewrite Mt in B1. cbn [repeat flat_map]. change (kt_comments (k, t)) with (tok_comment k t). unfold tok_comment.
    destruct k; try (destruct (b_stack b); [discriminate|]; inversion B1; subst; cbn [b_comments]; reflexivity).
    destruct (m_text t); [|discriminate]. inversion B1; subst. cbn [b_comments]. now rewrite <- app_assoc.
Qed.

Definition cinv (s : nat) (b : bstate) (l : list (token * test)) (m : mstate) : Prop :=
  exists rec, dlookup s kappa = Some rec /\ csrel3 rec (b_stack b)
              /\ stack3 (b_stack b) = flat_map kt_elems (path_kts l)
              /\ b_comments b = flat_map kt_comments (path_kts l)
              /\ (ms_sep m = None <-> dsb s = false).   (* inside a doc string exactly in the doc-string states *)

Lemma silent_sep s k m t m' : (ms_sep m = None <-> dsb s = false) -> matcher dialects k m (canon t) = MYes t m' ->
  csl s k = true -> ic3 (KT k, VTok t) = [].
Proof.
  intros Sep Mm Sl. unfold csl in Sl. apply andb_prop in Sl as [K D]. apply kind_beq_eq in K. subst k.
  fold (dsb s) in D. destruct (ms_sep m) as [sep|] eqn:Ms.
  - unfold ic3. cbn [fst snd]. unfold tok_elems. rewrite (matcher_sep_close _ _ _ _ _ _ Ms Mm). reflexivity.
  - destruct Sep as [S1 _]. rewrite (S1 eq_refl) in D. discriminate.
Qed.

Lemma reach_cinv b1 m1 : cinv Table.start_state b1 [] m1 -> forall s b l m, reach rP tok_step b1 m1 s b l m ->
  cinv s b l m /\ Forall (fun kt => tok_made (fst kt) (snd kt)) (path_kts l).
Proof.
  intros H0 s b l m R. induction R as [|s b l m x y t b' m' R IH Hx Hid Hy Ht Hb]; [split; [exact H0 | constructor]|].
  destruct IH as [(rec & Hl & S & Ce & Cc & Sep) Ft].
  pose proof kappa_ok as G. unfold ord_ok in G. apply andb_prop in G as [_ G]. rewrite forallb_forall in G.
  specialize (G x Hx). rewrite Hid, Hl in G. rewrite forallb_forall in G. specialize (G y Hy).
  destruct (o_prods cpat crfree ctfree cxr cfo (csl s (t_kind y)) (t_kind y) (t_prods y) rec) as [stk'|] eqn:D; [|discriminate].
  destruct (dlookup (t_tgt y) kappa) as [rec'|] eqn:Hl'; [|discriminate].
  pose proof Ht as ([Mt _] & Wm & Mm). rewrite bops_bsteps in Hb.
  destruct (o_steps ic3 cpat crfree ctfree cxr cfo fresh3 c_nodup c_xr c_rfree c_tfree c_trans c_fresh _ _ _ Mt (silent_sep _ _ _ _ _ Sep Mm) _ _ _ _ _ D Hb S) as (S' & _ & C').
  assert (Pk : path_kts (l ++ [(t, y)]) = path_kts l ++ repeat (t_kind y, t) (count_pb (t_prods y))).
  { unfold path_kts. rewrite flat_map_app. cbn. now rewrite app_nil_r. }
  split.
  - exists rec'. split; [exact Hl'|]. split; [eapply csrel_weaken; eauto|]. rewrite Pk, !flat_map_app. split; [|split].
    + rewrite C', Ce, (added_kts _ _ _ _ _ Hb). reflexivity.
    + rewrite (bsteps_comments _ _ Mt _ _ _ Hb), Cc. reflexivity.
    + (* the separator state moves with the doc-string states of the table *)
      destruct (beta_state x Hx) as (stk0 & _ & _ & Tests). destruct (Tests y Hy) as (stk1 & rec1 & _ & _ & _ & _ & Dsy).
      rewrite Hid in Dsy. rewrite Dsy. pose proof (matcher_sep _ _ _ _ _ _ Mm) as Ms.
      destruct (kind_beq (t_kind y) KDocStringSeparator).
      * destruct (ms_sep m) eqn:E0.
        -- rewrite Ms. assert (Dx : dsb s = true).
           { destruct (dsb s) eqn:Dx; [reflexivity|]. destruct Sep as [_ S2]. specialize (S2 eq_refl). discriminate. }
           rewrite Dx. cbn. tauto.
        -- destruct Ms as [Sn _]. assert (Dx : dsb s = false) by (apply Sep; reflexivity). rewrite Dx. cbn.
           split; [intros Xe; congruence | discriminate].
      * rewrite Ms. exact Sep.
  - rewrite Pk. apply Forall_app. split; [exact Ft|]. apply Forall_forall. intros kt Hin. apply repeat_spec in Hin. subst kt. exact (tok_step_made _ _ _ _ Ht).
Qed.

Lemma start_cinv b b1 m : ms_sep m = None -> b_start rP RGherkinDocument (reset_builder b) = BOk b1 -> cinv Table.start_state b1 [] m.
Proof.
  intros Ms. cbn [b_start pipeline_params]. unfold p_bstart, builder_start. cbn. intros H. inversion H; subst b1. clear H.
  pose proof kappa_ok as G. unfold ord_ok in G. apply andb_prop in G as [G _].
  destruct (dlookup Table.start_state kappa) as [[|f [|? ?]]|] eqn:Hl; try discriminate.
  exists [f]. split; [exact Hl|]. split; [|split; [reflexivity | split; [reflexivity | rewrite Ms, start_not_ds; tauto]]].
  apply (csrel_weaken ic3 cpat cxr cfo [aframe0]); [cbn; now rewrite G|].
  exists [Node (KR RGherkinDocument) []], (Node KNone []). split; [reflexivity|]. split; [|reflexivity].
  constructor; [apply cnrel_fresh | constructor].
Qed.

Lemma ends_doc3 s : ends rP s -> exists f, dlookup s kappa = Some [f] /\ af_rule f = RGherkinDocument.
Proof.
  intros (x & y & Hx & Hy & Hk & Ht).
  pose proof kappa_ends as G. unfold ord_ends in G. rewrite forallb_forall in G. specialize (G x Hx). rewrite forallb_forall in G. specialize (G y Hy).
  rewrite Hk, Ht, kind_beq_refl in G. cbn [negb orb] in G.
  destruct (dlookup s kappa) as [[|f [|? ?]]|]; try discriminate. exists f. split; [reflexivity|]. now apply rule_beq_eq.
Qed.

Lemma final_conserve b2 b3 f d kts : csrel3 [f] (b_stack b2) -> af_rule f = RGherkinDocument ->
  stack3 (b_stack b2) = flat_map kt_elems kts -> b_comments b2 = flat_map kt_comments kts ->
  b_end rP RGherkinDocument b2 = BOk b3 -> builder_result b3 = Some d ->
  doc_elems d = flat_map kt_elems kts /\ doc_comments d = flat_map kt_comments kts.
Proof.
  intros (nodes & root & E & F & R) Hr Ce Cc Be Br.
  inversion F as [|f0 n tl0 nodes0 Hn F0 E1 E2]; subst. inversion F0; subst.
  cbn [b_end pipeline_params] in Be. unfold p_bend in Be. apply lift_ok in Be. unfold builder_end in Be. rewrite E in Be. cbn [app] in Be.
  assert (Rd : ready f) by (split; rewrite Hr; discriminate).
  pose proof (transform_keep f n (b_comments b2) (b_idc b2) Hn Rd) as T.
  destruct (transform_node n (b_comments b2) (b_idc b2)) as [v i'|e i'|] eqn:Tn; try discriminate.
  cbn [keep_post] in T. inversion Be; subst b3. clear Be.
  unfold builder_result in Br. cbn [b_stack] in Br.
  pose proof Hn as ((Rtn & _) & _). rewrite Rtn, Hr in Br.
  assert (Gs : get_single (node_add root (KR RGherkinDocument) v) (KR RGherkinDocument) = Some v).
  { destruct root as [rt items]. cbn in R. subst items. reflexivity. }
  rewrite Gs in Br. destruct v; try discriminate. inversion Br; subst d0.
  rewrite E in Ce. cbn [app] in Ce. unfold stack_c in Ce. cbn in Ce. rewrite app_nil_r, R in Ce. cbn in Ce.
  split.
  - cbn [vsrc] in T. rewrite T. exact Ce.
  - (* the document takes the comment list as it stands *)
    unfold transform_node in Tn. rewrite Rtn, Hr in Tn.
    destruct (get_single n (KR RFeature)) as [w|]; [destruct w|]; inversion Tn; subst; exact Cc.
Qed.

Lemma delivered_path l : flat_map (fun e => match e with EvB t _ => [tkey t] | EvX t _ => [tkey t] | _ => [] end) (path_events l)
  = map (fun kt => tkey (snd kt)) (path_kts l).
Proof.
  unfold path_events, path_kts. induction l as [|[t y] l IH]; [reflexivity|]. cbn [flat_map]. rewrite flat_map_app, map_app, IH. f_equal.
  unfold step_events, step_kts. cbn [fst snd]. induction (t_prods y) as [|p ps IHp]; [reflexivity|].
  destruct p; cbn; [exact IHp | exact IHp | f_equal; exact IHp].
Qed.

Lemma reset_sep m : ms_sep (reset_matcher dialects m) = None.
Proof. unfold reset_matcher. destruct (str_eqb _ _); [reflexivity|]. destruct (find_dialect _ _); reflexivity. Qed.

Theorem source_conservation stop m b src d m1 b1 n : wf_ms m -> parse_source stop m b src = POk d m1 b1 n ->
  exists kts : list (kind * token),
    map (fun kt => tkey (snd kt)) kts = source_keys src
    /\ Forall (fun kt => tok_made (fst kt) (snd kt)) kts
    /\ doc_elems d = flat_map kt_elems kts
    /\ doc_comments d = flat_map kt_comments kts.
Proof.
  intros W. unfold parse_source. pose proof (source_delivery stop m b src W) as Dl. unfold parse_tokens, parse_tokens_with in *.
  destruct (parse rP stop (scan src) (reset_matcher dialects m) (reset_builder b)) as [[] c|e c|es c|c|] eqn:P; try discriminate.
  destruct (builder_result (bs c)) as [d0|] eqn:Br; [|discriminate]. intros H. inversion H; subst. clear H.
  destruct (path_replay rP wf_ms wf_ms_kept quiet_p p_fail p_raise p_quiet p_la p_guard tok_step pipe_step pipe_eof' _ _ _ _ _ (proj1 (reset_matcher_wf' m W)) P) as (b2 & s & b3 & l & m2 & Hs & R & He & Hend & Hev).
  destruct (reach_cinv b2 _ (start_cinv _ _ _ (reset_sep m) Hs) s b3 l m2 R) as [(rec & Hl & S & Ce & Cc & _) Ft].
  destruct (ends_doc3 s He) as (f & Hf & Hr). rewrite Hf in Hl. inversion Hl; subst rec.
  exists (path_kts l). split; [|split; [exact Ft | exact (final_conserve _ _ _ _ _ S Hr Ce Cc Hend Br)]].
  rewrite <- Dl. unfold delivered. rewrite Hev. cbn [flat_map]. rewrite flat_map_app. cbn. rewrite app_nil_r. symmetry. apply delivered_path.
Qed.
