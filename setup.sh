#!/bin/bash
# MANIFEST.setup_cmd: regenerate coq/gen from /repo, full .vo build, extraction, OCaml driver.
set -e
cd "$(dirname "$0")"
export PYTHONHASHSEED=0 PYTHONDONTWRITEBYTECODE=1
mkdir -p work evidence replay coq/props
/venv/bin/python tools/regen.py
coq/build.sh
coq/extract/build.sh
# no Admitted/Axiom/... anywhere
if grep -rnE '\b(Admitted|admit|Axiom|Parameter|Conjecture|Admit Obligations|bypass_check)\b|Unset Guard Checking|Unset Positivity|Unset Universe Checking' coq/theories coq/proofs coq/props coq/extract --include=*.v | grep -v '(\*.*\*)'; then
  echo "forbidden construct in the development" >&2; exit 1
fi
echo "setup ok"
